#!/bin/bash
# usage: tools_replayer_seeds.sh [n_seeds]  — every native replayer on the unchanged tree for seeds 0..n-1 (directed search mode, no witness);
# prints each run that reports a failing input (known findings are expected for c03_balance / c11_allinf).
n=${1:-6}
d=$(mktemp -d /tmp/rseeds.XXXXXX)
job() { r=$1; s=$2; d=$3; echo "{\"seed\": $s, \"input\": null}" > $d/$r.$s.json; cd $d; out=$(PYTHONPATH=${VERIF_REPO:-/repo} timeout 3000 /venv/bin/python /verif/replayers/$r.py $d/$r.$s.json 2>&1 | tail -1); echo "$r seed=$s ${out:0:260}"; }
export -f job
for r in $(ls /verif/replayers/*.py | xargs -n1 basename | sed 's/\.py$//'); do for s in $(seq 0 $((n-1))); do echo "$r $s $d"; done; done | xargs -P 14 -L1 bash -c 'job $0 $1 $2' | grep -v '"reproduced": false' | sort
rm -rf $d
