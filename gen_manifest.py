#!/usr/bin/env python3
"""Regenerates MANIFEST.json from the table below (kept in one place so it stays valid)."""
import json
CLAIMED = json.load(open("claimed.json"))
NA = json.load(open("not_applicable.json"))
props = [json.loads(l) for l in open("properties.jsonl")]
checks = []
for p in props:
    c = CLAIMED.get(p["id"])
    if not c:
        continue
    checks.append({
        "property_id": p["id"],
        "quick_cmd": f"./check {p['id']} --tier quick",
        "thorough_cmd": f"./check {p['id']} --tier thorough",
        "evidence_file": f"/verif/evidence/{p['id']}.json",
        "replay_cmd_template": f"./check {p['id']} --replay {{path}}",
        "engine": "pyvc",
        "level_claimed": {"category": "proof", "text": c["text"], "design_ref": f"DESIGN.md §2/{p['id']}"},
        "level_note": c["note"],
        "technique": c["technique"],
    })
na = [{"property_id": k, "reason": v} for k, v in NA.items() if k not in CLAIMED]
m = {
    "version": 1,
    "setup_cmd": "./setup.sh",
    "hooks": {"guard": "TEMPEST_VERIF", "enable": "no hooks: contracts are sidecar files under /verif/contracts; the real source is re-read with ast on every run",
              "baseline_off_cmd": "cd /repo && /venv/bin/python -m pytest -ra -q -p no:cacheprovider --timeout=900 --continue-on-collection-errors",
              "source_commits": [], "add_only": True},
    "engines": [{"name": "pyvc", "path": "/verif/pyvc", "serves_properties": sorted(CLAIMED),
                 "kind_free_text": "contract-based deductive verification: AST symbolic executor over the real tempest source -> verification conditions -> z3 (cvc5 on unknown); sidecar contracts in /verif/contracts"}],
    "checks": checks,
    "not_applicable": na,
    "notes": "See DESIGN.md. Exit codes: 0 held, 1 violation, 2 undecided, 3 tool error.",
}
json.dump(m, open("MANIFEST.json", "w"), indent=1)
print("claimed", sorted(CLAIMED), "n/a", [x["property_id"] for x in na])
