import z3, time
I=z3.IntSort()
n,C,p,m1,m2=z3.Ints("n C p m1 m2")
LEN=z3.Function("LEN",I,I); E=z3.Function("E",I,I,I); OWN=z3.Function("OWN",I,I); POS=z3.Function("POS",I,I)
lab=z3.Function("lab",I,I)   # label of position j of the parent (0/1)
sa=z3.Function("sa",I,I); sb=z3.Function("sb",I,I); ia=z3.Function("ia",I,I); ib=z3.Function("ib",I,I)
x,c,j,q=z3.Ints("x c j q")
hyp=[C>=1, p>=0, p<C, n>=1,
 z3.ForAll([x], z3.Implies(z3.And(x>=0,x<n), z3.And(OWN(x)>=0,OWN(x)<C,POS(x)>=0,POS(x)<LEN(OWN(x)),E(OWN(x),POS(x))==x)), patterns=[OWN(x)]),
 z3.ForAll([c,j], z3.Implies(z3.And(c>=0,c<C,j>=0,j<LEN(c)), z3.And(E(c,j)>=0,E(c,j)<n,OWN(E(c,j))==c,POS(E(c,j))==j)), patterns=[E(c,j)]),
 # children: label-0 and label-1 positions of the parent (L-MASK selection facts)
 z3.ForAll([j], z3.Implies(z3.And(j>=0,j<LEN(p)), z3.Or(lab(j)==0,lab(j)==1)), patterns=[lab(j)]),
 m1>=0, m2>=0,
 z3.ForAll([q], z3.Implies(z3.And(q>=0,q<m1), z3.And(sa(q)>=0,sa(q)<LEN(p),lab(sa(q))==0,ia(sa(q))==q)), patterns=[sa(q)]),
 z3.ForAll([j], z3.Implies(z3.And(j>=0,j<LEN(p),lab(j)==0), z3.And(ia(j)>=0,ia(j)<m1,sa(ia(j))==j)), patterns=[ia(j)]),
 z3.ForAll([q], z3.Implies(z3.And(q>=0,q<m2), z3.And(sb(q)>=0,sb(q)<LEN(p),lab(sb(q))==1,ib(sb(q))==q)), patterns=[sb(q)]),
 z3.ForAll([j], z3.Implies(z3.And(j>=0,j<LEN(p),lab(j)==1), z3.And(ib(j)>=0,ib(j)<m2,sb(ib(j))==j)), patterns=[ib(j)]),
]
# new structure after pop(p); extend([a,b])
C2=C+1
def LEN2(cc): return z3.If(cc<p, LEN(cc), z3.If(cc<C-1, LEN(cc+1), z3.If(cc==C-1, m1, m2)))
def E2(cc,jj): return z3.If(cc<p, E(cc,jj), z3.If(cc<C-1, E(cc+1,jj), z3.If(cc==C-1, E(p,sa(jj)), E(p,sb(jj)))))
def OWN2(xx): return z3.If(OWN(xx)<p, OWN(xx), z3.If(OWN(xx)>p, OWN(xx)-1, z3.If(lab(POS(xx))==0, C-1, C)))
def POS2(xx): return z3.If(OWN(xx)==p, z3.If(lab(POS(xx))==0, ia(POS(xx)), ib(POS(xx))), POS(xx))
g1=z3.Implies(z3.And(x>=0,x<n), z3.And(OWN2(x)>=0,OWN2(x)<C2,POS2(x)>=0,POS2(x)<LEN2(OWN2(x)),E2(OWN2(x),POS2(x))==x))
g2=z3.Implies(z3.And(c>=0,c<C2,j>=0,j<LEN2(c)), z3.And(E2(c,j)>=0,E2(c,j)<n,OWN2(E2(c,j))==c,POS2(E2(c,j))==j))
for nm,g in (("every sample has its (cluster, position)",g1),("every entry is owned by its slot",g2)):
    s=z3.Solver(); s.set("timeout",60000); s.add(*hyp); s.add(z3.Not(g)); t=time.time(); print(nm, s.check(), round(time.time()-t,2))
