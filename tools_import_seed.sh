#!/bin/bash
# usage: tools_import_seed.sh <PROP> <N_src> <N_dst>  — import a sub-agent's change from /tmp/wt2/<PROP>/_out, confirm it, record meta.json
prop=$1; ns=$2; nd=$3
src=/tmp/wt2/$prop/_out
id=${prop}_$nd
out=/verif/seeded/$id
mkdir -p $out
cp $src/patch$ns.diff $out/patch.diff; cp $src/demo$ns.py $out/demo.py; cp $src/notes$ns.md $out/notes.md 2>/dev/null
res=$(/verif/tools_reverify_seed.sh $id | grep -v conda | tail -1)
echo "$res"
python3 - "$id" "$res" <<'PY'
import json, sys, re, os
id_, res = sys.argv[1], sys.argv[2]
m = re.search(r"demo_head=(\d+) demo_patched=(\d+) tests_rc=(\d+) (.*)", res)
meta = {"property": id_.split("_")[0],
        "origin": "fresh sub-agent (round 2) given only the property text and its own scratch worktree of /repo (outside /repo and /verif)",
        "needs_to_manifest": "see notes.md (written by the sub-agent)",
        "confirmed_by_me": {"demo_on_unmodified_tree_exit": int(m.group(1)) if m else None, "demo_on_patched_tree_exit": int(m.group(2)) if m else None,
                            "test_suite_on_patched_tree": m.group(4) if m else res, "command": "tools_reverify_seed.sh (worktree under /tmp/wtv, removed afterwards)"},
        "detected_by": None}
json.dump(meta, open(f"/verif/seeded/{id_}/meta.json", "w"), indent=1)
PY
