import numpy as np
from tempest.mcmc import apply_boundary_conditions as f
v=np.array([[1e300,1e19,2.0**63,-2.0**63,-1e25,2.5,-0.25,3.0,-1.0,0.3,1.75]])
for j in range(v.shape[1]):
    r=f(v[:,[j]],None,np.array([0]))[0,0]; print(v[0,j], r, "OK" if 0<=r<=1 else "OUT")
