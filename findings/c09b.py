import numpy as np
from tempest import Sampler
def pt(u): return 10*u-5
def ll(x): return -0.5*np.sum(x**2)
r=[]
for k in range(2):
    s=Sampler(pt,ll,n_dim=2,n_particles=32,random_state=0); s.run(n_total=64,progress=False); r.append(s.evidence()[0])
print(r, "ok" if r[0]==r[1] else "DEFECT")
