import numpy as np, sys
from tempest import Sampler
def pt(u): return 10*u-5
def ll(x): return -0.5*np.sum(x**2)
for ce in (2,3,5,7):
  for er in (1.0,2.0,3.0):
    try:
        s=Sampler(pt,ll,n_dim=2,n_particles=32,cluster_every=ce,ess_ratio=er,random_state=0); s.run(n_total=64,progress=False); print(ce,er,"ok")
    except Exception as e: print(ce,er,type(e).__name__,e)
