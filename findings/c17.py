import numpy as np
from tempest.state_manager import StateManager
s=StateManager(2)
for t in range(2):
    s.update_current({"u":np.random.rand(4,2),"x":np.random.rand(4,2),"logl":np.random.rand(4),"beta":0.0,"logz":0.0}); s.commit_current_to_history()
d=s.to_dict(); ref=s.get_history("logl",flat=True).copy()
d["_history"]["logl"][0][:]=99; d["_current"]["u"][:]=77
print("to_dict aliases:", not np.array_equal(ref,s.get_history("logl",flat=True)) or (s.get_current("u")==77).all())
r=s.compute_results(); r["logw"][:]=0; r["logl"][:]=5
r2=s.compute_results(); print("results aliases cache:", (r2["logw"]==0).all() or (r2["logl"]==5).all())
