import numpy as np
from tempest import Sampler
def pt(u): return 10*u-5
def ll(x): return -0.5*np.sum(x**2)
s=Sampler(pt,ll,n_dim=2,n_particles=16,pool=1,random_state=0); s.run(n_total=32,progress=False); print("pool=1 ok", s.evidence()[0])
