import numpy as np, tempest, sys
from tempest import Sampler
def pt(u): return 10*u-5
def ll(x): return -0.5*np.sum(x**2)
s=Sampler(pt,ll,n_dim=2,n_particles=32,output_dir="/tmp/probe/st",random_state=0)
s.run(n_total=64,progress=False,save_every=1)
import os; print(sorted(os.listdir("/tmp/probe/st")))
s2=Sampler(pt,ll,n_dim=2,n_particles=32,output_dir="/tmp/probe/st2")
s2.load_state("/tmp/probe/st/ps_3.state")
print(s2.state.get_history_length(), s2.state.get_current("beta"), s2.state.get_current("iter"))
