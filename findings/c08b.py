import numpy as np
from tempest import Sampler
def pt(u): return 10*u-5
def ll(x): return -0.5*np.sum(x**2)
class P:
    def map(self,f,xs): return [f(x) for x in xs]
s=Sampler(pt,ll,n_dim=2,n_particles=16,output_dir="/tmp/probe/st3",pool=P())
s._core._initialize_fresh(); s.sample(); 
s.save_state("/tmp/probe/st3/a.state"); print("saved; pool kept:", s._core.config.pool is not None)
