import numpy as np
from tempest import Sampler
def pt(u): return 10*u-5
def ll(x): return -0.5*np.sum(x**2)
s=Sampler(pt,ll,n_dim=2,n_particles=32,random_state=0); s.run(n_total=64,progress=False)
for rs in (False,True):
  for tr in (False,True):
    out=s.posterior(resample=rs,trim_importance_weights=tr,return_logw=True)
    print(rs,tr,[len(o) for o in out])
