import numpy as np
from scipy import stats
from tempest.mcmc import RWMRunner, TPCNRunner
from tempest.modes import ModeStatistics
np.random.seed(3)
n=40000; d=1
for R,name in ((RWMRunner,"rwm"),(TPCNRunner,"tpcn")):
    u=np.random.rand(n,d); x=u.copy(); logl=np.zeros(n)
    ms=ModeStatistics(np.full((1,d),0.5),np.eye(d).reshape(1,d,d)*0.09,np.array([5.0]))
    ll=lambda x:(np.zeros(len(x)),None)
    r=R(u,x,logl,None,np.zeros(n,dtype=int),1.0,ms,ll,lambda u:u,None,n_steps=1,n_max=1)
    r._check_convergence=lambda a: r.iteration>=8
    r._adapt_sigma=lambda c,m: None
    out=r.run()
    print(name, "KS p vs uniform:", stats.kstest(out[0][:,0],"uniform").pvalue, "frac within 0.05 of edge:", np.mean((out[0][:,0]<0.05)|(out[0][:,0]>0.95)), "(0.10 expected)")
