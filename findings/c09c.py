import numpy as np, shutil
from tempest import Sampler
def pt(u): return 10*u-5
def ll(x): return -0.5*np.sum(x**2)
shutil.rmtree("/tmp/probe/st4",ignore_errors=True)
s=Sampler(pt,ll,n_dim=2,n_particles=32,output_dir="/tmp/probe/st4",random_state=0)
s.run(n_total=64,progress=False,save_every=2)
full=s.state.get_history("u",flat=True)
s2=Sampler(pt,ll,n_dim=2,n_particles=32,output_dir="/tmp/probe/st5",random_state=0)
s2.run(n_total=64,progress=False,resume_state_path="/tmp/probe/st4/ps_2.state")
res=s2.state.get_history("u",flat=True)
print(full.shape,res.shape)
b1=s.state.get_history("u",index=0); b3=s2.state.get_history("u",index=2)
print("resumed batch 3 replays batch 1 draws:", np.array_equal(b1,b3))
print("resumed == uninterrupted:", full.shape==res.shape and np.array_equal(full,res), s.evidence()[0], s2.evidence()[0])
