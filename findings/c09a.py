import numpy as np
from tempest.cluster import HierarchicalGaussianMixture
X=np.random.RandomState(5).rand(200,2)
out=[]
for pre in (1,2):
    np.random.seed(pre); HierarchicalGaussianMixture().fit(X); out.append(np.random.rand())
print(out, "DEFECT" if out[0]==out[1] else "ok")
