import numpy as np
from tempest import Sampler
def pt(u): return u
def ll(x): return -np.inf if x[0]<0.5 else -0.5*np.sum((x-0.75)**2)/0.01
s=Sampler(pt,ll,n_dim=2,n_particles=2000,ess_ratio=4.0,random_state=1)
s.run(n_total=4000,progress=False)
b=s.state.get_history("beta"); z=s.state.get_history("logz")
print([round(float(v),3) for v in z[b==0]], "expected each ~", round(np.log(0.5),3))
# truth: f=0.5; Z = int over x0 in [.5,1], x1 in[0,1] of gaussian sigma=.1 centred .75 => ~ 2*pi*0.01 (fully inside)
print("final", s.evidence()[0], "truth", np.log(2*np.pi*0.01))
