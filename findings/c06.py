import numpy as np
from tempest.tools import systematic_resample
import numpy.random as r
orig=r.random
np.random.random=lambda: 1-1e-12
print(systematic_resample(3,np.array([0.5,0.5-1e-9])))
np.random.random=lambda: np.nextafter(1,0)
print(systematic_resample(3,np.full(10,0.1)))
