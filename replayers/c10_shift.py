"""Native paired-run contract for C10: the real Sampler is run twice under the same seed with log-likelihoods L and L + c;
schedule, particles, ESS sequence must agree (to rounding) and every recorded log-evidence at temperature beta must be
shifted by beta*c (the final one by c).  Bounded: small problems, the option lattice and shifts listed below."""
import json, sys, warnings, itertools, os, tempfile, shutil, atexit
import numpy as np
import tempest

warnings.simplefilter("ignore")
BASE = tempfile.mkdtemp(prefix="c10_")
atexit.register(shutil.rmtree, BASE, True)


def prior(u):
    return 10.0 * u - 5.0


def make_like(c):
    def loglike(x):
        return -0.5 * float(np.sum((x - 1.0) ** 2) / 0.25) + c
    return loglike


def make_like_vec(c):
    def loglike(x):
        return -0.5 * np.sum((x - 1.0) ** 2, axis=1) / 0.25 + c
    return loglike


def make_like_blob(c):
    def loglike(x):
        return -0.5 * float(np.sum((x - 1.0) ** 2) / 0.25) + c, float(x[0])
    return loglike


def prior32(u):
    return (10.0 * u - 5.0).astype(np.float32)


def like_kw(x, shift=0.0):
    return -0.5 * float(np.sum((np.asarray(x, dtype=float) - 1.0) ** 2) / 0.25) + shift


def run(c, seed, opts, n_total):
    o = dict(opts)
    if o.get("special"):
        kind = o.pop("special")
        npart = o.pop("n_particles", 24)
        if kind == "float32-prior":
            s = tempest.Sampler(prior32, make_like(c), n_dim=2, n_particles=npart, random_state=seed, output_dir=tempfile.mkdtemp(prefix="out_", dir=BASE), **o)
        else:
            s = tempest.Sampler(prior, like_kw, n_dim=2, n_particles=npart, random_state=seed, output_dir=tempfile.mkdtemp(prefix="out_", dir=BASE),
                                log_likelihood_kwargs=dict(shift=c), **o)
        s.run(n_total=n_total, progress=False)
        st = s.state
        return dict(beta=np.array(st.get_history("beta")), logz=np.array(st.get_history("logz")), ess=np.array(st.get_history("ess")),
                    u=st.get_history("u", flat=True), logl=st.get_history("logl", flat=True), final=s.evidence()[0], weights=None)
    if o.get("blobs_dtype") is not None:
        s = tempest.Sampler(prior, make_like_blob(c), n_dim=2, n_particles=o.pop("n_particles", 24), random_state=seed,
                            output_dir=tempfile.mkdtemp(prefix="out_", dir=BASE), **o)
        s.run(n_total=n_total, progress=False)
        st = s.state
        return dict(beta=np.array(st.get_history("beta")), logz=np.array(st.get_history("logz")), ess=np.array(st.get_history("ess")),
                    u=st.get_history("u", flat=True), logl=st.get_history("logl", flat=True), final=s.evidence()[0], weights=None)
    vec = o.pop("vectorize", False)
    npart = o.pop("n_particles", 24)
    s = tempest.Sampler(prior, (make_like_vec if vec else make_like)(c), n_dim=2, n_particles=npart, vectorize=vec,
                        random_state=seed, output_dir=tempfile.mkdtemp(prefix="out_", dir=BASE), **o)
    s.run(n_total=n_total, progress=False)
    st = s.state
    return dict(beta=np.array(st.get_history("beta")), logz=np.array(st.get_history("logz")), ess=np.array(st.get_history("ess")),
                u=st.get_history("u", flat=True), logl=st.get_history("logl", flat=True), final=s.evidence()[0],
                weights=s.posterior()[1] if False else None)


def compare(a, b, c):
    if len(a["beta"]) != len(b["beta"]):
        return f"different number of iterations: {len(a['beta'])} vs {len(b['beta'])}"
    if not np.allclose(a["beta"], b["beta"], rtol=1e-7, atol=1e-10):
        i = int(np.argmax(np.abs(a["beta"] - b["beta"])))
        return f"temperature schedule differs at iteration {i}: {a['beta'][i]!r} vs {b['beta'][i]!r}"
    if a["u"].shape != b["u"].shape or not np.allclose(a["u"], b["u"], rtol=1e-6, atol=1e-9):
        return "particles differ"
    if not np.allclose(a["ess"], b["ess"], rtol=1e-5, atol=1e-7):
        i = int(np.argmax(np.abs(a["ess"] - b["ess"])))
        return f"ESS sequence differs at iteration {i}: {a['ess'][i]!r} vs {b['ess'][i]!r}"
    if not np.allclose(b["logl"], a["logl"] + c, rtol=1e-12, atol=1e-9 * (1 + abs(c))):
        return "stored log-likelihoods are not shifted by c"
    want = a["logz"] + a["beta"] * c
    tol = 1e-6 * (1 + abs(c))
    bad = ~(np.abs(b["logz"] - want) <= tol)
    if bad.any():
        i = int(np.argmax(bad))
        return (f"recorded log-evidence at iteration {i} (beta={a['beta'][i]:.6g}): {b['logz'][i]!r} with shift, {a['logz'][i]!r} without; "
                f"expected a shift of beta*c = {a['beta'][i] * c!r}")
    if not (abs(b["final"] - (a["final"] + c)) <= tol):
        return f"final log-evidence {b['final']!r} vs {a['final']!r} + c"
    return None


def short_schedules():
    """schedules that stop inside the termination tolerance (last beta in (1 - 1e-4, 1)): the likelihood scale is solved for from the
    seeded prior draws (which do not depend on the likelihood) so that the first annealing step crosses the ESS target at 1 - 3e-5"""
    def mk(scale, c, seed):
        s = tempest.Sampler(lambda u: 2.0 * u - 1.0, lambda x: -scale * float(np.sum((x - 0.25) ** 2)) + c, n_dim=2, n_particles=64,
                            random_state=seed, output_dir=tempfile.mkdtemp(prefix="out_", dir=BASE))
        return s

    def ess_of(lw):
        w = np.exp(lw - lw.max())
        return w.sum() ** 2 / (w ** 2).sum()
    n_short = 0
    for seed in (5, 11):
        probe = mk(1.0, 0.0, seed)
        probe.run(n_total=64, progress=False)
        beta = np.asarray(probe.state.get_history("beta"), dtype=float)
        x = np.concatenate([probe.state.get_history("x", index=t) for t in range(int(np.sum(beta == 0.0)))])
        g = -np.sum((x - 0.25) ** 2, axis=1)
        target = probe._core.config.ess_ratio * 64 if hasattr(probe, "_core") else 64.0
        lo, hi = 0.0, 1e4
        if not (ess_of(hi * g) < target <= ess_of(lo * g)):
            continue
        for _ in range(200):
            mid = 0.5 * (lo + hi)
            lo, hi = (mid, hi) if ess_of(mid * g) >= target else (lo, mid)
        scale = 0.5 * (lo + hi) / (1.0 - 3e-5)
        for c in (1000.0, -1000.0):
            out = []
            for cc in (0.0, c):
                s = mk(scale, cc, seed)
                s.run(n_total=100, progress=False)
                st = s.state
                out.append(dict(beta=np.array(st.get_history("beta")), logz=np.array(st.get_history("logz")), ess=np.array(st.get_history("ess")),
                                u=st.get_history("u", flat=True), logl=st.get_history("logl", flat=True), final=s.evidence()[0]))
            if out[0]["beta"][-1] < 1.0:
                n_short += 1
            r = compare(out[0], out[1], c)
            if r:
                return f"schedule ending at beta = {out[0]['beta'][-1]!r} (inside the termination tolerance), c = {c}: {r}", {"seed": seed, "scale": scale, "c": c}
    return None, {"short_schedules": n_short}


def main():
    p = json.load(open(sys.argv[1]))
    tried = 0
    try:
        r, info = short_schedules()
    except Exception as e:
        r, info = f"short-schedule scenario raised {type(e).__name__}: {e}", {}
    if r:
        print(json.dumps({"reproduced": True, "tried": 1, "input": info, "detail": r}))
        return
    lattice = [dict(), dict(sample="rwm"), dict(resample="syst"), dict(clustering=False), dict(volume_variation=0.5),
               dict(sample="rwm", resample="syst", clustering=False), dict(vectorize=True), dict(cluster_every=2),
               dict(volume_variation=0.03, n_particles=64), dict(volume_variation=0.1, n_particles=48, sample="rwm"),
               dict(blobs_dtype="float32"), dict(blobs_dtype="float64", resample="syst"), dict(pool=2), dict(pool=3, sample="rwm", clustering=False),
               dict(special="float32-prior"), dict(special="float32-prior", sample="rwm"), dict(special="kwargs-shift"), dict(special="kwargs-shift", pool=2)]
    shifts = [3.0, -250.0, 1000.0, -1000.0]
    cwd = os.getcwd()
    os.chdir(tempfile.mkdtemp(prefix="cwd_", dir=BASE))
    try:
        for opts, c in itertools.product(lattice, shifts):
            if ("pool" in opts or "special" in opts) and c not in (3.0, -1000.0):
                continue
            tried += 1
            try:
                a = run(0.0, 11, opts, 96)
                b = run(c, 11, opts, 96)
            except Exception as e:
                print(json.dumps({"reproduced": True, "tried": tried, "input": {"options": opts, "c": c, "seed": 11},
                                  "detail": f"run raised {type(e).__name__}: {e}"}))
                return
            r = compare(a, b, c)
            if r:
                print(json.dumps({"reproduced": True, "tried": tried, "input": {"options": opts, "c": c, "seed": 11, "n_total": 96},
                                  "detail": r}))
                return
    finally:
        os.chdir(cwd)
    print(json.dumps({"reproduced": False, "tried": tried, "detail": "paired runs agree on the option lattice x shifts"}))


main()
