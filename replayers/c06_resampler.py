"""Native contract for Resampler.run: exactly n_particles valid history indices for weight vectors that are normalised only up to
rounding (cumulative sum ending just below 1) and for every value the uniform primitives can return (incl. the largest double < 1)."""
import json, sys, warnings
import numpy as np
from tempest.state_manager import StateManager
from tempest.steps.resample import Resampler

warnings.simplefilter("ignore")


def state(n_hist, d=2):
    st = StateManager(d)
    u = np.random.RandomState(0).uniform(0, 1, (n_hist, d))
    st.set_current("u", u); st.set_current("x", u * 2); st.set_current("logl", -u.sum(axis=1))
    st.set_current("beta", 0.5); st.set_current("logz", 0.0); st.set_current("iter", 1); st.set_current("calls", 0)
    st.commit_current_to_history()
    st.set_current("beta", 0.5)
    return st


def main():
    p = json.load(open(sys.argv[1]))
    tried = 0
    top = float(np.nextafter(1.0, 0.0))
    o_random, o_rand = np.random.random, np.random.rand
    for n_hist, w in ((10, np.full(10, 0.1)), (3, np.array([0.3, 0.3, 0.4])), (7, np.full(7, 1 / 7)), (49, np.full(49, 1 / 49))):
        for scheme in ("mult", "syst"):
            for draw in (top, 0.0, 0.5):
                st = state(n_hist)
                np.random.random = lambda *a, **k: (np.full(a[0], draw) if a else draw)
                np.random.rand = lambda *a: (np.full(a, draw) if a else draw)
                tried += 1
                try:
                    Resampler(st, 8, scheme, None, False, False).run(w.copy())
                    u = st.get_current("u")
                    err = None if u.shape == (8, 2) else f"{u.shape[0]} particles resampled, expected 8"
                except Exception as e:
                    err = f"{type(e).__name__}: {e}"
                finally:
                    np.random.random, np.random.rand = o_random, o_rand
                if err:
                    print(json.dumps({"reproduced": True, "tried": tried, "detail": f"Resampler.run({scheme!r}) with weights summing to {w.sum()!r} "
                                      f"(cumsum ends at {np.cumsum(w)[-1]!r}) and uniform draw {draw!r}: {err}",
                                      "input": {"weights": w.tolist(), "scheme": scheme, "draw": draw}}))
                    return
    print(json.dumps({"reproduced": False, "tried": tried, "detail": "no failing input"}))


main()
