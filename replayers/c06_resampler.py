"""Native contract for Resampler.run: exactly n_particles valid history indices for weight vectors that are normalised only up to
rounding (cumulative sum ending just below 1) and for every value the uniform primitives can return (incl. the largest double < 1)."""
import json, sys, warnings
import numpy as np
from tempest.state_manager import StateManager
from tempest.steps.resample import Resampler

warnings.simplefilter("ignore")


def state(n_hist, d=2):
    st = StateManager(d)
    u = np.random.RandomState(0).uniform(0, 1, (n_hist, d))
    st.set_current("u", u); st.set_current("x", u * 2); st.set_current("logl", -u.sum(axis=1))
    st.set_current("beta", 0.5); st.set_current("logz", 0.0); st.set_current("iter", 1); st.set_current("calls", 0)
    st.commit_current_to_history()
    st.set_current("beta", 0.5)
    return st


def main():
    p = json.load(open(sys.argv[1]))
    tried = 0
    top = float(np.nextafter(1.0, 0.0))
    o_random, o_rand = np.random.random, np.random.rand
    o_rs, o_uni = np.random.random_sample, np.random.uniform
    for n_hist, w in ((10, np.full(10, 0.1)), (3, np.array([0.3, 0.3, 0.4])), (7, np.full(7, 1 / 7)), (49, np.full(49, 1 / 49))):
        for scheme in ("mult", "syst"):
            for draw in (top, 0.0, 0.5):
                st = state(n_hist)
                np.random.random = lambda *a, **k: (np.full(a[0], draw) if a else draw)
                np.random.rand = lambda *a: (np.full(a, draw) if a else draw)
                np.random.random_sample = lambda size=None: (np.full(size, draw) if size is not None else draw)
                np.random.uniform = lambda low=0.0, high=1.0, size=None: (np.full(size, low + (high - low) * draw) if size is not None else low + (high - low) * draw)
                tried += 1
                try:
                    Resampler(st, 8, scheme, None, False, False).run(w.copy())
                    u = st.get_current("u")
                    err = None if u.shape == (8, 2) else f"{u.shape[0]} particles resampled, expected 8"
                except Exception as e:
                    err = f"{type(e).__name__}: {e}"
                finally:
                    np.random.random, np.random.rand = o_random, o_rand
                    np.random.random_sample, np.random.uniform = o_rs, o_uni
                if err:
                    print(json.dumps({"reproduced": True, "tried": tried, "detail": f"Resampler.run({scheme!r}) with weights summing to {w.sum()!r} "
                                      f"(cumsum ends at {np.cumsum(w)[-1]!r}) and uniform draw {draw!r}: {err}",
                                      "input": {"weights": w.tolist(), "scheme": scheme, "draw": draw}}))
                    return
    # the weight vector is the caller's: read-only vectors (memmap, broadcast, frozen) are accepted and no vector is modified in place
    from tempest.tools import systematic_resample as _sr
    for base in (np.array([0.3, 0.3, 0.4]) * (1 - 3e-9), np.full(7, 1 / 7) * (1 + 2e-9), np.array([0.5, 0.25, 0.25])):
        for how in ("setflags", "broadcast"):
            w = np.array(base, copy=True)
            if how == "broadcast":
                w = np.broadcast_to(np.array([1.0 / 6 * float(base.sum())]), (6,))
            else:
                w.setflags(write=False)
            keep = np.array(w, copy=True)
            tried += 1
            for scheme in ("syst", "mult"):
                st = state(len(w))
                try:
                    np.random.seed(3)
                    Resampler(st, 5, scheme, None, False, False).run(w)
                    if scheme == "syst":
                        _sr(5, w)
                    err = None if len(st.get_current("u")) == 5 else "wrong number of particles"
                except Exception as e:
                    err = f"{type(e).__name__}: {e}"
                if err is None and not np.array_equal(np.asarray(w), keep):
                    err = "the caller's weight vector was modified in place"
                if err:
                    print(json.dumps({"reproduced": True, "tried": tried, "detail": f"{scheme} resampling with a read-only weight vector ({how}, sum {float(keep.sum())!r}): {err}",
                                      "input": {"scheme": scheme, "weights": keep.tolist(), "read_only": how}}))
                    return
    wv = np.array([0.2, 0.5, 0.3]) * (1 + 4e-9)
    keepv = wv.copy()
    _sr(4, wv)
    if not np.array_equal(wv, keepv):
        print(json.dumps({"reproduced": True, "tried": tried, "detail": "systematic_resample rescaled the caller's (writable) weight vector in place", "input": {"weights": keepv.tolist()}}))
        return
    # ragged history (iterations that stored different numbers of particles, e.g. after a resume with another n_particles): the
    # particles stored by Resampler.run must be the history particles at the drawn flat indices, copy counts floor/ceil
    for scheme in ("syst", "mult"):
        st = StateManager(2)
        r5 = np.random.RandomState(4)
        sizes = (5, 9, 3, 7)
        for t, m in enumerate(sizes):
            uu = r5.uniform(0, 1, (m, 2))
            st.update_current({"u": uu, "x": uu * 2, "logl": -uu.sum(axis=1), "beta": 0.1 * t, "logz": 0.0, "iter": t, "calls": 0,
                               "assignments": np.zeros(m, dtype=int)})
            st.commit_current_to_history()
        st.set_current("beta", 0.4)
        uh = np.concatenate([np.asarray(a) for a in st._history["u"]])
        N = len(uh)
        w = r5.dirichlet(np.ones(N))
        w[-3:] = 0.0
        w = w / w.sum()
        for u0 in (0.13, 0.5, 0.87):
            np.random.random = lambda *a, **k: (np.full(a[0], u0) if a else u0)
            np.random.rand = lambda *a: (np.full(a, u0) if a else u0)
            st_rng = np.random.get_state()
            np.random.seed(17)
            tried += 1
            err = None
            try:
                Resampler(st, 12, scheme, None, False, False).run(w.copy())
                u, x, ll_ = st.get_current("u"), st.get_current("x"), st.get_current("logl")
                if len(u) != 12:
                    err = f"{len(u)} particles stored, expected 12"
                else:
                    idx = np.array([int(np.argmin(np.abs(uh - row).sum(axis=1))) for row in u])
                    if not (np.allclose(u, uh[idx]) and np.allclose(x, 2 * uh[idx]) and np.allclose(ll_, -uh[idx].sum(axis=1))):
                        err = "the stored particles are not whole history particles"
                    elif (w[idx] == 0).any():
                        err = f"history particle {int(idx[np.argmax(w[idx] == 0)])} has weight 0 and was resampled"
                    elif scheme == "syst":
                        copies = np.bincount(idx, minlength=N)
                        bad = np.where((copies < np.floor(12 * w - 1e-9)) | (copies > np.ceil(12 * w + 1e-9)))[0]
                        if len(bad):
                            err = f"{int(copies[bad[0]])} copies of history particle {int(bad[0])}, n*w = {float(12 * w[bad[0]]):.4f}"
            except Exception as e:
                err = f"{type(e).__name__}: {e}"
            finally:
                np.random.random, np.random.rand = o_random, o_rand
                np.random.set_state(st_rng)
            if err:
                print(json.dumps({"reproduced": True, "tried": tried, "detail": f"Resampler.run({scheme!r}) on a history with batch sizes {sizes}: {err}",
                                  "input": {"batch_sizes": list(sizes), "scheme": scheme, "u0": u0}}))
                return
    # long pools (more than 2**16 stored particles, reached after many iterations) with the extreme offsets, weights whose running sum
    # ends below / above 1 by rounding: every drawn index is a valid index, n particles are stored
    r6 = np.random.RandomState(8)
    for N, n in ((70001, 64), (131072, 1000), (66000, 66000)):
        st0 = state(N)
        uh = st0.get_history("u", flat=True)
        for k in range(3):
            w = r6.dirichlet(np.ones(N)) if k < 2 else np.full(N, 1.0 / N)
            for scheme in ("syst", "mult"):
                for u0 in (top, 1 - 1e-12, 0.0):
                    st = StateManager.from_dict(st0.to_dict())
                    st.set_current("beta", 0.5)
                    np.random.random = lambda *a, **kk: (np.full(a[0], u0) if a else u0)
                    np.random.rand = lambda *a: (np.full(a, u0) if a else u0)
                    tried += 1
                    try:
                        Resampler(st, n, scheme, None, False, False).run(w.copy())
                        u = st.get_current("u")
                        err = None if len(u) == n else f"{len(u)} particles stored, expected {n}"
                    except Exception as e:
                        err = f"{type(e).__name__}: {e}"
                    finally:
                        np.random.random, np.random.rand = o_random, o_rand
                    if err:
                        print(json.dumps({"reproduced": True, "tried": tried, "detail": f"Resampler.run({scheme!r}) on a pool of {N} particles (cumsum ends at "
                                          f"{np.cumsum(w)[-1]!r}), uniform draw {u0!r}: {err}", "input": {"pool": N, "n": n, "scheme": scheme, "u0": u0, "weights_seed": 8, "k": k}}))
                        return
    # one Resampler / StateManager pair whose history is replaced (update_from_dict) by another history of the same layout and at
    # least as many iterations: the particles stored by the next run() are particles of the history stored now
    for scheme in ("syst", "mult"):
        for n_a, n_b in ((3, 3), (3, 5)):
            r7 = np.random.RandomState(12)
            def hist(T, off):
                st = StateManager(2)
                for t in range(T):
                    uu = r7.uniform(0, 1, (6, 2))
                    st.update_current({"u": uu, "x": uu * 2 + off, "logl": -uu.sum(axis=1) - off, "beta": 0.1 * t, "logz": 0.0, "iter": t, "calls": 0,
                                       "assignments": np.zeros(6, dtype=int)})
                    st.commit_current_to_history()
                st.set_current("beta", 0.1 * T)
                return st
            st, other = hist(n_a, 0.0), hist(n_b, 100.0)
            rs = Resampler(st, 6, scheme, None, False, False)
            tried += 1
            err = None
            try:
                rs.run(np.full(6 * n_a, 1.0 / (6 * n_a)))
                st.update_from_dict(other.to_dict())
                w = r7.dirichlet(np.ones(6 * n_b))
                rs.run(w.copy())
                u, x, ll_ = st.get_current("u"), st.get_current("x"), st.get_current("logl")
                uh = np.concatenate([np.asarray(a) for a in other._history["u"]])
                idx = np.array([int(np.argmin(np.abs(uh - row).sum(axis=1))) for row in u])
                if len(u) != 6 or not (np.allclose(u, uh[idx]) and np.allclose(x, 2 * uh[idx] + 100.0) and np.allclose(ll_, -uh[idx].sum(axis=1) - 100.0)):
                    err = "the particles stored by run() are not particles of the history stored now (rows of the replaced history survive)"
            except Exception as e:
                err = f"{type(e).__name__}: {e}"
            if err:
                print(json.dumps({"reproduced": True, "tried": tried, "detail": f"Resampler.run({scheme!r}) after the state's history was replaced through update_from_dict "
                                  f"({n_a} -> {n_b} iterations of 6 particles): {err}", "input": {"scheme": scheme, "iterations": [n_a, n_b]}}))
                return
    # exactly equal weights over a pool of several generations (a flat likelihood): still unbiased - E[copies of particle i] = n / N for
    # every particle of every generation (systematic: exact over the offset partition; multinomial: 400 seeded draws, 6 sigma)
    for scheme in ("syst", "mult"):
        st0 = StateManager(2)
        r8 = np.random.RandomState(18)
        gens, m = 3, 8
        for t in range(gens):
            uu = r8.uniform(0, 1, (m, 2))
            st0.update_current({"u": uu, "x": uu * 2, "logl": np.zeros(m), "beta": 0.2 * t, "logz": 0.0, "iter": t, "calls": 0, "assignments": np.zeros(m, dtype=int)})
            st0.commit_current_to_history()
        uh = np.concatenate([np.asarray(a) for a in st0._history["u"]])
        N = gens * m
        w = np.full(N, 1.0 / N)
        counts = np.zeros(N)
        reps = 0
        offsets = [(k + 0.5) / 48.0 for k in range(48)] if scheme == "syst" else list(range(400))
        for o in offsets:
            st = StateManager.from_dict(st0.to_dict())
            st.set_current("beta", 0.5)
            if scheme == "syst":
                np.random.random = lambda *a, **k: (np.full(a[0], o) if a else o)
                np.random.rand = lambda *a: (np.full(a, o) if a else o)
                np.random.random_sample = lambda size=None: (np.full(size, o) if size is not None else o)
                np.random.uniform = lambda low=0.0, high=1.0, size=None: (np.full(size, low + (high - low) * o) if size is not None else low + (high - low) * o)
            else:
                np.random.seed(1000 + o)
            try:
                Resampler(st, m, scheme, None, False, False).run(w.copy())
                u = st.get_current("u")
            except Exception as e:
                print(json.dumps({"reproduced": True, "tried": tried, "detail": f"Resampler.run({scheme!r}) with exactly uniform weights raised {type(e).__name__}: {e}", "input": {"scheme": scheme}}))
                return
            finally:
                np.random.random, np.random.rand = o_random, o_rand
                np.random.random_sample, np.random.uniform = o_rs, o_uni
            idx = np.array([int(np.argmin(np.abs(uh - row).sum(axis=1))) for row in u])
            counts += np.bincount(idx, minlength=N)
            reps += 1
        tried += 1
        mean = counts / reps
        tol = 1e-9 if scheme == "syst" else 6 * np.sqrt((m / N) * (1 - 1.0 / N) / reps)
        if np.abs(mean - m / N).max() > tol:
            i = int(np.argmax(np.abs(mean - m / N)))
            print(json.dumps({"reproduced": True, "tried": tried, "detail": f"Resampler.run({scheme!r}) with exactly equal weights over {gens} generations of {m} particles is biased: "
                              f"E[copies of particle {i} (generation {i // m})] = {mean[i]:.4f}, n*w_i = {m / N:.4f}", "input": {"scheme": scheme, "generations": gens, "m": m}}))
            return
    # posterior(resample=True) at the extreme offsets (history whose normalised weights have a cumulative sum ending below 1)
    import tempest, tempfile, os, shutil
    tmpd = tempfile.mkdtemp(prefix="c06_")
    cwd = os.getcwd()
    os.chdir(tmpd)
    try:
      for rs_, npart in ((4, 24), (5, 16), (6, 40), (7, 24), (8, 32), (9, 16)):     # several histories: whether the cumulative weights end below 1 is a matter of rounding
        s_ = tempest.Sampler(lambda u: 10 * u - 5, lambda x: -0.5 * float(np.sum(x ** 2)), n_dim=2, n_particles=npart, random_state=rs_, output_dir=tmpd)
        s_.run(n_total=4 * npart, progress=False)
        for trim in (True, False):
              for u0 in (top, 0.0, 1 - 8.9e-16, 0.5):
                  np.random.random = lambda *a, **k: (np.full(a[0], u0) if a else u0)
                  np.random.rand = lambda *a: (np.full(a, u0) if a else u0)
                  tried += 1
                  try:
                      out = s_.posterior(resample=True, trim_importance_weights=trim)
                      err = None if len(out[0]) == len(out[1]) == len(out[2]) and len(out[0]) >= 1 else "posterior(resample=True) returned arrays of unequal length"
                  except Exception as e:
                      err = f"posterior(resample=True, trim={trim}) raised {type(e).__name__}: {e}"
                  finally:
                      np.random.random, np.random.rand = o_random, o_rand
                  if err:
                      print(json.dumps({"reproduced": True, "tried": tried, "detail": f"{err} (uniform offset {u0!r})", "input": {"trim": trim, "u0": u0}}))
                      return
    finally:
        os.chdir(cwd)
        shutil.rmtree(tmpd, ignore_errors=True)
    # systematic scheme at the Resampler level: floor/ceil copies for every piece of the offset, and E[copies] = n * w_i exactly
    # (the behaviour in u0 is piecewise constant: breakpoints u0 = n * c_k - i; every open piece is probed at its midpoint and
    # weighted by its length).  Includes pools of exactly n particles with weights equal only up to 1e-5 relative.
    rng = np.random.RandomState(3)
    pools = []
    for n in (8, 16):
        base = np.full(n, 1.0 / n)
        pools.append((n, base * (1 + 8e-6 * np.where(np.arange(n) % 2 == 0, 1.0, -1.0))))
        pools.append((n, rng.dirichlet(np.ones(n) * 2.0)))
        pools.append((n, rng.dirichlet(np.ones(3 * n))))
    for n, w in pools:
        w = w / w.sum()
        N = len(w)
        c = np.cumsum(w)
        cuts = sorted({float(x) for x in (n * c[:, None] - np.arange(n)[None, :]).ravel() if 0.0 < x < 1.0} | {0.0, 1.0})
        exp_copies = np.zeros(N)
        for lo, hi in zip(cuts[:-1], cuts[1:]):
            if hi - lo < 1e-13:
                continue
            u0 = 0.5 * (lo + hi)
            st = state(N)
            uh = st.get_history("u", flat=True)
            np.random.random = lambda *a, **k: (np.full(a[0], u0) if a else u0)
            np.random.rand = lambda *a: (np.full(a, u0) if a else u0)
            tried += 1
            try:
                Resampler(st, n, "syst", None, False, False).run(w.copy())
                u = st.get_current("u")
            except Exception as e:
                print(json.dumps({"reproduced": True, "tried": tried, "detail": f"Resampler.run('syst') raised {type(e).__name__}: {e}",
                                  "input": {"weights": w.tolist(), "u0": u0}}))
                return
            finally:
                np.random.random, np.random.rand = o_random, o_rand
            idx = np.array([int(np.argmin(np.abs(uh - row).sum(axis=1))) for row in u])
            copies = np.bincount(idx, minlength=N)
            nw = n * w
            bad = np.where((copies < np.floor(nw - 1e-9)) | (copies > np.ceil(nw + 1e-9)))[0]
            if len(u) != n or len(bad):
                print(json.dumps({"reproduced": True, "tried": tried, "detail": f"Resampler.run('syst'), offset {u0!r}: {int(copies[bad[0]]) if len(bad) else len(u)} copies of "
                                  f"history particle {int(bad[0]) if len(bad) else -1}, n*w = {float(nw[bad[0]]) if len(bad) else n}: not floor/ceil",
                                  "input": {"weights": w.tolist(), "u0": u0}}))
                return
            exp_copies += (hi - lo) * copies
        dev = np.abs(exp_copies - n * w)
        if dev.max() > 1e-7:
            i = int(np.argmax(dev))
            print(json.dumps({"reproduced": True, "tried": tried, "detail": f"Resampler.run('syst') is biased: E[copies of particle {i}] over the offset = {exp_copies[i]!r}, "
                              f"n*w_i = {float(n * w[i])!r} (pool of {N}, n = {n})", "input": {"weights": w.tolist()}}))
            return
    print(json.dumps({"reproduced": False, "tried": tried, "detail": "no failing input"}))


main()
