"""Native runtime contract for C13 (bounded): the same seeded run under every evaluation strategy gives
bit-identical histories/weights/evidence, and `calls` equals the number of points at which the user's
likelihood was evaluated (counted inside the user's function)."""
import json, sys, itertools, hashlib
import numpy as np
from tempest import Sampler


def pt(u):
    return 8 * u - 4


class Counter:
    def __init__(self, blobs, support=False):
        self.n = 0
        self.blobs = blobs
        self.support = support

    def one(self, x):
        self.n += 1
        v = float(-0.5 * np.sum((x - 0.5) ** 2) / 0.49)
        if self.support and x[0] < -2.0:
            v = -np.inf
        return (v, float(np.sum(x))) if self.blobs else v

    def vec_ro(self, X):
        out = self.vec(X)
        out.setflags(write=False)
        return out

    def vec(self, X):
        self.n += len(X)
        out = -0.5 * np.sum((X - 0.5) ** 2, axis=1) / 0.49
        if self.support:
            out = out.copy()
            out[X[:, 0] < -2.0] = -np.inf
        return out


def shifted_like(x, shift=0.0):
    return float(-0.5 * np.sum((x - 0.5 - shift) ** 2) / 0.49)


class ShuffledPool:
    """Pool-like object whose workers finish in reverse order but which returns results in input order."""
    def map(self, f, xs):
        xs = list(xs)
        done = {}
        for i in reversed(range(len(xs))):
            done[i] = f(xs[i])
        return [done[i] for i in range(len(xs))]


def digest(s):
    h = hashlib.sha256()
    for k in ("u", "x", "logl", "beta", "logz", "calls", "iter"):
        for a in s.state._history[k]:
            h.update(np.ascontiguousarray(a).tobytes())
    h.update(np.asarray(s.evidence()[0]).tobytes())
    h.update(np.ascontiguousarray(s.posterior()[1]).tobytes())
    return h.hexdigest()


def run(strategy, kernel, blobs, support, seed=5):
    c = Counter(blobs, support)
    kw = dict(n_dim=2, n_particles=32, random_state=seed, sample=kernel)
    if blobs:
        kw["blobs_dtype"] = "float"
    if strategy == "vectorize":
        s = Sampler(pt, c.vec, vectorize=True, **kw)
    elif strategy == "vectorize-readonly":
        s = Sampler(pt, c.vec_ro, vectorize=True, **kw)
    elif strategy == "serial":
        s = Sampler(pt, c.one, **kw)
    elif strategy == "pool=1":
        s = Sampler(pt, c.one, pool=1, **kw)
    elif strategy == "pool-like":
        s = Sampler(pt, c.one, pool=ShuffledPool(), **kw)
    s.run(n_total=96, progress=False)
    return digest(s), int(s.state.get_current("calls")), c.n, s


def main():
    tried = 0
    for kernel, blobs, support in itertools.product(("tpcn", "rwm"), (False, True), (False, True)):
        ref = None
        strategies = ["serial", "pool=1", "pool-like"] + ([] if blobs else ["vectorize"]) + ([] if (blobs or support) else ["vectorize-readonly"])
        for st in strategies:
            tried += 1
            try:
                d, calls, actual, s = run(st, kernel, blobs, support)
            except Exception as e:
                print(json.dumps({"reproduced": True, "detail": f"{st}/{kernel}/blobs={blobs}: {type(e).__name__}: {e}",
                                  "input": {"strategy": st, "kernel": kernel, "blobs": blobs, "support": support}}))
                return
            if calls != actual:
                print(json.dumps({"reproduced": True, "detail": f"{st}/{kernel}/blobs={blobs}: reported calls={calls} but the likelihood was evaluated at {actual} points",
                                  "input": {"strategy": st, "kernel": kernel, "blobs": blobs, "support": support}}))
                return
            if ref is None:
                ref = (st, d)
            elif d != ref[1]:
                print(json.dumps({"reproduced": True, "detail": f"kernel={kernel} blobs={blobs} support={support}: strategy {st} and {ref[0]} give different histories/weights/evidence for the same seed",
                                  "input": {"strategy": st, "kernel": kernel, "blobs": blobs, "support": support}}))
                return
    # a posterior piled against a prior corner, few particles in many dimensions (sweeps in which every proposal leaves the cube):
    # calls still equals the number of points the likelihood was evaluated at, in every strategy
    for n_dim, n_part, kernel in ((8, 4, "rwm"), (8, 4, "tpcn"), (10, 6, "rwm")):
        for st in ("serial", "vectorize", "pool-like"):
            tried += 1
            cnt = {"n": 0}

            def one(x, cnt=cnt):
                cnt["n"] += 1
                return float(-np.sum(x + 4.0) / 0.05)

            def vec(X, cnt=cnt):
                cnt["n"] += len(X)
                return -np.sum(X + 4.0, axis=1) / 0.05
            kw = dict(n_dim=n_dim, n_particles=n_part, random_state=7, sample=kernel, clustering=False)
            try:
                s = Sampler(pt, vec, vectorize=True, **kw) if st == "vectorize" else Sampler(pt, one, **(dict(kw, pool=ShuffledPool()) if st == "pool-like" else kw))
                s.run(n_total=4 * n_part, progress=False)
            except Exception as e:
                print(json.dumps({"reproduced": True, "detail": f"corner posterior, {st}, n_dim={n_dim}, n_particles={n_part}: {type(e).__name__}: {e}", "input": {"strategy": st, "n_dim": n_dim, "n_particles": n_part}}))
                return
            if int(s.state.get_current("calls")) != cnt["n"]:
                print(json.dumps({"reproduced": True, "detail": f"corner posterior ({kernel}, n_dim={n_dim}, n_particles={n_part}, {st}): reported calls={int(s.state.get_current('calls'))} but the likelihood "
                                  f"was evaluated at {cnt['n']} points", "input": {"strategy": st, "n_dim": n_dim, "n_particles": n_part, "kernel": kernel}}))
                return
    # more than 1024 particles, counts that are not a multiple of any chunk size: vectorised == serial, calls exact
    for n_part, kernel in ((1025, "tpcn"), (1027, "rwm")):
        ref = None
        for st in ("serial", "vectorize"):
            tried += 1
            c = Counter(False, False)
            kw = dict(n_dim=2, n_particles=n_part, random_state=5, sample=kernel, clustering=False)
            s = Sampler(pt, c.vec, vectorize=True, **kw) if st == "vectorize" else Sampler(pt, c.one, **kw)
            try:
                s.run(n_total=2 * n_part, progress=False)
            except Exception as e:
                print(json.dumps({"reproduced": True, "detail": f"{st}, n_particles={n_part}: {type(e).__name__}: {e}", "input": {"strategy": st, "n_particles": n_part}}))
                return
            if int(s.state.get_current("calls")) != c.n:
                print(json.dumps({"reproduced": True, "detail": f"{st}, n_particles={n_part}: reported calls={int(s.state.get_current('calls'))} but the likelihood was evaluated at {c.n} points",
                                  "input": {"strategy": st, "n_particles": n_part, "kernel": kernel}}))
                return
            X, L = s.state.get_history("x", flat=True), s.state.get_history("logl", flat=True)
            if not np.array_equal(-0.5 * np.sum((X - 0.5) ** 2, axis=1) / 0.49, L) and not np.allclose(-0.5 * np.sum((X - 0.5) ** 2, axis=1) / 0.49, L, rtol=1e-13, atol=0):
                print(json.dumps({"reproduced": True, "detail": f"{st}, n_particles={n_part}: {int(np.sum(~np.isclose(-0.5 * np.sum((X - 0.5) ** 2, axis=1) / 0.49, L, rtol=1e-13)))} stored "
                                  f"log-likelihoods are not the likelihood at the stored points", "input": {"strategy": st, "n_particles": n_part, "kernel": kernel}}))
                return
            d = digest(s)
            if ref is None:
                ref = d
            elif d != ref:
                print(json.dumps({"reproduced": True, "detail": f"n_particles={n_part}, kernel={kernel}: vectorised and serial evaluation give different histories/weights/evidence for the same seed",
                                  "input": {"strategy": st, "n_particles": n_part, "kernel": kernel}}))
                return
    # several samplers in one process sharing the likelihood function and the pool size but not its extra arguments: each pooled run
    # equals its own serial run
    for mode in ("args", "kwargs"):
        digs = {}
        for st, shift in itertools.product(("serial", "pool=2"), (0.0, 1.5)):
            tried += 1
            kw = dict(n_dim=2, n_particles=32, random_state=5)
            kw.update(dict(log_likelihood_args=(shift,)) if mode == "args" else dict(log_likelihood_kwargs=dict(shift=shift)))
            if st != "serial":
                kw["pool"] = 2
            try:
                s = Sampler(pt, shifted_like, **kw)
                s.run(n_total=96, progress=False)
            except Exception as e:
                print(json.dumps({"reproduced": True, "detail": f"{st} with log_likelihood_{mode}: {type(e).__name__}: {e}", "input": {"strategy": st, "mode": mode}}))
                return
            X, L = s.state.get_history("x", flat=True), s.state.get_history("logl", flat=True)
            if not np.array_equal(np.array([shifted_like(x, shift) for x in X]), L):
                print(json.dumps({"reproduced": True, "detail": f"{st}, second sampler of the process with log_likelihood_{mode} shift={shift}: stored log-likelihoods are not "
                                  f"f(x, {shift}) at the stored points (the workers evaluated another sampler's likelihood)", "input": {"strategy": st, "mode": mode, "shift": shift}}))
                return
            digs[(st, shift)] = digest(s)
        for shift in (0.0, 1.5):
            if digs[("serial", shift)] != digs[("pool=2", shift)]:
                print(json.dumps({"reproduced": True, "detail": f"log_likelihood_{mode} shift={shift}: the pool=2 run differs from the serial run of the same seed",
                                  "input": {"mode": mode, "shift": shift}}))
                return
    # calls stay exact across a checkpoint / resume (the resumed sampler's own counter counts the evaluations made after the restore)
    import tempfile, os, shutil
    tmp = tempfile.mkdtemp(prefix="c13_")
    cwd = os.getcwd()
    os.chdir(tmp)
    try:
        for st in ("serial", "pool=1", "vectorize"):
            tried += 1
            c1 = Counter(False)
            kw = dict(n_dim=2, n_particles=24, random_state=5, output_dir=os.path.join(tmp, st))
            mk = lambda c: (Sampler(pt, c.vec, vectorize=True, **kw) if st == "vectorize" else Sampler(pt, c.one, **(dict(kw, pool=1) if st == "pool=1" else kw)))
            s1 = mk(c1)
            s1.run(n_total=72, progress=False, save_every=2)
            cks = sorted((f for f in os.listdir(kw["output_dir"]) if f.endswith(".state") and "final" not in f), key=lambda f: int(f.split("_")[1].split(".")[0]))
            if not cks:
                continue
            mid = os.path.join(kw["output_dir"], cks[len(cks) // 2])
            c2 = Counter(False)
            s2 = mk(c2)
            s2.load_state(mid)
            before = int(s2.state.get_current("calls"))
            n_before = c2.n
            s2.run(n_total=72, progress=False, resume_state_path=mid)
            after = int(s2.state.get_current("calls"))
            if after - before != c2.n - n_before and after - before != c2.n:
                print(json.dumps({"reproduced": True, "detail": f"{st}: after resuming from {os.path.basename(mid)} `calls` grew by {after - before} while the likelihood was evaluated at {c2.n} points",
                                  "input": {"strategy": st, "probe": "resume"}}))
                return
        # the default number of particles is a function of n_dim only: every evaluation strategy runs the same problem
        sizes = {}
        for name, kw2 in (("serial", {}), ("pool=1", dict(pool=1)), ("pool=2", dict(pool=2)), ("pool=4", dict(pool=4)), ("pool=5", dict(pool=5)),
                          ("pool-like", dict(pool=ShuffledPool()))):
            tried += 1
            try:
                sizes[name] = int(Sampler(pt, Counter(False).one, n_dim=3, random_state=1, output_dir=os.path.join(tmp, "d"), **kw2)._core.config.n_particles)
            except Exception as e:
                print(json.dumps({"reproduced": True, "detail": f"construction with {name} raised {type(e).__name__}: {e}", "input": {"strategy": name}}))
                return
        if len(set(sizes.values())) != 1:
            print(json.dumps({"reproduced": True, "detail": f"default n_particles depends on the evaluation strategy: {sizes} (n_dim=3): the strategies no longer run the same problem",
                              "input": {"probe": "default-n_particles"}}))
            return
    finally:
        os.chdir(cwd)
        shutil.rmtree(tmp, ignore_errors=True)
    print(json.dumps({"reproduced": False, "tried": tried, "detail": "all strategies bit-identical; calls exact"}))


main()
