"""Native runtime contract for C13 (bounded): the same seeded run under every evaluation strategy gives
bit-identical histories/weights/evidence, and `calls` equals the number of points at which the user's
likelihood was evaluated (counted inside the user's function)."""
import json, sys, itertools, hashlib
import numpy as np
from tempest import Sampler


def pt(u):
    return 8 * u - 4


class Counter:
    def __init__(self, blobs, support=False):
        self.n = 0
        self.blobs = blobs
        self.support = support

    def one(self, x):
        self.n += 1
        v = float(-0.5 * np.sum((x - 0.5) ** 2) / 0.49)
        if self.support and x[0] < -2.0:
            v = -np.inf
        return (v, float(np.sum(x))) if self.blobs else v

    def vec(self, X):
        self.n += len(X)
        out = -0.5 * np.sum((X - 0.5) ** 2, axis=1) / 0.49
        if self.support:
            out = out.copy()
            out[X[:, 0] < -2.0] = -np.inf
        return out


class ShuffledPool:
    """Pool-like object whose workers finish in reverse order but which returns results in input order."""
    def map(self, f, xs):
        xs = list(xs)
        done = {}
        for i in reversed(range(len(xs))):
            done[i] = f(xs[i])
        return [done[i] for i in range(len(xs))]


def digest(s):
    h = hashlib.sha256()
    for k in ("u", "x", "logl", "beta", "logz", "calls", "iter"):
        for a in s.state._history[k]:
            h.update(np.ascontiguousarray(a).tobytes())
    h.update(np.asarray(s.evidence()[0]).tobytes())
    h.update(np.ascontiguousarray(s.posterior()[1]).tobytes())
    return h.hexdigest()


def run(strategy, kernel, blobs, support, seed=5):
    c = Counter(blobs, support)
    kw = dict(n_dim=2, n_particles=32, random_state=seed, sample=kernel)
    if blobs:
        kw["blobs_dtype"] = "float"
    if strategy == "vectorize":
        s = Sampler(pt, c.vec, vectorize=True, **kw)
    elif strategy == "serial":
        s = Sampler(pt, c.one, **kw)
    elif strategy == "pool=1":
        s = Sampler(pt, c.one, pool=1, **kw)
    elif strategy == "pool-like":
        s = Sampler(pt, c.one, pool=ShuffledPool(), **kw)
    s.run(n_total=96, progress=False)
    return digest(s), int(s.state.get_current("calls")), c.n, s


def main():
    tried = 0
    for kernel, blobs, support in itertools.product(("tpcn", "rwm"), (False, True), (False, True)):
        ref = None
        strategies = ["serial", "pool=1", "pool-like"] + ([] if blobs else ["vectorize"])
        for st in strategies:
            tried += 1
            try:
                d, calls, actual, s = run(st, kernel, blobs, support)
            except Exception as e:
                print(json.dumps({"reproduced": True, "detail": f"{st}/{kernel}/blobs={blobs}: {type(e).__name__}: {e}",
                                  "input": {"strategy": st, "kernel": kernel, "blobs": blobs, "support": support}}))
                return
            if calls != actual:
                print(json.dumps({"reproduced": True, "detail": f"{st}/{kernel}/blobs={blobs}: reported calls={calls} but the likelihood was evaluated at {actual} points",
                                  "input": {"strategy": st, "kernel": kernel, "blobs": blobs, "support": support}}))
                return
            if ref is None:
                ref = (st, d)
            elif d != ref[1]:
                print(json.dumps({"reproduced": True, "detail": f"kernel={kernel} blobs={blobs} support={support}: strategy {st} and {ref[0]} give different histories/weights/evidence for the same seed",
                                  "input": {"strategy": st, "kernel": kernel, "blobs": blobs, "support": support}}))
                return
    print(json.dumps({"reproduced": False, "tried": tried, "detail": "all strategies bit-identical; calls exact"}))


main()
