"""Native contract for C16 on the real tempest.mcmc.apply_boundary_conditions / check_bounds.

Oracle: exact rational arithmetic (fractions.Fraction), independent of pyvc.
  periodic   r must be the correctly rounded value of v - floor(v), inside [0,1]
  reflective s must be within 2^-53 of the exact period-2 triangle wave and inside [0,1]
  idempotent apply(apply(v)) == apply(v) (periodic: 1.0 -> 0.0 allowed)
  frame      non-designated coordinates bit-identical, argument not mutated, 1-d and 2-d
  bounds     check_bounds accepts  <=>  every non-designated coordinate is in [0,1]
Input: {"v": [floats or hex strings], "periodic": [...], "reflective": [...], "ndim2": bool} or none
(bounded directed search over an edge set of doubles: stated in the output).
"""
import json, sys, math, struct, itertools
from fractions import Fraction
import numpy as np
from tempest import mcmc


def tofloat(x):
    if isinstance(x, str):
        return float.fromhex(x) if "x" in x else float(x)
    return float(x)


def tri_exact(v):
    x = Fraction(v)
    f = math.floor(x)
    r = x - f
    return r if f % 2 == 0 else 1 - r


def bits(x):
    return struct.pack("<d", x)


def check_point(vals, periodic, reflective, two_d):
    vals = [float(v) for v in vals]
    d = len(vals)
    u = np.array([vals, vals]) if two_d else np.array(vals)
    keep = u.copy()
    P = None if periodic is None else np.array(periodic, dtype=int)
    R = None if reflective is None else np.array(reflective, dtype=int)
    try:
        out = mcmc.apply_boundary_conditions(u, P, R)
    except Exception as e:
        return f"apply_boundary_conditions raised {type(e).__name__}: {e}"
    if out.shape != u.shape:
        return f"shape changed {u.shape} -> {out.shape}"
    if u.tobytes() != keep.tobytes():
        return "argument array was modified in place"
    rows = out if two_d else out[None, :]
    pset = set(periodic or [])
    rset = set(reflective or [])
    for row in rows:
        for j, v in enumerate(vals):
            o = float(row[j])
            if j in pset:
                want = float(Fraction(v) - math.floor(Fraction(v)))
                if not (0.0 <= o <= 1.0):
                    return f"periodic coordinate {j}: {v!r} ({v.hex()}) -> {o!r} outside [0,1]"
                if o != want and not (want == 1.0 and o == 0.0):   # 0 and 1 are the same point of the circle
                    return f"periodic coordinate {j}: {v!r} ({v.hex()}) -> {o!r}, correctly rounded v-floor(v) is {want!r}"
            elif j in rset:
                if not (0.0 <= o <= 1.0):
                    return f"reflective coordinate {j}: {v!r} ({v.hex()}) -> {o!r} outside [0,1]"
                if abs(Fraction(o) - tri_exact(v)) > Fraction(1, 2 ** 53):
                    return f"reflective coordinate {j}: {v!r} ({v.hex()}) -> {o!r}, exact triangle fold is {float(tri_exact(v))!r}"
                if 0.0 <= v <= 1.0 and o != v:
                    return f"reflective coordinate {j}: point {v!r} already in [0,1] moved to {o!r}"
            else:
                if bits(o) != bits(v):
                    return f"non-designated coordinate {j}: {v!r} changed to {o!r}"
    try:
        out2 = mcmc.apply_boundary_conditions(out, P, R)
    except Exception as e:
        return f"second application raised {type(e).__name__}: {e}"
    for a, b, j in zip(out.ravel(), out2.ravel(), itertools.cycle(range(d))):
        if a != b and not (j in pset and a == 1.0 and b == 0.0):
            return f"not idempotent at coordinate {j}: {float(a)!r} -> {float(b)!r} (input {vals[j]!r})"
    # bounds check
    for arr in (u, out):
        try:
            ok = mcmc.check_bounds(arr, P, R)
        except Exception as e:
            return f"check_bounds raised {type(e).__name__}: {e}"
        rws = arr if two_d else arr[None, :]
        oks = np.atleast_1d(ok)
        if two_d and np.shape(ok) != (arr.shape[0],):
            return f"check_bounds returned shape {np.shape(ok)} for a {arr.shape} array"
        if not two_d and np.shape(ok) != ():
            return f"check_bounds returned shape {np.shape(ok)} for a 1-d point"
        for row, got in zip(rws, oks):
            want = all(0.0 <= float(row[j]) <= 1.0 for j in range(d) if j not in pset and j not in rset)
            if bool(got) != want:
                return f"check_bounds({[float(x) for x in row]}, periodic={periodic}, reflective={reflective}) = {bool(got)}, expected {want}"
    return None


EDGE = [0.0, -0.0, 5e-324, -5e-324, 2.2250738585072014e-308, -2.2250738585072014e-308, 1e-300, -1e-300, 1e-20, -1e-20,
        2.0 ** -54, -(2.0 ** -54), 2.0 ** -53, -(2.0 ** -53), 0.25, 0.5, 0.75, float(np.nextafter(1, 0)), 1.0,
        float(np.nextafter(1, 2)), -float(np.nextafter(1, 0)), -1.0, -float(np.nextafter(1, 2)), 1.5, 2.0, -2.0, 2.5, -2.5, 3.0,
        -3.0, float(np.nextafter(2, 0)), float(np.nextafter(2, 3)), float(np.nextafter(3, 0)), 1e6 + 0.5, -1e6 - 0.25,
        2.0 ** 52 + 0.5, 2.0 ** 52 + 1, -(2.0 ** 52) - 0.5, 2.0 ** 53, 2.0 ** 53 + 2, -(2.0 ** 53) - 2, 2.0 ** 62, 2.0 ** 63, -(2.0 ** 63),
        2.0 ** 64, 1e19, -1e19, 1e100, -1e100, 1e300, -1e300, 1.7976931348623157e308, -1.7976931348623157e308, 0.1, -0.1, 0.3, -0.7,
        7.3, -7.3, 1e15 + 0.3, 123456789.987654321]


def kernel_level():
    """The maps as the kernels use them.
    (a) What the user configured is what is applied: after constructing a Sampler with periodic=[0], reflective=[1] the caller's
        lists and the lists the kernel receives are unchanged (a periodic coordinate is wrapped, a reflective one folded).
    (b) Runner._propose returns designated coordinates inside [0,1] for *every* raw proposal, including a tiny negative one
        (-1e-300, -1e-17, negative subnormals) with all other coordinates inside the cube: steered through the normal draws."""
    import tempest, warnings
    from tempest import mcmc
    from tempest.modes import ModeStatistics
    warnings.simplefilter("ignore")
    per, ref = [0], [1]
    s = tempest.Sampler(lambda u: u, lambda x: -0.5 * float(np.sum((x - 0.5) ** 2)), n_dim=3, n_particles=12, periodic=per, reflective=ref, random_state=1)
    cfg = s._core.config
    got = dict(caller_periodic=list(per), caller_reflective=list(ref), config_periodic=None if cfg.periodic is None else [int(i) for i in cfg.periodic],
               config_reflective=None if cfg.reflective is None else [int(i) for i in cfg.reflective],
               kernel_periodic=None if s._core.mutator.periodic is None else [int(i) for i in s._core.mutator.periodic],
               kernel_reflective=None if s._core.mutator.reflective is None else [int(i) for i in s._core.mutator.reflective])
    if got["caller_periodic"] != [0] or got["caller_reflective"] != [1] or got["config_periodic"] != [0] or got["config_reflective"] != [1] \
            or got["kernel_periodic"] != [0] or got["kernel_reflective"] != [1]:
        return f"after Sampler(periodic=[0], reflective=[1]) the boundary index sets are {got}: a coordinate is no longer mapped as configured", {"probe": "configured-sets"}
    for kernel, cls in (("rwm", mcmc.RWMRunner), ("tpcn", mcmc.TPCNRunner)):
        d = 2
        ms = ModeStatistics(np.full((1, d), 0.5), 0.04 * np.eye(d)[None], np.array([5.0]))
        for P, R in (([0], None), (None, [0])):
            for target in (-1e-300, -1e-17, -5e-324, -2.0 ** -54, 1.0 + 2.0 ** -52):
                try:
                    r = cls(u=np.array([[0.25, 0.5]]), x=np.array([[0.25, 0.5]]), logl=np.zeros(1), blobs=None, assignments=np.zeros(1, dtype=int), beta=1.0,
                            mode_stats=ms, log_likelihood=lambda x: (np.zeros(len(x)), None), prior_transform=lambda u: u, progress_bar=None, n_steps=1, n_max=1,
                            periodic=P, reflective=R, verbose=False)
                except TypeError:
                    return None, None          # constructor signature changed: this probe does not apply
                r.sigmas[:] = 0.5
                L = ms.chol_covariances[0]
                u0 = r.u[0].copy()
                if kernel == "rwm":
                    z = np.linalg.solve(0.5 * L, np.array([target, 0.5]) - u0)
                    og = None
                else:
                    g = 1.0
                    mu = ms.means[0]
                    want = np.array([target, 0.5]) - (mu + np.sqrt(1 - 0.25) * (u0 - mu))
                    z = np.linalg.solve(0.5 * np.sqrt(1.0 / g) * L, want)
                o_randn, o_gamma = np.random.randn, np.random.gamma
                np.random.randn = lambda *a: z.copy()
                np.random.gamma = lambda *a, **k: 1.0
                try:
                    out = np.asarray(r._propose(0), dtype=float)
                finally:
                    np.random.randn, np.random.gamma = o_randn, o_gamma
                raw0 = (u0 + 0.5 * (L @ z))[0] if kernel == "rwm" else None
                if not (0.0 <= out[0] <= 1.0):
                    return (f"{kernel}._propose with {'periodic' if P else 'reflective'}=[0]: designated coordinate returned as {out[0]!r} "
                            f"(outside [0,1]) for a raw proposal near {target!r}"), {"probe": "propose", "kernel": kernel, "target": target}
    return None, None


def containers_and_repeats():
    """(a) the designated index subset may be any container of indices (list, tuple, range, ndarray, set, frozenset, dict keys): the map
    is the same as for the list; (b) kernels driven with index lists that repeat an entry (lengths adding up to n_dim or more): every
    walker the kernel returns still has its non-designated coordinates inside [0,1]"""
    import warnings
    from tempest import mcmc
    from tempest.modes import ModeStatistics
    warnings.simplefilter("ignore")
    rng = np.random.RandomState(2)
    pts = np.r_[rng.uniform(-3, 4, (40, 3)), [[1.25, -0.5, 0.5], [-1e-17, 2.0, 1.0], [0.0, 1.0, 3.75]]]
    for idx in ([0], [2], [0, 2], [1]):
        forms = [("tuple", tuple(idx)), ("ndarray", np.array(idx)), ("set", set(idx)), ("frozenset", frozenset(idx)), ("dict keys", dict.fromkeys(idx).keys()),
                 ("range", range(idx[0], idx[0] + 1)) if len(idx) == 1 else ("list", list(idx))]
        for which in ("periodic", "reflective"):
            for u in (pts, pts[0]):
                ref = mcmc.apply_boundary_conditions(u.copy(), idx if which == "periodic" else None, idx if which == "reflective" else None)
                for fname, f in forms:
                    try:
                        out = mcmc.apply_boundary_conditions(u.copy(), f if which == "periodic" else None, f if which == "reflective" else None)
                    except Exception:
                        continue                 # a container the function does not accept is rejected loudly: nothing is mapped wrongly
                    if out.shape != ref.shape or not np.array_equal(out, ref):
                        bad = np.argwhere(np.atleast_2d(out) != np.atleast_2d(ref))[0]
                        return (f"apply_boundary_conditions with {which} = {fname} {sorted(idx)}: coordinate {int(bad[-1])} of {np.atleast_2d(u)[bad[0]].tolist()} is mapped to "
                                f"{float(np.atleast_2d(out)[tuple(bad)])!r}, the same subset given as a list gives {float(np.atleast_2d(ref)[tuple(bad)])!r}"), {"container": fname, "indices": idx, "kind": which}
    # 2-d batches in any memory layout (Fortran order, transposed views, strided slices, read-only): the same map, argument untouched
    for idx in ([0], [0, 2], [1]):
        for which in ("periodic", "reflective"):
            P_, R_ = (idx, None) if which == "periodic" else (None, idx)
            ref = mcmc.apply_boundary_conditions(np.ascontiguousarray(pts), P_, R_)
            big = np.zeros((2 * len(pts), 6))
            big[::2, ::2] = pts
            ro = pts.copy()
            ro.setflags(write=False)
            for lname, arr in (("Fortran-ordered", np.asfortranarray(pts)), ("transposed view", np.ascontiguousarray(pts.T).T), ("strided slice", big[::2, ::2]), ("read-only", ro)):
                keep = np.array(arr, copy=True)
                try:
                    out = mcmc.apply_boundary_conditions(arr, P_, R_)
                except Exception as ex:
                    return f"apply_boundary_conditions on a {lname} batch raised {type(ex).__name__}: {ex}", {"layout": lname, "indices": idx, "kind": which}
                if not np.array_equal(np.asarray(arr), keep):
                    return f"apply_boundary_conditions modified its {lname} argument in place", {"layout": lname, "indices": idx, "kind": which}
                if out.shape != ref.shape or not np.array_equal(out, ref):
                    bad = np.argwhere(out != ref)[0]
                    return (f"apply_boundary_conditions on a {lname} batch with {which}={idx}: coordinate {int(bad[1])} of row {int(bad[0])} comes back as {float(out[tuple(bad)])!r}, "
                            f"the C-ordered copy of the same batch gives {float(ref[tuple(bad)])!r}"), {"layout": lname, "indices": idx, "kind": which}
            for lname, arr in (("Fortran-ordered", np.asfortranarray(pts)), ("transposed view", np.ascontiguousarray(pts.T).T)):
                a, b = mcmc.check_bounds(arr, P_, R_), mcmc.check_bounds(np.ascontiguousarray(pts), P_, R_)
                if np.shape(a) != np.shape(b) or not np.array_equal(a, b):
                    return f"check_bounds on a {lname} batch differs from the C-ordered copy", {"layout": lname, "indices": idx, "kind": which}
    for kernel, cls in (("rwm", mcmc.RWMRunner), ("tpcn", mcmc.TPCNRunner)):
        for d, P, R in ((2, [0, 0], None), (2, None, [1, 1]), (3, [0, 0], [1]), (2, [0], [0]) if False else (3, [2, 2, 2], None)):
            ms = ModeStatistics(np.full((1, d), 0.5), 0.5 * np.eye(d)[None], np.array([5.0]))
            n = 16
            u0 = np.random.RandomState(4).uniform(0.05, 0.95, (n, d))
            try:
                r = cls(u=u0.copy(), x=u0.copy(), logl=np.zeros(n), blobs=None, assignments=np.zeros(n, dtype=int), beta=1.0, mode_stats=ms,
                        log_likelihood=lambda x: (np.zeros(len(np.atleast_2d(x))), None), prior_transform=lambda v: v, progress_bar=None, n_steps=2, n_max=6,
                        periodic=P, reflective=R, verbose=False)
            except (TypeError, ValueError):
                continue
            st = np.random.get_state()
            np.random.seed(5)
            try:
                r.run()
            except Exception as e:
                return f"{kernel} kernel with periodic={P}, reflective={R}: run raised {type(e).__name__}: {e}", {"kernel": kernel, "periodic": P, "reflective": R}
            finally:
                np.random.set_state(st)
            got = np.asarray(r.u)
            strict = [j for j in range(d) if j not in set(P or []) | set(R or [])]
            bad = [(k, j) for k in range(n) for j in strict if not (0.0 <= got[k, j] <= 1.0)]
            if bad or np.any(got < 0) or np.any(got > 1):
                k, j = bad[0] if bad else tuple(np.argwhere((got < 0) | (got > 1))[0])
                return (f"{kernel} kernel with periodic={P}, reflective={R} (n_dim={d}): walker {k} was returned with coordinate {j} = {float(got[k, j])!r}, outside [0,1] "
                        f"({'a coordinate with no boundary condition' if (k, j) in bad else 'a designated coordinate'})"), {"kernel": kernel, "periodic": P, "reflective": R, "n_dim": d}
    return None, None


def main():
    p = json.load(open(sys.argv[1]))
    inp = p.get("input") or {}
    tried = 0
    if inp.get("v") is None:
        try:
            e, what = containers_and_repeats()
        except Exception as ex:
            e, what = f"containers_and_repeats: {type(ex).__name__}: {ex}", {"case": "containers_and_repeats"}
        tried += 1
        if e:
            print(json.dumps({"reproduced": True, "detail": e, "tried": tried, "input": what}))
            return
    if inp.get("v") is None:
        try:
            e, what = kernel_level()
        except Exception as ex:
            e, what = None, None
        tried += 1
        if e:
            print(json.dumps({"reproduced": True, "detail": e, "tried": tried, "input": what}))
            return
    if inp.get("v") is not None:
        vals = [tofloat(x) for x in inp["v"]]
        for two_d in ([bool(inp["ndim2"])] if "ndim2" in inp else [False, True]):
            r = check_point(vals, inp.get("periodic"), inp.get("reflective"), two_d)
            tried += 1
            if r:
                print(json.dumps({"reproduced": True, "input": dict(inp, v=[float(v).hex() for v in vals], ndim2=two_d),
                                  "detail": r, "tried": tried}))
                return
    rng = np.random.RandomState(int(p.get("seed", 0)))
    rand = list(rng.standard_cauchy(300)) + list(rng.uniform(-3, 3, 300)) + list(rng.uniform(0, 1, 100)) \
        + [float(k) + e for k in range(-4, 5) for e in (0.0, 1e-16, -1e-16, 2.0 ** -52, -(2.0 ** -52))] \
        + list(np.ldexp(rng.uniform(0.5, 1, 200), rng.randint(-1070, 1023, 200)) * rng.choice([-1, 1], 200))
    for v in EDGE + [float(x) for x in rand]:
        for (P, R) in (([0], None), (None, [0]), ([0], [1]), ([1], [0]), (None, None), ([], []), ([0, 0], None), (None, [1, 1])):
            vals = [v, 0.5] if (P and 1 in P) or (R and 1 in R) or True else [v]
            for perm in (vals, vals[::-1]):
                for two_d in (False, True):
                    tried += 1
                    r = check_point(perm, P, R, two_d)
                    if r:
                        print(json.dumps({"reproduced": True, "detail": r, "tried": tried,
                                          "input": {"v": [float(x).hex() for x in perm], "periodic": P, "reflective": R, "ndim2": two_d},
                                          "note": "found by the bounded directed search (edge set + random doubles)"}))
                        return
    # 3 coordinates, one strict coordinate swept over the edge set
    for v in EDGE:
        for (P, R) in (([0], [2]), ([2], None), (None, [0])):
            for two_d in (False, True):
                tried += 1
                r = check_point([0.25, v, 0.75], P, R, two_d)
                if r:
                    print(json.dumps({"reproduced": True, "detail": r, "tried": tried,
                                      "input": {"v": [0.25.hex(), float(v).hex(), 0.75.hex()], "periodic": P, "reflective": R, "ndim2": two_d}}))
                    return
    print(json.dumps({"reproduced": False, "tried": tried, "detail": "no failing input among the solver model and the directed search"}))


main()
