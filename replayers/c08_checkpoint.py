"""Native runtime contract for C08 (bounded): (1) every checkpoint written during a run restores exactly into a
fresh sampler; (2) resuming continues numbering/calls/schedule, leaves the prefix bit-identical and ends with the run
postconditions (also with a larger n_total); (3) a crash at every write call of a save leaves the final name absent or
still loadable with the previous content; (4) saving works with pool configurations."""
import json, sys, os, shutil, tempfile, io
import numpy as np
import dill
from tempest import Sampler


def pt(u):
    return 8 * u - 4


def ll(x):
    return float(-0.5 * np.sum((x - 0.3) ** 2) / 0.25)


def llb(x):
    return ll(x), float(x[0] * x[1])


class PoolLike:
    def map(self, f, xs):
        return [f(x) for x in xs]


def snap(s):
    return ({k: (v.copy() if isinstance(v, np.ndarray) else v) for k, v in s.state._current.items()},
            {k: [a.copy() if isinstance(a, np.ndarray) else a for a in v] for k, v in s.state._history.items()})


def eq(a, b):
    if isinstance(a, np.ndarray) or isinstance(b, np.ndarray):
        return isinstance(a, np.ndarray) and isinstance(b, np.ndarray) and a.shape == b.shape and np.array_equal(a, b)
    return a == b or (a is None and b is None)


def same(sa, sb, prefix=None):
    ca, ha = sa
    cb, hb = sb
    if prefix is None:
        for k in ca:
            if k == "assignments":
                continue
            if not eq(ca[k], cb[k]):
                return f"current[{k}] differs"
    for k in ha:
        n = len(ha[k]) if prefix is None else min(prefix, len(ha[k]))
        if prefix is None and len(ha[k]) != len(hb[k]):
            return f"history[{k}] has {len(hb[k])} batches, expected {len(ha[k])}"
        for i in range(n):
            if i >= len(hb[k]) or not eq(ha[k][i], hb[k][i]):
                return f"history[{k}][{i}] differs"
    return None


def main():
    tmp = tempfile.mkdtemp(prefix="c08_")
    tried = 0
    try:
        for cfgname, kw in (("default", {}), ("rwm-syst-noclust", dict(sample="rwm", resample="syst", clustering=False)),
                            ("blobs", dict(blobs=True)), ("pool-like", dict(pool=PoolLike())), ("pool=1", dict(pool=1)), ("pool=2", dict(pool=2)),
                            ("cluster_every=3", dict(cluster_every=3)), ("progress-bar-on", dict(progress=True)),
                            ("dotted-label", dict(output_label="chain.1")), ("dotted-label-2", dict(output_label="sigma0.5_seed3", sample="rwm"))):
            tried += 1
            blobs = kw.pop("blobs", False)
            progress = kw.pop("progress", False)
            d = os.path.join(tmp, cfgname)
            mk = lambda out: Sampler(pt, llb if blobs else ll, n_dim=2, n_particles=24, random_state=9, output_dir=out,
                                     blobs_dtype="float" if blobs else None, **kw)
            s = mk(d)
            states = {}
            saves = []
            orig = s._core.save_sampler_state

            def spy(path, orig=orig, s=s, states=states, saves=saves):
                states[str(path)] = snap(s)
                saves.append(str(path))
                return orig(path)
            s._core.save_sampler_state = spy
            try:
                s.run(n_total=96, progress=progress, save_every=1)
            except Exception as e:
                return {"reproduced": True, "detail": f"[{cfgname}] run with save_every=1 raised {type(e).__name__}: {e}", "input": {"config": cfgname}}
            full = snap(s)
            files = sorted(f for f in os.listdir(d) if f.endswith(".state"))
            if not files or any(f.endswith(".temp") for f in os.listdir(d)):
                return {"reproduced": True, "detail": f"[{cfgname}] checkpoint files {os.listdir(d)}", "input": {"config": cfgname}}
            if len(set(saves)) != len(saves) or sorted(os.path.basename(p) for p in saves) != files:
                return {"reproduced": True, "detail": f"[{cfgname}] {len(saves)} checkpoints were written during the run but the output directory holds {files}: "
                        f"checkpoints of different iterations share a file name, so earlier ones no longer restore the state they were written from",
                        "input": {"config": cfgname, "saves": [os.path.basename(p) for p in saves]}}
            for path, st in states.items():
                f = mk(os.path.join(tmp, cfgname + "_l"))
                try:
                    f.load_state(path)
                except BaseException as e:        # incl. RecursionError / pickling errors: the checkpoint is not loadable
                    return {"reproduced": True, "detail": f"[{cfgname}] checkpoint {os.path.basename(path)} cannot be loaded into a fresh sampler: "
                            f"{type(e).__name__}: {str(e)[:200]}", "input": {"config": cfgname, "checkpoint": os.path.basename(path)}}
                r = same(st, snap(f))
                if r:
                    return {"reproduced": True, "detail": f"[{cfgname}] checkpoint {os.path.basename(path)} does not restore the state that existed when it was written: {r}",
                            "input": {"config": cfgname, "checkpoint": os.path.basename(path)}}
            # resume from a middle checkpoint (same and larger n_total)
            mids = [p for p in states if "final" not in p]
            num = lambda p: int(os.path.basename(p).rsplit("_", 1)[1].split(".")[0])
            mid = sorted(mids, key=num)[len(mids) // 2]
            k = num(mid)
            for nt in (96, 300):
                r2 = mk(os.path.join(tmp, cfgname + f"_r{nt}"))
                try:
                    r2.run(n_total=nt, progress=False, resume_state_path=mid)
                except BaseException as e:
                    return {"reproduced": True, "detail": f"[{cfgname}] resuming from {os.path.basename(mid)} raised {type(e).__name__}: {str(e)[:200]}",
                            "input": {"config": cfgname, "checkpoint": os.path.basename(mid)}}
                sn = snap(r2)
                rr = same(states[mid], sn, prefix=len(states[mid][1]["beta"]))
                if rr:
                    return {"reproduced": True, "detail": f"[{cfgname}] resumed run altered the restored history prefix: {rr}", "input": {"config": cfgname}}
                it = sn[1]["iter"]
                if list(it) != list(range(1, len(it) + 1)):
                    return {"reproduced": True, "detail": f"[{cfgname}] iteration numbering after resume: {list(it)}", "input": {"config": cfgname}}
                calls = np.asarray(sn[1]["calls"])
                if np.any(np.diff(calls) <= 0):
                    return {"reproduced": True, "detail": f"[{cfgname}] call counting not continued after resume: {calls.tolist()}", "input": {"config": cfgname}}
                beta = np.asarray(sn[1]["beta"])
                if np.any(np.diff(beta) < 0) or not (1 - r2.state.get_current("beta") < 1e-4):
                    return {"reproduced": True, "detail": f"[{cfgname}] temperature schedule after resume: {beta.tolist()}", "input": {"config": cfgname}}
                lw, _ = r2.state.compute_logw_and_logz(1.0)
                ess = 1 / np.sum(np.exp(lw) ** 2)
                if ess < nt * (1 - 1e-9):
                    return {"reproduced": True, "detail": f"[{cfgname}] resumed run (n_total={nt}) stopped with ESS {ess:.1f}", "input": {"config": cfgname, "n_total": nt}}
                if nt == 96 and cfgname in ("default", "rwm-syst-noclust", "blobs"):
                    rr = same(full, sn)
                    if rr:
                        return {"reproduced": True, "detail": f"[{cfgname}] resumed run does not reproduce the uninterrupted run: {rr}", "input": {"config": cfgname}}
        # crash points: die at the k-th write call while saving over an existing checkpoint
        d = os.path.join(tmp, "crash")
        s = Sampler(pt, ll, n_dim=2, n_particles=24, random_state=1, output_dir=d)
        s.run(n_total=48, progress=False)
        target = os.path.join(d, "ck.state")
        s.save_state(target)
        good = open(target, "rb").read()
        s.sample()
        import builtins
        real_open = builtins.open

        class Dying(io.RawIOBase):
            def __init__(self, f, budget):
                self.f, self.budget = f, budget

            def write(self, b):
                if self.budget[0] <= 0:
                    self.f.flush()
                    raise KeyboardInterrupt("simulated crash")
                self.budget[0] -= 1
                return self.f.write(b)

            def flush(self):
                return self.f.flush()

            def fileno(self):
                return self.f.fileno()

            def close(self):
                return self.f.close()

            def __enter__(self):
                return self

            def __exit__(self, *a):
                self.f.close()
                return False
        for kcrash in (0, 1, 2, 5, 20):
            budget = [kcrash]

            def dying_open(p, mode="r", *a, **kw):
                f = real_open(p, mode, *a, **kw)
                if "w" in mode and str(p).startswith(d):
                    return Dying(f, budget)
                return f
            builtins.open = dying_open
            try:
                try:
                    s.save_state(target)
                    crashed = False
                except KeyboardInterrupt:
                    crashed = True
            finally:
                builtins.open = real_open
            tried += 1
            if os.path.exists(target):
                data = open(target, "rb").read()
                try:
                    dill.loads(data)
                except Exception as e:
                    return {"reproduced": True, "detail": f"crash at write call {kcrash} left an unloadable file under the checkpoint's final name ({type(e).__name__})",
                            "input": {"crash_at_write": kcrash}}
                if crashed and data != good:
                    return {"reproduced": True, "detail": f"crash at write call {kcrash}: final name holds neither the previous nor a complete new checkpoint", "input": {"crash_at_write": kcrash}}
            elif crashed:
                return {"reproduced": True, "detail": f"crash at write call {kcrash} destroyed the previous checkpoint", "input": {"crash_at_write": kcrash}}
        # every instant of a save, observed: at each I/O event of save_state (open, write, sendfile, rename/replace) the file under
        # the final name must be absent, the previous checkpoint, or a complete loadable one - also when the output directory lives on
        # another filesystem than the system temp directory (/dev/shm here, when it is a separate mount)
        import shutil as _sh
        dirs = [os.path.join(tmp, "observe")]
        try:
            if os.path.isdir("/dev/shm") and os.access("/dev/shm", os.W_OK) and os.stat("/dev/shm").st_dev != os.stat(tempfile.gettempdir()).st_dev:
                dirs.append(tempfile.mkdtemp(prefix="c08_obs_", dir="/dev/shm"))
        except OSError:
            pass
        try:
            for od in dirs:
                s2 = Sampler(pt, ll, n_dim=2, n_particles=24, random_state=1, output_dir=od)
                s2.run(n_total=48, progress=False)
                tgt = os.path.join(od, "ck.state")
                s2.save_state(tgt)
                prev = real_open(tgt, "rb").read()
                s2.sample()
                bad = []

                def look(tag, tgt=tgt, prev=prev, bad=bad):
                    if bad or not os.path.exists(tgt):
                        return
                    data = real_open(tgt, "rb").read()
                    if data != prev:
                        try:
                            dill.loads(data)
                        except Exception as e:
                            bad.append((tag, len(data), type(e).__name__))
                r_send, r_write, r_rename, r_repl = getattr(os, "sendfile", None), os.write, os.rename, os.replace

                def w_open(p, mode="r", *a, **kw):
                    f = real_open(p, mode, *a, **kw)
                    look(f"open({os.path.basename(str(p))!r}, {mode!r})")
                    return f

                def w_send(*a, **kw):
                    look("sendfile")
                    return r_send(*a, **kw)

                def w_write(*a, **kw):
                    look("write")
                    return r_write(*a, **kw)

                def w_rename(*a, **kw):
                    look("before rename")
                    return r_rename(*a, **kw)

                def w_repl(*a, **kw):
                    look("before replace")
                    return r_repl(*a, **kw)
                builtins.open, os.write, os.rename, os.replace = w_open, w_write, w_rename, w_repl
                if r_send:
                    os.sendfile = w_send
                try:
                    s2.save_state(tgt)
                finally:
                    builtins.open, os.write, os.rename, os.replace = real_open, r_write, r_rename, r_repl
                    if r_send:
                        os.sendfile = r_send
                tried += 1
                if bad:
                    where = "a filesystem other than the system temp directory's" if od.startswith("/dev/shm") else "the temp filesystem"
                    return {"reproduced": True, "detail": f"while save_state was overwriting an existing checkpoint (output directory on {where}), at I/O event "
                            f"{bad[0][0]} the file under the final name was an incomplete {bad[0][1]}-byte file ({bad[0][2]} on load): a crash at that instant "
                            f"destroys the previous checkpoint", "input": {"output_dir_on": od.split(os.sep)[1:3], "event": bad[0][0]}}
        finally:
            for od in dirs[1:]:
                _sh.rmtree(od, ignore_errors=True)
        # derived outputs after load_state depend on the checkpoint only: a sampler that already served checkpoint k of run A and then loads
        # checkpoint k of run B returns the same posterior() as a fresh sampler loading B_k
        import re as _re
        runs = {}
        for sd in (21, 22):
            dd = os.path.join(tmp, f"eq{sd}")
            sx = Sampler(pt, ll, n_dim=2, n_particles=24, random_state=sd, output_dir=dd)
            sx.run(n_total=96, progress=False, save_every=1)
            runs[sd] = {int(_re.match(r".*_(\d+)\.state$", f).group(1)): os.path.join(dd, f) for f in os.listdir(dd) if _re.match(r".*_(\d+)\.state$", f)}
        reader = Sampler(pt, ll, n_dim=2, n_particles=24, random_state=23, output_dir=os.path.join(tmp, "eqr"))
        for k in sorted(set(runs[21]) & set(runs[22]))[1::2][:3]:
            reader.load_state(runs[21][k])
            reader.posterior()
            reader.load_state(runs[22][k])
            fresh = Sampler(pt, ll, n_dim=2, n_particles=24, random_state=23, output_dir=os.path.join(tmp, "eqf"))
            fresh.load_state(runs[22][k])
            a, b = reader.posterior(trim_importance_weights=False, return_logw=True), fresh.posterior(trim_importance_weights=False, return_logw=True)
            tried += 1
            if any(np.shape(x) != np.shape(y) or not np.array_equal(np.asarray(x), np.asarray(y)) for x, y in zip(a, b)) or not eq(snap(reader)[1]["u"][0], snap(fresh)[1]["u"][0]):
                return {"reproduced": True, "detail": f"a sampler that had served checkpoint {k} of another run returns a different posterior() after load_state(checkpoint {k}) than a "
                        f"freshly constructed sampler loading the same file: the restore depends on what the object held before", "input": {"probe": "reused-reader", "k": k}}
        # saving does not consume process resources: open file descriptors before and after 40 checkpoints
        if os.path.isdir("/proc/self/fd"):
            s3 = Sampler(pt, ll, n_dim=2, n_particles=16, random_state=3, output_dir=os.path.join(tmp, "fds"))
            s3.run(n_total=32, progress=False)
            s3.save_state(os.path.join(tmp, "fds", "w.state"))
            n0 = len(os.listdir("/proc/self/fd"))
            for k in range(40):
                s3.save_state(os.path.join(tmp, "fds", f"k{k % 3}.state"))
            n1 = len(os.listdir("/proc/self/fd"))
            tried += 1
            if n1 > n0 + 2:
                return {"reproduced": True, "detail": f"40 checkpoints left {n1 - n0} more open file descriptors behind ({n0} -> {n1}): after about `ulimit -n` saves the next "
                        f"checkpoint fails with EMFILE", "input": {"probe": "descriptor-leak", "saves": 40}}
        # crash at the instant of the rename: whatever is on disk under the final name right after os.replace returns (data still
        # sitting in a user-space buffer is NOT on disk) must already be the complete new checkpoint
        real_replace = os.replace
        seen = {}

        def replace_then_die(src, dst, *a, **kw):
            real_replace(src, dst, *a, **kw)
            if str(dst) == str(target):
                seen["bytes"] = real_open(dst, "rb").read()
                raise KeyboardInterrupt("simulated crash right after the rename")
        for big in (False, True):
            if big:      # a checkpoint well above the pickle frame size (64 KiB) and every I/O buffer size
                s = Sampler(pt, ll, n_dim=4, n_particles=256, random_state=2, output_dir=os.path.join(tmp, "crash_big"))
                s.run(n_total=1024, progress=False)
                s.save_state(target)
            os.replace = replace_then_die
            seen.clear()
            try:
                try:
                    s.save_state(target)
                except KeyboardInterrupt:
                    pass
            finally:
                os.replace = real_replace
            tried += 1
            if "bytes" in seen:
                try:
                    dill.loads(seen["bytes"])
                except Exception as e:
                    return {"reproduced": True, "detail": f"a crash right after the rename leaves an incomplete file under the checkpoint's final name "
                            f"({len(seen['bytes'])} bytes on disk, {type(e).__name__} on load): the file was renamed before it was flushed",
                            "input": {"crash_at": "after os.replace", "large_checkpoint": big}}
        return {"reproduced": False, "tried": tried, "detail": "checkpoint contract held"}
    finally:
        shutil.rmtree(tmp, ignore_errors=True)


print(json.dumps(main(), default=str))
