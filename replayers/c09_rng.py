"""Native RNG probes for C09 (bounded): (1) same seed => bit-identical histories/evidence, different seeds differ;
(2) after every public library operation the global stream still depends on the seed in force before it;
(3) a resumed run continues the checkpointed stream and reproduces the uninterrupted run."""
import json, sys, os, shutil, tempfile
import numpy as np
from tempest import Sampler
from tempest.cluster import GaussianMixture, HierarchicalGaussianMixture
from tempest import tools


def pt(u):
    return 10 * u - 5


def ll(x):
    return -0.5 * np.sum(x ** 2)


def mk(seed, **kw):
    return Sampler(pt, ll, n_dim=2, n_particles=32, random_state=seed, **kw)


def after(op):
    """next draw of the global stream after `op`, for two different pre-seeds"""
    out = []
    for pre in (111, 222):
        np.random.seed(pre)
        op()
        out.append(np.random.rand())
    return out


def main():
    tmp = tempfile.mkdtemp(prefix="c09_")
    try:
        # (1)
        runs = []
        for seed in (0, 0, 1):
            s = mk(seed, output_dir=tmp)
            s.run(n_total=64, progress=False)
            runs.append((s.state.get_history("u", flat=True), s.evidence()[0], s.posterior()[1]))
        if not (np.array_equal(runs[0][0], runs[1][0]) and runs[0][1] == runs[1][1] and np.array_equal(runs[0][2], runs[1][2])):
            return {"reproduced": True, "detail": "two samplers built with random_state=0 differ", "input": {"probe": "same-seed"}}
        if runs[0][0].shape == runs[2][0].shape and np.array_equal(runs[0][0], runs[2][0]):
            return {"reproduced": True, "detail": "random_state=0 and 1 give identical histories", "input": {"probe": "different-seed"}}
        # (1b) repeated fits and repeated seeded runs inside ONE process: a generator shared between calls (cache, module-level
        # state) makes the second call differ from the first although the inputs are identical.  Data on which the two-component
        # split depends on the starting point (a curved ridge), so a different stream gives a different partition.
        t = np.random.RandomState(8).uniform(-2, 2, 400)
        ridge = np.c_[t, t ** 2] + 0.15 * np.random.RandomState(9).standard_normal((400, 2))
        for name, fit in (("GaussianMixture(3, random_state=42).fit", lambda: GaussianMixture(3, random_state=42).fit(ridge).means_),
                          ("HierarchicalGaussianMixture().fit", lambda: HierarchicalGaussianMixture().fit(ridge).labels_)):
            np.random.seed(123)
            first = np.array(fit(), copy=True)
            for rep in (2, 3):
                np.random.seed(123)
                again = np.array(fit(), copy=True)
                if first.shape != again.shape or not np.array_equal(first, again):
                    return {"reproduced": True, "detail": f"call {rep} of {name} on identical data under an identical global seed differs from call 1: "
                            "the fit depends on state left behind by earlier fits", "input": {"probe": "repeated-fit", "op": name}}

        def ridge_ll(x):
            return -0.5 * ((x[1] - x[0] ** 2) ** 2 / 0.05 + x[0] ** 2 / 4.0)
        hist = []
        for rep in range(3):
            s = Sampler(pt, ridge_ll, n_dim=2, n_particles=48, random_state=7, clustering=True, output_dir=tmp)
            s.run(n_total=96, progress=False)
            hist.append((s.state.get_history("u", flat=True), s.evidence()[0]))
            if rep and not (hist[0][0].shape == hist[rep][0].shape and np.array_equal(hist[0][0], hist[rep][0]) and hist[0][1] == hist[rep][1]):
                return {"reproduced": True, "detail": f"run {rep + 1} with random_state=7 (clustering on) in the same process differs from run 1",
                        "input": {"probe": "same-seed-repeated", "run": rep + 1}}
        # (1c) a likelihood that is zero on part of the prior (the -inf replacement draws indices): still reproducible
        def ll_cut(x):
            return -np.inf if x[0] < -1.0 else -0.5 * float(np.sum(x ** 2))
        cut = []
        for rep in range(2):
            np.random.seed(1000 + rep)              # different ambient stream: the run must only depend on random_state
            s = Sampler(pt, ll_cut, n_dim=2, n_particles=32, random_state=11, output_dir=tmp)
            s.run(n_total=64, progress=False)
            cut.append((s.state.get_history("u", flat=True), s.evidence()[0]))
        if cut[0][0].shape != cut[1][0].shape or not np.array_equal(cut[0][0], cut[1][0]) or cut[0][1] != cut[1][1]:
            return {"reproduced": True, "detail": "two runs with random_state=11 on a likelihood that is -inf on part of the prior differ",
                    "input": {"probe": "same-seed-with-zero-likelihood-region"}}
        # (1d) seeds of the integer types programs actually hold (NumPy integer scalars from SeedSequence / integer arrays): same
        # value => same run as the Python int, whatever the ambient stream; different values differ
        ref = {}
        for k in (5, 6):
            np.random.seed(31)
            s = mk(k, output_dir=tmp)
            s.run(n_total=64, progress=False)
            ref[k] = (s.state.get_history("u", flat=True), s.evidence()[0])
        for j, sd in enumerate((np.int64(5), np.int32(5), np.uint32(5), np.arange(4, 7)[1], np.int64(6))):
            np.random.seed(500 + j)
            s = mk(sd, output_dir=tmp)
            s.run(n_total=64, progress=False)
            got = (s.state.get_history("u", flat=True), s.evidence()[0])
            want = ref[int(sd)]
            if got[0].shape != want[0].shape or not np.array_equal(got[0], want[0]) or got[1] != want[1]:
                return {"reproduced": True, "detail": f"random_state={type(sd).__name__}({int(sd)}) does not reproduce the run of random_state={int(sd)}: the seed is not applied "
                        "for this integer type (the run follows the ambient global stream)", "input": {"probe": "numpy-integer-seed", "type": type(sd).__name__}}
        # (2)
        X = np.random.RandomState(5).rand(300, 2)
        X[:150] += 3
        done = mk(7, output_dir=tmp)
        done.run(n_total=64, progress=False)
        ops = {
            "GaussianMixture(random_state=42).fit": lambda: GaussianMixture(2, random_state=42).fit(X),
            "HierarchicalGaussianMixture.fit": lambda: HierarchicalGaussianMixture().fit(X),
            "HierarchicalGaussianMixture.fit+predict": lambda: HierarchicalGaussianMixture(normalize=True).fit(X).predict(X),
            "systematic_resample": lambda: tools.systematic_resample(8, np.full(8, 0.125)),
            "Sampler.posterior()": lambda: done.posterior(),
            "Sampler.posterior(resample=True)": lambda: done.posterior(resample=True),
            "Sampler.posterior(resample=True, trim=False, return_logw=True)": lambda: done.posterior(resample=True, trim_importance_weights=False, return_logw=True),
            "Sampler.evidence()/results()": lambda: (done.evidence(), done.results()),
            "Sampler.sample() (one more iteration)": lambda: done.sample(),
            "Sampler.save_state": lambda: done.save_state(os.path.join(tmp, "x.state")),
            "copy.deepcopy(sampler)": lambda: __import__("copy").deepcopy(done),
            "copy.copy(sampler)": lambda: __import__("copy").copy(done),
            "dill round trip of a sampler": lambda: __import__("dill").loads(__import__("dill").dumps(done)),
            "copy.deepcopy(sampler.state)": lambda: __import__("copy").deepcopy(done.state),
            "Sampler construction with random_state=None": lambda: mk(None, output_dir=tmp),
        }
        # operations that end with an exception (the caller's error state turns an underflow into FloatingPointError): the stream
        # still depends on the seed in force before them
        rb = np.random.RandomState(4)
        bimodal = np.vstack([0.2 + 0.01 * rb.standard_normal((200, 2)), 0.8 + 0.01 * rb.standard_normal((200, 2))])
        bw = rb.rand(400)

        def raising(fn):
            def op():
                try:
                    with np.errstate(under="raise", over="raise"):
                        fn()
                except (FloatingPointError, Warning, ValueError, np.linalg.LinAlgError):
                    pass
            return op
        ops["HierarchicalGaussianMixture.fit under np.errstate(under='raise') (raises or not)"] = raising(lambda: HierarchicalGaussianMixture(normalize=True).fit(bimodal, bw))
        ops["GaussianMixture(random_state=7).fit under np.errstate(under='raise') (raises or not)"] = raising(lambda: GaussianMixture(2, random_state=7).fit(100.0 * bimodal, bw))
        ops["HierarchicalGaussianMixture.fit (unnormalised) under np.errstate(under='raise') (raises or not)"] = raising(lambda: HierarchicalGaussianMixture().fit(bimodal))
        for name, op in ops.items():
            try:
                a = after(op)
            except Exception as e:
                if "copy" in name or "dill" in name:
                    continue                       # copying / pickling a sampler is not promised to work; only its effect on the stream is checked
                raise
            if a[0] == a[1]:
                return {"reproduced": True, "detail": f"after {name} the global stream no longer depends on the seed in force before it (next draw {a[0]} for both pre-seeds)",
                        "input": {"probe": name}}
        # (3) resume continues the stream
        for clustering in (True, False):
            d1, d2 = os.path.join(tmp, f"a{clustering}"), os.path.join(tmp, f"b{clustering}")
            s = mk(3, output_dir=d1, clustering=clustering)
            s.run(n_total=64, progress=False, save_every=2)
            full = s.state.get_history("u", flat=True)
            s2 = mk(3, output_dir=d2, clustering=clustering)
            s2.run(n_total=64, progress=False, resume_state_path=os.path.join(d1, "ps_2.state"))
            res = s2.state.get_history("u", flat=True)
            if full.shape != res.shape or not np.array_equal(full, res) or s.evidence()[0] != s2.evidence()[0]:
                b1 = s.state.get_history("u", index=0)
                b3 = s2.state.get_history("u", index=2) if s2.state.get_history_length() > 2 else None
                extra = " (the first resumed batch replays the draws of batch 1)" if b3 is not None and b1.shape == b3.shape and np.array_equal(b1, b3) else ""
                return {"reproduced": True, "detail": "a seeded run resumed from its own checkpoint does not reproduce the uninterrupted run" + extra,
                        "input": {"probe": "resume", "clustering": clustering}}
        # (3b) a short run, its final state saved explicitly and through <label>_final.state, resumed to a larger target: the same as
        # one uninterrupted run to that target (the checkpoint written between iterations holds the live stream)
        for how in ("save_state", "final-file"):
            d1, d2, d3 = (os.path.join(tmp, f"{how}_{k}") for k in "abc")
            s1 = mk(13, output_dir=d1)
            s1.run(n_total=64, progress=False, save_every=(1 if how == "final-file" else None))
            path = os.path.join(d1, "explicit.state")
            if how == "save_state":
                s1.save_state(path)
            else:
                cand = [f for f in os.listdir(d1) if f.endswith("final.state")]
                if not cand:
                    continue
                path = os.path.join(d1, cand[0])
            s2 = mk(13, output_dir=d2)
            s2.run(n_total=400, progress=False, resume_state_path=path)
            s3 = mk(13, output_dir=d3)
            s3.run(n_total=400, progress=False)
            a, b = s2.state.get_history("u", flat=True), s3.state.get_history("u", flat=True)
            if a.shape != b.shape or not np.array_equal(a, b) or s2.evidence()[0] != s3.evidence()[0]:
                return {"reproduced": True, "detail": f"a run to n_total=64 whose final state ({how}) is resumed to n_total=400 differs from one uninterrupted run to 400: "
                        "the checkpoint written between iterations does not hold the live random stream", "input": {"probe": "resume-from-final", "how": how}}
        return {"reproduced": False, "detail": "all RNG probes passed", "tried": 3 + len(ops) + 4}
    finally:
        shutil.rmtree(tmp, ignore_errors=True)


print(json.dumps(main()))
