"""Runtime contract for StateManager.compute_logw_and_logz on the real code (C04): balance-heuristic
formula against an independent float64/longdouble evaluation, normalisation, order independence,
shift law, finiteness for |logl| up to 1e6, purity and history-swap sequences.
Bounded: directed families of histories (T<=6, unequal batches, unsorted betas)."""
import json, sys
import numpy as np
from scipy.special import logsumexp
from tempest.state_manager import StateManager


def build(batches):
    sm = StateManager(1)
    for (beta, logz, logl) in batches:
        n = len(logl)
        sm.update_current({"u": np.zeros((n, 1)), "x": np.zeros((n, 1)), "logl": np.asarray(logl, float),
                           "beta": float(beta), "logz": float(logz)})
        sm.commit_current_to_history()
    return sm


def spec(batches, bf):
    l = np.concatenate([np.asarray(b[2], np.longdouble) for b in batches])
    n = np.array([len(b[2]) for b in batches], np.longdouble)
    N = n.sum()
    terms = np.stack([np.log(n[t] / N) + np.longdouble(b[0]) * l - np.longdouble(b[1]) for t, b in enumerate(batches)], 1)
    mx = terms.max(1, keepdims=True)
    lmix = (mx[:, 0] + np.log(np.exp(terms - mx).sum(1)))
    u = np.longdouble(bf) * l - lmix
    m = u.max()
    L = m + np.log(np.exp(u - m).sum())
    return (u - L).astype(float), float(L - np.log(N)), u.astype(float)


def check(batches, bf):
    sm = build(batches)
    before = sm.to_dict()
    try:
        lw, lz = sm.compute_logw_and_logz(bf)
        lwu, lzu = sm.compute_logw_and_logz(bf, normalize=False)
    except Exception as e:
        return f"{type(e).__name__}: {e}"
    slw, slz, su = spec(batches, bf)
    if len(lw) != len(slw):
        return f"{len(lw)} weights for {len(slw)} samples"
    if not (np.all(np.isfinite(lw)) and np.isfinite(lz)):
        return f"non-finite result for finite inputs (logz={lz})"
    tol = 1e-6 * (1 + np.abs(slw).max())
    if np.abs(lw - slw).max() > tol:
        return f"normalised logw deviates from the balance-heuristic formula by {np.abs(lw - slw).max():.3g}"
    if abs(lz - slz) > 1e-6 * (1 + abs(slz)):
        return f"logz {lz} != log mean unnormalised weight {slz}"
    if np.abs(lwu - su).max() > 1e-6 * (1 + np.abs(su).max()):
        return "unnormalised logw deviates from the formula"
    if abs(np.exp(lw).sum() - 1) > 1e-8:
        return f"normalised weights sum to {np.exp(lw).sum()}"
    after = sm.to_dict()
    for k in before["_history"]:
        if len(before["_history"][k]) != len(after["_history"][k]):
            return "history changed by a weight computation"
    extra = set(vars(sm)) - {"n_dim", "_current", "_history", "_results_dict"}
    if extra:
        # state added by the computation must not survive a history swap (checked below)
        pass
    # order independence (as a multiset of (sample, weight))
    perm = list(reversed(range(len(batches))))
    lwp, lzp = build([batches[i] for i in perm]).compute_logw_and_logz(bf)
    off = np.cumsum([0] + [len(b[2]) for b in batches])
    re = np.concatenate([np.arange(off[i], off[i + 1]) for i in perm])
    if np.abs(lwp - lw[re]).max() > tol or abs(lzp - lz) > 1e-6 * (1 + abs(lz)):
        return "weights depend on the order of iterations"
    # shift law
    c = 37.5
    sh = [(b[0], b[1] + b[0] * c, np.asarray(b[2]) + c) for b in batches]
    lws, lzs = build(sh).compute_logw_and_logz(bf)
    if np.abs(lws - lw).max() > tol or abs(lzs - (lz + bf * c)) > 1e-6 * (1 + abs(lz) + abs(c)):
        return "shift law violated"
    # history swap on the same instance (same T and N): result must follow the stored history
    other = [(b[0], b[1] - 1.3 * (i + 1), np.asarray(b[2])[::-1] * 0.5 - i) for i, b in enumerate(batches)]
    sm.compute_logw_and_logz(bf)
    sm.update_from_dict(build(other).to_dict())
    lwo, lzo = sm.compute_logw_and_logz(bf)
    slwo, slzo, _ = spec(other, bf)
    if np.abs(lwo - slwo).max() > 1e-6 * (1 + np.abs(slwo).max()) or abs(lzo - slzo) > 1e-6 * (1 + abs(slzo)):
        return "after importing another history of the same size the weights do not follow the stored history"
    return None


def families():
    rng = np.random.RandomState(4)
    out = []
    for T in (1, 2, 3, 6):
        for scale in (1.0, 50.0, 1e3, 1e6):
            ns = rng.randint(1, 9, size=T)
            betas = rng.rand(T)
            betas[rng.randint(T)] = 0.0
            if T > 1:
                betas[rng.randint(T)] = 1.0
            b = [(betas[t], rng.randn() * min(scale, 1e3), rng.randn(ns[t]) * scale) for t in range(T)]
            for bf in (0.0, 0.37, 1.0):
                out.append((b, bf))
    # repeated temperatures (the reweighter could not advance / iterations after beta reached 1) with their own evidence estimates
    # and unequal batch sizes: each iteration stays a mixture component of its own, with its own recorded logz
    for T, rep in ((3, (1, 2)), (4, (2, 3)), (5, (0, 4)), (4, (1, 3))):
        ns = [3, 7, 2, 5, 4][:T]
        betas = list(np.linspace(0.0, 1.0, T))
        betas[rep[1]] = betas[rep[0]]
        logzs = [0.0, -1.7, 2.9, -4.1, 0.8][:T]
        b = [(betas[t], logzs[t], rng.randn(ns[t]) * 3.0) for t in range(T)]
        for bf in (0.5, 1.0):
            out.append((b, bf))
    b = [(0.0, 0.0, rng.randn(4)), (0.6, -2.0, rng.randn(3)), (1.0, -3.5, rng.randn(6)), (1.0, -3.1, rng.randn(2)), (1.0, -3.9, rng.randn(5))]
    out.append((b, 1.0))
    # a tail of iterations at beta = 1 whose evidence estimates have settled (differences ~1e-3 on values ~ -2500): still separate components
    for base, eps_ in ((-2500.0, 1e-3), (-40.0, 3e-7), (1e4, 0.05)):
        b = [(0.0, 0.0, rng.randn(5) * 2 + base * 0.0), (0.5, base * 0.5, rng.randn(4) * 2 + base)] + \
            [(1.0, base + eps_ * k, rng.randn(3 + k) * 2 + base) for k in range(5)]
        out.append((b, 1.0))
        out.append((b, 0.5))
    # every component log-density of a sample between -745 and -709 (exp() is subnormal there, no warning is raised)
    b = [(0.0, 720.0, np.array([-3.0, 2.0, 5.0, -8.0])), (1.0, 725.0, np.array([-1.0, 4.0, 0.5])), (0.5, 730.0, np.array([3.0, -2.0, 1.0, 6.0, 0.0]))]
    out.append((b, 1.0))
    out.append((b, 0.3))
    # peaked: a sample whose best term is ~800 nats above the others'
    b = [(0.0, 0.0, np.array([-3.0, -2.0, -900.0])), (1.0, -5.0, np.array([-1.0, -1000.0, 0.0, -2.0]))]
    out.append((b, 1.0))
    return out


def long_history():
    """a long history (N*T well above 4 million entries): every sample, including the most recent ones, follows the formula"""
    rng = np.random.RandomState(11)
    T, n = 72, 1024
    betas = np.r_[np.zeros(3), np.sort(rng.uniform(0, 1, T - 5)), 1.0, 1.0]
    sm = StateManager(1)
    ls, zs = [], []
    for t in range(T):
        logl = rng.randn(n) * 3.0 - 5.0 * betas[t]
        z = rng.randn() * 0.5
        sm.update_current({"u": np.zeros((n, 1)), "x": np.zeros((n, 1)), "logl": logl, "beta": float(betas[t]), "logz": float(z)})
        sm.commit_current_to_history()
        ls.append(logl)
        zs.append(z)
    l = np.concatenate(ls)
    for bf in (1.0, 0.4):
        lw, lz = sm.compute_logw_and_logz(bf)
        comp = l[:, None] * betas[None, :] - np.asarray(zs)[None, :] + np.log(np.full(T, n) / (T * n))[None, :]
        mx = comp.max(1)
        lmix = mx + np.log(np.exp(comp - mx[:, None]).sum(1))
        u = bf * l - lmix
        L = u.max() + np.log(np.exp(u - u.max()).sum())
        if len(lw) != len(u) or not np.all(np.isfinite(lw)):
            return f"long history (T={T}, N={T * n}): {len(lw)} weights / non-finite values"
        dev = np.abs(lw - (u - L))
        if dev.max() > 1e-8:
            i = int(np.argmax(dev))
            return (f"long history (T={T}, N={T * n}, beta={bf}): log-weight of sample {i} (iteration {i // n}) deviates from the balance-heuristic "
                    f"formula by {dev.max():.3g}")
        if abs(lz - (L - np.log(T * n))) > 1e-8:
            return f"long history: logz {lz} != log mean unnormalised weight {L - np.log(T * n)}"
    return None


def many_iterations():
    """more than 2048 stored iterations of a few particles each (a small ensemble run for a long time): the formula, against a float64
    evaluation with one global maximum per sample; order independence on the same history reversed"""
    rng = np.random.RandomState(13)
    T = 2100
    ns = rng.randint(1, 4, size=T)
    betas = np.r_[0.0, np.sort(rng.uniform(0, 1, T - 2)), 1.0]
    zs = -3.0 * betas + 0.2 * rng.randn(T)
    batches = [(betas[t], zs[t], rng.randn(ns[t]) * 4.0 - 6.0 * betas[t]) for t in range(T)]
    out = []
    for bs in (batches, batches[::-1]):
        sm = build(bs)
        lw, lz = sm.compute_logw_and_logz(1.0)
        l = np.concatenate([b[2] for b in bs])
        n = np.array([len(b[2]) for b in bs], float)
        comp = l[:, None] * np.array([b[0] for b in bs])[None, :] - np.array([b[1] for b in bs])[None, :] + np.log(n / n.sum())[None, :]
        mx = comp.max(1)
        u = l - (mx + np.log(np.exp(comp - mx[:, None]).sum(1)))
        L = u.max() + np.log(np.exp(u - u.max()).sum())
        if len(lw) != len(u) or np.abs(lw - (u - L)).max() > 1e-8 or abs(lz - (L - np.log(len(u)))) > 1e-8:
            return (f"history of {T} iterations (1-3 particles each): log-weights deviate from the balance-heuristic formula by {np.abs(lw - (u - L)).max():.3g}, "
                    f"logz {lz!r} vs {L - np.log(len(u))!r}")
        out.append((np.sort(lw), lz))
    if np.abs(out[0][0] - out[1][0]).max() > 1e-8 or abs(out[0][1] - out[1][1]) > 1e-8:
        return f"history of {T} iterations: the weights depend on the order of the iterations"
    return None


def held_results():
    """a result stays what it was: log-weights returned for one temperature are unchanged by later calls at other temperatures on the same
    object (StateManager and Sampler.posterior(return_logw=True) / results())"""
    rng = np.random.RandomState(17)
    batches = [(b, rng.randn() * 0.3, rng.randn(5) * 3.0) for b in (0.0, 0.4, 1.0)]
    sm = build(batches)
    for norm in (True, False):
        first = sm.compute_logw_and_logz(1.0, normalize=norm)[0]
        keep = np.array(first, copy=True)
        for other in (0.5, 0.0, 0.25):
            sm.compute_logw_and_logz(other, normalize=True)
            sm.compute_logw_and_logz(other, normalize=False)
        if not np.array_equal(np.asarray(first), keep):
            return (f"the log-weights returned by compute_logw_and_logz(1.0, normalize={norm}) changed (by up to {np.abs(np.asarray(first) - keep).max():.3g}) after later calls at "
                    f"other temperatures on the same object: results share a reused buffer")
    return None


def restored_history():
    """the weights follow the history that is stored *now*: after importing / loading another history with the same number of
    iterations into the same object (update_from_dict, load_state) nothing of the previous history may survive in a cache"""
    import tempfile, os
    rng = np.random.RandomState(5)
    mk = lambda sc: [(b, rng.randn() * 0.3, rng.randn(6) * sc) for b in (0.0, 0.3, 0.7, 1.0)]
    a, b = mk(2.0), mk(7.0)
    rag = [(bb[0], bb[1], rng.randn(k) * 3.0) for bb, k in zip(b, (6, 4, 9, 5))]
    for other, how in ((b, "update_from_dict"), (rag, "update_from_dict (other batch sizes)"), (b, "load_state")):
        sm = build(a)
        sm.compute_logw_and_logz(1.0)
        sm.get_history("logl", flat=True)
        src = build(other)
        if how.startswith("update"):
            import copy
            sm.update_from_dict(copy.deepcopy(src.to_dict()))
        else:
            d = tempfile.mkdtemp(prefix="c04_")
            path = os.path.join(d, "s.state")
            try:
                src.save_state(path)
                sm.load_state(path)
                import shutil
                shutil.rmtree(d, True)
            except Exception as e:
                return None if isinstance(e, (AttributeError, TypeError)) else f"save/load of the state manager raised {type(e).__name__}: {e}"
        try:
            lw, lz = sm.compute_logw_and_logz(1.0)
        except Exception as e:
            return f"after {how}: compute_logw_and_logz raised {type(e).__name__}: {e}"
        slw, slz, _ = spec(other, 1.0)
        if len(lw) != len(slw) or np.abs(lw - slw).max() > 1e-6 * (1 + np.abs(slw).max()) or abs(lz - slz) > 1e-6 * (1 + abs(slz)):
            return f"after {how} into a manager that already served weights, the weights do not follow the history now stored"
    return None


def integer_histories():
    """log-likelihoods stored with an integer (or mixed) dtype - a vectorised counting likelihood returns such arrays and the manager
    stores what it is given: the weights follow the formula evaluated on the stored values, they are not truncated"""
    rng = np.random.RandomState(21)
    for T, dt in ((1, np.int64), (3, np.int64), (4, np.int32), (5, np.int64), (3, "mixed")):
        ns = rng.randint(2, 9, size=T)
        betas = np.r_[0.0, np.sort(rng.rand(T - 1))]
        batches = [(betas[t], rng.randn() * 0.7, -rng.randint(0, 12, size=ns[t])) for t in range(T)]
        for bf in (0.37, 1.0):
            sm = StateManager(1)
            for t, (beta, logz, logl) in enumerate(batches):
                n = len(logl)
                arr = np.asarray(logl, float if (dt == "mixed" and t % 2) else (np.int64 if dt == "mixed" else dt))
                sm.update_current({"u": np.zeros((n, 1)), "x": np.zeros((n, 1)), "logl": arr, "beta": float(beta), "logz": float(logz)})
                sm.commit_current_to_history()
            try:
                lw, lz = sm.compute_logw_and_logz(bf)
                lwu, _ = sm.compute_logw_and_logz(bf, normalize=False)
            except Exception as e:
                return f"integer log-likelihood history (T={T}): {type(e).__name__}: {e}"
            slw, slz, su = spec(batches, bf)
            dev = max(np.abs(np.asarray(lw, float) - slw).max(), np.abs(np.asarray(lwu, float) - su).max())
            if dev > 1e-8 * (1 + np.abs(su).max()) or abs(lz - slz) > 1e-8 * (1 + abs(slz)):
                return (f"history whose log-likelihoods are stored as {dt if dt == 'mixed' else np.dtype(dt).name} (T={T}, beta={bf}): log-weights deviate "
                        f"from the formula by {dev:.3g}, logz {lz!r} vs {slz!r}")
            if abs(np.exp(np.asarray(lw, float)).sum() - 1) > 1e-8:
                return f"integer log-likelihood history: normalised weights sum to {np.exp(np.asarray(lw, float)).sum()}"
    return None


def reused_sampler():
    """the public facade: one Sampler object used as a reader for checkpoints of two chains with the same number of iterations
    (load_state), posterior(return_logw=True) after each load: log-weights, weights and samples are those of the history now stored"""
    import tempfile, shutil, os
    sys.path.insert(0, os.path.dirname(os.path.abspath(__file__)))
    import _reuse
    base = tempfile.mkdtemp(prefix="c04r_")
    cwd = os.getcwd()
    os.chdir(base)
    try:
        a, b, ca, cb = _reuse.two_chains(base, n_total=128)
        reader = _reuse.used_reader(base)
        ks = sorted(set(ca) & set(cb))
        for k in (ks[len(ks) // 2], ks[-1]):
            for path, who in ((ca[k], "A"), (cb[k], "B"), (ca[k], "A again")):
                reader.load_state(path)
                st = reader.state
                batches = [(bt, lz, ll) for bt, lz, ll in zip(st.get_history("beta"), st.get_history("logz"), st.get_history("logl"))]
                for opts in (dict(trim_importance_weights=False), dict()):
                    x, w, l, lw = reader.posterior(return_logw=True, **opts)
                    _, _, su = spec(batches, 1.0)
                    xs, ls = st.get_history("x", flat=True), st.get_history("logl", flat=True)
                    rows = {(tuple(np.round(r, 12)), round(float(ll), 9)): i for i, (r, ll) in enumerate(zip(xs, ls))}
                    for r, ll, g in zip(x, l, lw):
                        i = rows.get((tuple(np.round(r, 12)), round(float(ll), 9)))
                        if i is None:
                            return (f"posterior() of a sampler that had already served another history (load_state of chain {who}, iteration {k}) "
                                    f"returned a sample that is not in the history now stored")
                        if abs(g - su[i]) > 1e-6 * (1 + abs(su[i])) and abs((g - lw[0]) - (su[i] - su[rows[(tuple(np.round(x[0], 12)), round(float(l[0]), 9))]])) > 1e-6 * (1 + abs(su[i])):
                            return (f"posterior(return_logw=True) after load_state of chain {who}, iteration {k}: log-weight {g!r} of a stored sample, "
                                    f"the formula on the stored history gives {su[i]!r}")
    finally:
        os.chdir(cwd)
        shutil.rmtree(base, True)
    return None


def main():
    p = json.load(open(sys.argv[1]))
    tried = 0
    for name, fn in (("long-history", long_history), ("many-iterations", many_iterations), ("held-results", held_results), ("restored-history", restored_history), ("integer-histories", integer_histories),
                     ("reused-sampler", reused_sampler)):
        tried += 1
        try:
            r = fn()
        except Exception as e:
            r = f"{name}: {type(e).__name__}: {e}"
        if r:
            print(json.dumps({"reproduced": True, "detail": r, "tried": tried, "input": {"case": name}}))
            return
    fam = families()
    # the caller's numpy error state is not the library's business: same contract with floating-point warnings silenced
    for b, bf in fam[::3]:
        tried += 1
        with np.errstate(all="ignore"):
            r = check(b, bf)
        if r:
            print(json.dumps({"reproduced": True, "detail": "under np.errstate(all='ignore'): " + r, "tried": tried,
                              "input": {"errstate": "ignore", "batches": [[float(x[0]), float(x[1]), np.asarray(x[2]).tolist()] for x in b], "beta_final": bf}}))
            return
    for b, bf in fam:
        tried += 1
        r = check(b, bf)
        if r:
            print(json.dumps({"reproduced": True, "detail": r, "tried": tried,
                              "input": {"batches": [[float(x[0]), float(x[1]), np.asarray(x[2]).tolist()] for x in b], "beta_final": bf}}))
            return
    print(json.dumps({"reproduced": False, "tried": tried, "detail": "native contract held on all tried histories"}))


main()
