"""Replay of the known corner C11/O3: a warm-up batch in which every prior draw has likelihood zero."""
import json, sys
import numpy as np
from tempest import Sampler


def main():
    def pt(u):
        return u

    def ll(x):
        return -np.inf if x[0] > 1e-6 else 0.0
    s = Sampler(pt, ll, n_dim=2, n_particles=4, random_state=0)
    s._core._initialize_fresh()
    st = s.sample()
    if np.all(np.isinf(st["logl"])):
        print(json.dumps({"reproduced": True, "witness_class": "n_finite == 0",
                          "detail": f"n_finite == 0: all {len(st['logl'])} prior draws have logL=-inf; stored logl={st['logl'].tolist()}, logz={st['logz']}",
                          "input": {"n_particles": 4, "support_fraction": 1e-6}}))
    else:
        print(json.dumps({"reproduced": False, "detail": "batch had a finite draw"}))


main()
