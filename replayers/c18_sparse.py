"""Directed case for C18's second clause (bounded): a valid configuration whose likelihood is zero on 95 % of the prior, with
ess_ratio = 1 (the resampled training set of a cluster then easily consists of copies of ONE particle).  On the pinned tree the
per-cluster Student-t fit is handed that degenerate subset and np.linalg.solve raises `LinAlgError: Singular matrix`
(ModeStatistics.from_particles -> fit_mvstud): nothing on the path establishes fit_mvstud's non-degeneracy precondition, which the
C14/C19 proofs list as an assumed contract.  Configurations below are fixed; the replayer reports the first that raises."""
import json, sys, warnings
import numpy as np
from tempest import Sampler

warnings.simplefilter("ignore")


def main():
    f = 0.05

    def llv(X):
        out = -0.5 * np.sum((X - 0.3 * f) ** 2, axis=1) / 0.05 ** 2
        out[X[:, 0] >= f] = -np.inf
        return out

    def ll(x):
        return float(llv(np.atleast_2d(x))[0])
    tried = 0
    for seed, vec, kw in ((2, True, {}), (2, False, {}), (5, True, dict(sample="rwm")), (7, True, dict(resample="syst"))):
        tried += 1
        try:
            s = Sampler(lambda u: u, llv if vec else ll, n_dim=2, n_particles=200, ess_ratio=1.0, random_state=seed, vectorize=vec, **kw)
            s.run(n_total=400, progress=False)
        except np.linalg.LinAlgError as e:
            print(json.dumps({"reproduced": True, "tried": tried, "input": {"support_fraction": f, "n_particles": 200, "ess_ratio": 1.0, "random_state": seed, "vectorize": vec, "options": kw},
                              "detail": f"valid configuration does not run to completion: LinAlgError: {e} (the per-cluster Student-t fit receives a degenerate resampled subset; "
                                        f"iteration {int(s.state.get_current('iter'))}, beta = {float(s.state.get_current('beta')):.4f})"}))
            return
        except Exception as e:
            print(json.dumps({"reproduced": True, "tried": tried, "input": {"random_state": seed, "vectorize": vec, "options": kw},
                              "detail": f"valid configuration does not run to completion: {type(e).__name__}: {str(e)[:200]}"}))
            return
    print(json.dumps({"reproduced": False, "tried": tried, "detail": "the sparse-support configurations ran to completion"}))


main()
