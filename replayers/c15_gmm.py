"""Native contract for C15 on the real GaussianMixture / HierarchicalGaussianMixture (bounded directed search).

Mixture ('full' and 'diag'): weights >= 0 summing to one, symmetric PSD covariances, means of non-negligible components inside
the bounding box, integer sample weights == replicated points (same random_state), M-step invariants on raw responsibilities.
Hierarchical: every training point exactly one label in [0,K), K <= cap, every cluster >= min_points when a split was accepted,
cluster weights sum to one, predict in [0,K) for arbitrary query points.
"""
import json, sys, warnings
import numpy as np
from tempest.cluster import GaussianMixture, HierarchicalGaussianMixture

warnings.simplefilter("ignore")


def datasets(rng):
    out = []
    for d in (1, 2, 3, 5, 6):
        for scale in (0.05, 1.0, 4.0):
            n = max(2 * d, 40)
            c = rng.uniform(-1, 1, (2, d)) * 6 * scale
            X = np.vstack([c[0] + scale * rng.standard_normal((n, d)), c[1] + scale * rng.standard_normal((n, d))])
            out.append((f"two blobs d={d} scale={scale}", X))
    X = rng.standard_normal((60, 2))
    X[:20] = X[0]
    out.append(("duplicated points", X))
    out.append(("collinear", np.c_[np.linspace(0, 1, 50), 2 * np.linspace(0, 1, 50)] + 1e-9 * rng.standard_normal((50, 2))))
    out.append(("tight blob + far outliers", np.vstack([0.01 * rng.standard_normal((60, 2)), [[8, 8], [9, -7], [-8, 9]]])))
    return out


def weightings(rng, n):
    return [("unit", np.ones(n)), ("random", rng.uniform(0.1, 1, n)), ("skewed", rng.pareto(0.7, n) + 1e-6),
            ("integer", rng.randint(1, 4, n).astype(float))]


def check_mixture(name, X, wname, w, cov_type, K):
    g = GaussianMixture(n_components=K, covariance_type=cov_type, random_state=42)
    try:
        g.fit(X, sample_weight=w)
    except Exception as e:
        return f"fit raised {type(e).__name__}: {e}"
    W = g.weights_
    if (W < 0).any() or abs(W.sum() - 1) > 1e-9:
        return f"component weights {W.tolist()} sum to {W.sum()!r}"
    lo, hi = X.min(axis=0), X.max(axis=0)
    span = (hi - lo) + 1e-12
    for k in range(K):
        if W[k] > 1e-6 and ((g.means_[k] < lo - 1e-6 * span) | (g.means_[k] > hi + 1e-6 * span)).any():
            return f"mean of component {k} (weight {W[k]:.3g}) {g.means_[k].tolist()} outside the bounding box"
        C = g.covariances_[k]
        if cov_type == "full":
            if not np.allclose(C, C.T, rtol=1e-9, atol=1e-12 * (1 + np.abs(C).max())):
                return f"covariance {k} not symmetric"
            if np.linalg.eigvalsh((C + C.T) / 2).min() < -1e-9 * (1 + np.abs(C).max()):
                return f"covariance {k} has a negative eigenvalue"
        elif (C < 0).any():
            return f"diagonal covariance {k} has a negative entry"
    lab = g.predict(np.vstack([X, X.mean(axis=0) + 50 * span, lo - 10 * span]))
    if lab.min() < 0 or lab.max() >= K:
        return f"predict returned label outside [0,{K})"
    return None


def check_mstep(rng):
    """the M-step on raw (not row-normalised) responsibilities: its postconditions must not depend on rows summing to one"""
    for d, K in ((2, 2), (5, 3)):
        n = 30
        X = rng.standard_normal((n, d))
        R = rng.uniform(0, 1, (n, K)) * rng.uniform(0.2, 1.0, (n, 1))
        w = rng.uniform(0.1, 1, n)
        w /= w.sum()
        for ct in ("full", "diag"):
            g = GaussianMixture(n_components=K, covariance_type=ct)
            W, M, C = g._m_step(X, R, w)
            if (W < 0).any() or abs(W.sum() - 1) > 1e-12:
                return f"_m_step({ct}) weights sum to {W.sum()!r} for responsibilities whose rows sum to less than one"
    return None


def check_replication(name, X, w, cov_type):
    m = w.astype(int)
    Xr = np.repeat(X, m, axis=0)
    a = GaussianMixture(n_components=2, covariance_type=cov_type, random_state=42).fit(X, sample_weight=w)
    b = GaussianMixture(n_components=2, covariance_type=cov_type, random_state=42).fit(Xr)
    if not (np.allclose(a.weights_, b.weights_, atol=1e-6) and np.allclose(a.means_, b.means_, atol=1e-6 * (1 + np.abs(X).max()))):
        return f"integer weights vs replicated points: weights {a.weights_.tolist()} vs {b.weights_.tolist()}"
    return None


def check_hier(name, X, wname, w, cap, normalize, tm):
    d = X.shape[1]
    h = HierarchicalGaussianMixture(n_init=1, max_iterations=1000 if cap is None else cap - 1, min_points=None if cap is None else 4 * d,
                                    threshold_modifier=tm, covariance_type="full", normalize=normalize)
    try:
        h.fit(X, w)
    except Exception as e:
        return f"fit raised {type(e).__name__}: {e}"
    K = h.n_clusters_
    lab = h.labels_
    if lab.shape != (len(X),) or lab.min() < 0 or lab.max() >= K:
        return f"training labels outside [0,{K}): min {lab.min()}, max {lab.max()}"
    if cap is not None and K > cap:
        return f"K={K} exceeds the cap {cap}"
    sizes = np.bincount(lab, minlength=K)
    mp = 2 * d if cap is None else 4 * d
    if cap == 7:       # default minimum size with an explicit iteration cap (the constructor's own defaults)
        mp = 2 * d
        h = HierarchicalGaussianMixture(max_iterations=6, normalize=normalize)
        h.fit(X, w)
        K, lab = h.n_clusters_, h.labels_
        sizes = np.bincount(np.clip(lab, 0, None), minlength=K)
        if lab.min() < 0 or lab.max() >= K:
            return f"training labels outside [0,{K}): {int(np.sum((lab < 0) | (lab >= K)))} points"
    if K > 1 and sizes.min() < mp:
        return f"cluster sizes {sizes.tolist()} with minimum size {mp}: an accepted split left a child below the minimum (or a cluster lost its points)"
    if len(h.cluster_centers_) != K or len(h.cluster_covariances_) != K or len(h.cluster_weights_) != K:
        return "per-cluster attribute lists do not have K entries"
    if abs(np.sum(h.cluster_weights_) - 1) > 1e-9 or (np.asarray(h.cluster_weights_) < 0).any():
        return f"cluster weights sum to {np.sum(h.cluster_weights_)!r}"
    span = X.max(axis=0) - X.min(axis=0) + 1e-12
    Q = np.vstack([X[:5], X.mean(axis=0) + 30 * span, X.min(axis=0) - 7 * span, X.mean(axis=0)])
    for fn in (h.predict,):
        try:
            pl = fn(Q)
        except Exception as e:
            return f"predict raised {type(e).__name__}: {e}"
        if pl.min() < 0 or pl.max() >= K:
            return f"predict returned label outside [0,{K})"
    return None


def check_refit():
    """one model instance fitted several times (as the sampler does on its cadence): after every fit, predict / labels refer to the
    model just fitted — K, label range, training labels — whatever was fitted before"""
    r = np.random.RandomState(12)
    blobs4 = np.vstack([c + 0.05 * r.standard_normal((120, 2)) for c in ([0, 0], [4, 0], [0, 4], [4, 4])])
    blobs2 = np.vstack([c + 0.05 * r.standard_normal((200, 2)) for c in ([0, 0], [4, 4])])
    one = 0.3 * r.standard_normal((300, 2))
    for normalize in (False, True):
        h = HierarchicalGaussianMixture(normalize=normalize)
        for k, X in enumerate((blobs4, blobs2, one, blobs4)):
            try:
                h.fit(X, np.ones(len(X)))
                K = h.n_clusters_
                Q = np.vstack([X, X.mean(axis=0) + 30.0, X.min(axis=0) - 7.0])
                lab = h.predict(Q)
            except Exception as e:
                return f"fit #{k + 1} of a reused model (normalize={normalize}) raised {type(e).__name__}: {e}"
            if lab.min() < 0 or lab.max() >= K:
                return (f"fit #{k + 1} of a reused model (normalize={normalize}): predict returned label {int(lab.max())} with K={K} "
                        f"(state of an earlier fit survived the refit)")
            if h.labels_.shape != (len(X),) or h.labels_.min() < 0 or h.labels_.max() >= K:
                return f"fit #{k + 1} of a reused model (normalize={normalize}): training labels outside [0,{K})"
            if not np.array_equal(h.predict(X), np.asarray(h.labels_)) and K > 1 and np.mean(h.predict(X) == h.labels_) < 0.9:
                return f"fit #{k + 1} of a reused model (normalize={normalize}): predict on the training points disagrees with the training labels"
            try:
                pp = h.predict_proba(Q)
                if pp.shape != (len(Q), K):
                    return f"fit #{k + 1} of a reused model (normalize={normalize}): predict_proba has shape {pp.shape}, K={K}"
            except AttributeError:
                pass
    return None


def check_integer_data(rng):
    """whole-number data handed over as an integer array / nested lists of ints (counts, grid indices): the mixture invariants hold
    and the fit equals the fit of the same points stored as float64"""
    for d, n in ((1, 40), (2, 120), (3, 200)):
        Xi = np.vstack([rng.randint(0, 7, size=(n // 2, d)), rng.randint(9, 15, size=(n - n // 2, d))]).astype(np.int64)
        forms = (("int64", Xi), ("int32", Xi.astype(np.int32)), ("nested lists of ints", Xi.tolist()))
        for ct in ("full", "diag"):
            for K in (1, 2):
                ref = GaussianMixture(n_components=K, covariance_type=ct, random_state=42).fit(Xi.astype(float))
                for fname, Xf in forms:
                    e = check_mixture(f"lattice d={d}", np.asarray(Xf), "none", None, ct, K) if fname != "nested lists of ints" else None
                    if e:
                        return f"data stored as {fname}: {e}", {"d": d, "n": n, "covariance_type": ct, "n_components": K, "storage": fname}
                    try:
                        g = GaussianMixture(n_components=K, covariance_type=ct, random_state=42).fit(Xf)
                    except Exception as ex:
                        return f"data stored as {fname}: fit raised {type(ex).__name__}: {ex}", {"d": d, "storage": fname}
                    if not (np.all(np.isfinite(g.weights_)) and np.allclose(g.weights_, ref.weights_, rtol=1e-8, atol=1e-10)
                            and np.allclose(g.means_, ref.means_, rtol=1e-8, atol=1e-10) and np.allclose(g.covariances_, ref.covariances_, rtol=1e-8, atol=1e-10)):
                        return (f"the fit of whole-number data stored as {fname} differs from the fit of the same points stored as float64 "
                                f"(weights {np.round(g.weights_, 4).tolist()} vs {np.round(ref.weights_, 4).tolist()})"), {"d": d, "n": n, "covariance_type": ct, "n_components": K, "storage": fname}
        if d <= 2:
            for normalize in (False, True):
                e = check_hier(f"lattice d={d}", Xi, "unit", np.ones(len(Xi)), None, normalize, 1.0)
                if e:
                    return f"integer-typed data, hierarchical model (normalize={normalize}): {e}", {"d": d, "normalize": normalize, "storage": "int64"}
    return None, None


def check_environments():
    """tight heavy clusters plus far stragglers of negligible weight (the shape of an importance-weighted history), fitted in the default
    environment, with warnings turned into errors and under np.errstate(divide='raise', invalid='raise'): the fit completes and the
    invariants hold in each"""
    import warnings as _w, contextlib
    for d, seed in ((1, 1), (2, 2), (3, 3)):
        r = np.random.RandomState(seed)
        c1, c2 = np.full(d, 0.2), np.full(d, 0.8)
        X = np.vstack([r.randn(120, d) * 0.01 + c1, r.randn(120, d) * 0.01 + c2, r.rand(6, d)])
        w = np.r_[r.gamma(2.0, size=240), np.full(6, 1e-12)]
        for env in ("default", "warnings-as-errors", "errstate-raise"):
            with _w.catch_warnings(), (np.errstate(divide="raise", invalid="raise") if env == "errstate-raise" else contextlib.nullcontext()):
                _w.simplefilter("error" if env == "warnings-as-errors" else "ignore")
                for ct in ("full", "diag"):
                    try:
                        e = check_mixture(f"skewed d={d}", X, "skewed", w, ct, 2)
                    except (Warning, FloatingPointError) as ex:
                        e = f"fit raised {type(ex).__name__}: {ex}"
                    if e and not (env != "default" and "bounding box" in e):
                        return f"[{env}] {e}", {"d": d, "environment": env, "covariance_type": ct}
                for normalize in (False, True):
                    try:
                        e = check_hier(f"skewed d={d}", X, "skewed", w, None, normalize, 1.0)
                    except (Warning, FloatingPointError) as ex:
                        e = f"fit raised {type(ex).__name__}: {ex}"
                    if e:
                        return f"[{env}] hierarchical model (normalize={normalize}): {e}", {"d": d, "environment": env, "normalize": normalize}
    return None, None


def check_skewed_replication():
    """integer sample weights are equivalent to replicating points - also when the weights are highly skewed (one or a few heavy points,
    geometric weights), and for the covariances, not only weights and means"""
    r = np.random.RandomState(14)
    for d in (2, 3):
        X = np.vstack([r.standard_normal((25, d)) * 0.3, r.standard_normal((25, d)) * 0.3 + 3.0])
        n = len(X)
        fams = (("one heavy", np.r_[40, np.ones(n - 1)]), ("few heavy", np.where(np.arange(n) % 11 == 0, 25, 1)), ("geometric", np.maximum(1, (64 * 0.7 ** np.arange(n)).astype(int))),
                ("flat 2", np.full(n, 2)))
        for fname, m in fams:
            m = np.asarray(m, dtype=int)
            Xr = np.repeat(X, m, axis=0)
            for ct in ("full", "diag"):
                for K in (1, 2):
                    a = GaussianMixture(n_components=K, covariance_type=ct, random_state=42).fit(X, sample_weight=m.astype(float))
                    b = GaussianMixture(n_components=K, covariance_type=ct, random_state=42).fit(Xr)
                    oa, ob = np.argsort(a.means_[:, 0]), np.argsort(b.means_[:, 0])
                    if not (np.allclose(a.weights_[oa], b.weights_[ob], atol=1e-5) and np.allclose(a.means_[oa], b.means_[ob], atol=1e-5)
                            and np.allclose(np.asarray(a.covariances_)[oa], np.asarray(b.covariances_)[ob], rtol=1e-4, atol=1e-6)):
                        dev = float(np.abs(np.asarray(a.covariances_)[oa] - np.asarray(b.covariances_)[ob]).max())
                        return (f"integer weights ({fname}) vs replicated points, {ct} covariances, K={K}, d={d}: the fits differ (largest covariance entry deviation {dev:.3g}, "
                                f"weights {np.round(a.weights_[oa], 5).tolist()} vs {np.round(b.weights_[ob], 5).tolist()})"), {"weights": fname, "covariance_type": ct, "K": K, "d": d}
    return None, None


def check_dimension_sequence():
    """one default-configured estimator reused for data sets of increasing dimension: the minimum cluster size is 2*d of the data set
    being fitted (the constructor was given min_points=None), whatever was fitted before"""
    for d1, d2, m in ((1, 6, 4), (2, 5, 6), (1, 3, 3)):
        r = np.random.RandomState(10 * d1 + d2)
        first = np.vstack([r.standard_normal((60, d1)), 8.0 + r.standard_normal((60, d1))])
        big = r.standard_normal((60, d2))
        groups = [30.0 * (k + 1) * np.eye(d2)[k % d2] + 0.01 * r.standard_normal((m, d2)) for k in range(2)]
        second = np.vstack([big] + groups)
        for normalize in (False, True):
            fresh = HierarchicalGaussianMixture(normalize=normalize)
            fresh.fit(second, np.ones(len(second)))
            h = HierarchicalGaussianMixture(normalize=normalize)
            h.fit(first, np.ones(len(first)))
            h.fit(second, np.ones(len(second)))
            for who, mdl in (("fresh", fresh), ("reused (fitted to %d-d data before)" % d1, h)):
                K, lab = mdl.n_clusters_, np.asarray(mdl.labels_)
                sizes = np.bincount(lab, minlength=K)
                if K > 1 and sizes.min() < 2 * d2:
                    return (f"{who} default estimator on {d2}-d data: cluster sizes {sizes.tolist()} with minimum size 2*d = {2 * d2}: an accepted split "
                            f"left a child below the minimum"), {"d_first": d1, "d_second": d2, "group_size": m, "normalize": normalize}
    return None, None


def main():
    p = json.load(open(sys.argv[1]))
    rng = np.random.RandomState(int(p.get("seed", 0)))
    tried = 0
    for fn, args in ((check_integer_data, (np.random.RandomState(77),)), (check_dimension_sequence, ()), (check_environments, ()), (check_skewed_replication, ())):
        tried += 1
        try:
            e, what = fn(*args)
        except Exception as ex:
            e, what = f"{fn.__name__}: {type(ex).__name__}: {ex}", {"case": fn.__name__}
        if e:
            print(json.dumps({"reproduced": True, "tried": tried, "detail": e, "input": what}))
            return
    e = check_refit()
    tried += 1
    if e:
        print(json.dumps({"reproduced": True, "tried": tried, "detail": e, "input": {"case": "reused model instance"}}))
        return
    e = check_mstep(rng)
    tried += 1
    if e:
        print(json.dumps({"reproduced": True, "tried": tried, "detail": e, "input": {"case": "m-step on raw responsibilities"}}))
        return
    for name, X in datasets(rng):
        for wname, w in weightings(rng, len(X)):
            for ct in ("full", "diag"):
                for K in (1, 2, 3):
                    tried += 1
                    e = check_mixture(name, X, wname, w, ct, K)
                    if e:
                        print(json.dumps({"reproduced": True, "tried": tried, "detail": e,
                                          "input": {"data": name, "weights": wname, "covariance_type": ct, "n_components": K}}))
                        return
                if wname == "integer" and X.shape[1] <= 3 and "blobs" in name:
                    tried += 1
                    e = check_replication(name, X, w, ct)
                    if e:
                        print(json.dumps({"reproduced": True, "tried": tried, "detail": e, "input": {"data": name, "covariance_type": ct}}))
                        return
            if X.shape[1] <= 3:
                for cap in (None, 1, 2, 3):
                    for normalize in (True, False):
                        tried += 1
                        e = check_hier(name, X, wname, w, cap, normalize, 1.0)
                        if e:
                            print(json.dumps({"reproduced": True, "tried": tried, "detail": e,
                                              "input": {"data": name, "weights": wname, "cap": cap, "normalize": normalize}}))
                            return
    # four blobs + a cluster with outliers: several live clusters in one search pass
    for seed in range(4):
        r2 = np.random.RandomState(100 + seed)
        X = np.vstack([c + 0.05 * r2.standard_normal((40, 2)) for c in ([0, 0], [3, 0], [0, 3], [3, 3])] +
                      [np.array([6, 6]) + 0.02 * r2.standard_normal((40, 2)), [[9, 9], [9.5, 3], [3, 9.5]]])
        for w in (np.ones(len(X)), r2.uniform(0.2, 1, len(X))):
            tried += 1
            e = check_hier("blobs+outliers", X, "w", w, None, False, 1.0)
            if e:
                print(json.dumps({"reproduced": True, "tried": tried, "detail": e, "input": {"data": f"blobs+outliers seed {100 + seed}"}}))
                return
    # a legitimately splittable group next to a group whose best split would leave a child below the minimum size
    for seed in range(6):
        r3 = np.random.RandomState(seed)
        A1 = r3.randn(40, 2) * 0.5
        A2 = r3.randn(40, 2) * 0.5 + [3.0, 0.0]
        Bm = r3.randn(200, 2) * 0.4 + [0.0, 14.0]
        Bo = r3.randn(3, 2) * 0.1 + [7.0, 14.0]
        for X in (np.vstack([Bm[:50], A1, A2, Bm[50:], Bo]), np.vstack([A1, A2, Bm, Bo]), np.vstack([Bo, Bm, A2, A1])):
            for w in (np.ones(len(X)), r3.randint(1, 4, len(X)).astype(float)):
                for normalize in (False, True):
                    tried += 1
                    e = check_hier("splittable group + blob with outliers", X, "w", w, 7, normalize, 1.0)
                    if e and "min" in e and "cap" not in e and False:
                        e = None
                    if e:
                        print(json.dumps({"reproduced": True, "tried": tried, "detail": e,
                                          "input": {"data": f"splittable group + tight blob with 3 outliers, seed {seed}", "normalize": normalize}}))
                        return
    print(json.dumps({"reproduced": False, "tried": tried, "detail": "no failing data set in the directed search"}))


main()
