"""Shared helper for the native contracts: two independently seeded chains of one configuration with a checkpoint after every
iteration, and a sampler object that has already run and is then used as a reader / continuation vehicle for those checkpoints
(Sampler.load_state, Sampler.run(resume_state_path=...), StateManager.update_from_dict are public).  What a sampler returns after
loading a checkpoint may depend only on that checkpoint, never on what the object held before."""
import os, re, tempfile
import numpy as np
import tempest


def prior(u):
    return 8.0 * u - 4.0


def loglike(x):
    return -0.5 * float(np.sum((x - 0.7) ** 2) / 0.3)


def loglike_blob(x):
    return -0.5 * float(np.sum((x - 0.7) ** 2) / 0.3), float(x[0])


def make(base, seed, blobs=False, **kw):
    o = dict(n_dim=2, n_particles=32, random_state=seed, output_dir=tempfile.mkdtemp(prefix=f"chain{seed}_", dir=base))
    o.update(kw)
    if blobs:
        o["blobs_dtype"] = "float"
    return tempest.Sampler(prior, loglike_blob if blobs else loglike, **o)


def checkpoints(s):
    out = {}
    d = str(s._core.config.output_dir) if hasattr(s, "_core") else None
    for f in os.listdir(d):
        m = re.match(r".*_(\d+)\.state$", f)
        if m:
            out[int(m.group(1))] = os.path.join(d, f)
    return out


def two_chains(base, n_total=160, blobs=False, **kw):
    """(chain A, chain B, checkpoints of A, checkpoints of B); both of one configuration, different seeds"""
    a = make(base, 101, blobs, **kw)
    a.run(n_total=n_total, progress=False, save_every=1)
    b = make(base, 202, blobs, **kw)
    b.run(n_total=n_total, progress=False, save_every=1)
    return a, b, checkpoints(a), checkpoints(b)


def used_reader(base, blobs=False, **kw):
    """a sampler object that has already completed a (short) run of its own"""
    r = make(base, 303, blobs, **kw)
    r.run(n_total=64, progress=False)
    return r
