"""Runtime contract for the ESS utilities (value = (sum w)^2 / sum w^2, bounds, invariances)."""
import json, sys
import numpy as np
from tempest import tools
from tempest.cluster import HierarchicalGaussianMixture


def check(w):
    w = np.asarray(w, float)
    wn = w / w.max()                      # the oracle is evaluated on max-normalised weights: no overflow / underflow of its own
    spec = wn.sum() ** 2 / (wn ** 2).sum()
    for name, f in (("effective_sample_size", tools.effective_sample_size),
                    ("_compute_effective_sample_size", HierarchicalGaussianMixture()._compute_effective_sample_size)):
        w2 = w.copy()
        v = f(w2)
        if not np.array_equal(w2, w):
            return f"{name} mutated its argument"
        if not np.isclose(v, spec, rtol=1e-9):
            return f"{name}={v} but (sum w)^2/sum w^2={spec}"
        if not (1 - 1e-9 <= v <= len(w) * (1 + 1e-9)):
            return f"{name}={v} outside [1,{len(w)}]"
        if not np.isclose(f(w * 7.5), v, rtol=1e-9):
            return f"{name} not scale invariant"
        if np.all(w == w[0]) and not np.isclose(v, len(w), rtol=1e-9):
            return f"{name}={v} for {len(w)} uniform weights"
    lw = np.log(w[w > 0])
    if len(lw):
        wp = wn[w > 0]
        v = tools.compute_ess(lw)
        sp = wp.sum() ** 2 / (wp ** 2).sum() / len(wp)
        if not np.isclose(v, sp, rtol=1e-9):
            return f"compute_ess={v}, spec={sp}"
        if not np.isclose(tools.compute_ess(lw + 123.0), v, rtol=1e-9):
            return "compute_ess not shift invariant"
    return None


def main():
    p = json.load(open(sys.argv[1]))
    inp = p.get("input") or {}
    tried = 0
    rng = np.random.RandomState(2)
    cands = [inp["w"]] if inp.get("w") else []
    for n in (1, 2, 3, 10, 1000):
        cands += [np.ones(n), rng.rand(n) + 1e-6, np.exp(rng.randn(n) * 5), np.r_[1e-150 * np.ones(n - 1), 1.0] if n > 1 else np.ones(1)]
    # the stated domain: dynamic range up to 1e300 and any representable absolute scale (ESS is invariant to rescaling the weights)
    for n in (1, 4, 100, 10000):
        base = rng.rand(n) + 0.1
        cands += [base * sc for sc in (1e300 / 1.2, 1e200, 1e155, 1e-155, 1e-200, 1e-300)]
        cands += [np.full(n, sc) for sc in (1e300, 1e160, 1e-160, 1e-300)]
        if n > 1:
            cands += [10.0 ** np.linspace(0, 300, n), 10.0 ** np.linspace(-300, 0, n), 10.0 ** np.linspace(-150, 150, n)]
    for w in cands:
        tried += 1
        r = check(w)
        if r:
            print(json.dumps({"reproduced": True, "detail": r, "tried": tried, "input": {"w": np.asarray(w).tolist()[:50]}}))
            return
    print(json.dumps({"reproduced": False, "tried": tried, "detail": "native contract held on all tried inputs"}))


main()
