"""Scribble-and-reread for C17 (native, bounded): every array obtained through a public accessor is
overwritten and every later read must be unchanged; committed batches never change after later commits."""
import json, sys, copy
import numpy as np
from tempest.state_manager import StateManager
from tempest import Sampler


def snapshot(sm):
    return {"cur": {k: (v.copy() if isinstance(v, np.ndarray) else v) for k, v in sm._current.items()},
            "hist": {k: [a.copy() if isinstance(a, np.ndarray) else a for a in v] for k, v in sm._history.items()}}


def same(a, b):
    for k in a["cur"]:
        x, y = a["cur"][k], b["cur"][k]
        if isinstance(x, np.ndarray) != isinstance(y, np.ndarray) or (isinstance(x, np.ndarray) and not np.array_equal(x, y)):
            return f"current[{k}] changed"
    for k in a["hist"]:
        if len(a["hist"][k]) != len(b["hist"][k]):
            return f"history[{k}] length changed"
        for i, (x, y) in enumerate(zip(a["hist"][k], b["hist"][k])):
            if isinstance(x, np.ndarray) and not np.array_equal(x, y):
                return f"history[{k}][{i}] changed"
    return None


def scribble(obj):
    if isinstance(obj, np.ndarray):
        if obj.size and obj.dtype.kind in "fiu":
            obj[...] = 123456
        elif obj.dtype.kind == "O":         # an object array hands out whatever its entries reference
            for v in obj.ravel():
                scribble(v)
    elif isinstance(obj, dict):
        for v in obj.values():
            scribble(v)
    elif isinstance(obj, (list, tuple)):
        for v in obj:
            scribble(v)


def fill(sm, rng, nb):
    for t in range(nb):
        n = 3 + t
        sm.update_current({"u": rng.rand(n, 2), "x": rng.rand(n, 2), "logl": rng.randn(n), "beta": 0.1 * t, "logz": -1.0 * t,
                           "iter": t, "calls": 5 * t, "assignments": np.zeros(n, dtype=int)})
        sm.commit_current_to_history()


def ragged_ok(f):
    """batches of unequal size cannot be stacked: the accessor may refuse (ValueError) — or return something, which is then
    scribbled on like every other result"""
    try:
        return f()
    except ValueError:
        return None


def check_manager(nb):
    rng = np.random.RandomState(nb)
    sm = StateManager(2)
    fill(sm, rng, nb)
    ref = snapshot(sm)
    acc = {
        "get_current()": lambda: sm.get_current(),
        "get_current('u')": lambda: sm.get_current("u"),
        "get_history('logl')": lambda: ragged_ok(lambda: sm.get_history("logl")) if nb else None,
        "get_history('u')": lambda: ragged_ok(lambda: sm.get_history("u")) if nb else None,
        "get_history('u', flat=True)": lambda: sm.get_history("u", flat=True) if nb else None,
        "get_history('logl', flat=True)": lambda: sm.get_history("logl", flat=True) if nb else None,
        "get_history('logl', index=0)": lambda: sm.get_history("logl", index=0) if nb else None,
        "get_last_history('u')": lambda: sm.get_last_history("u"),
        "to_dict()": lambda: sm.to_dict(),
        "compute_results()": lambda: ragged_ok(lambda: sm.compute_results()) if nb else None,
        "compute_logw_and_logz()": lambda: sm.compute_logw_and_logz(1.0) if nb else None,
        "compute_logw_and_logz(normalize=False)": lambda: sm.compute_logw_and_logz(1.0, normalize=False) if nb else None,
        "compute_logw_and_logz(0.5, normalize=False)": lambda: sm.compute_logw_and_logz(0.5, normalize=False) if nb else None,
    }
    for name, f in acc.items():
        first = f()
        again_before = copy.deepcopy(f())
        scribble(first)
        r = same(ref, snapshot(sm))
        if r:
            return f"writing into the result of {name} changed internal state: {r} (history batches: {nb})"
        again = f()
        if not _eq(again, again_before):
            return f"writing into the result of {name} changed what the next call returns (history batches: {nb})"
        if nb and name.startswith("compute_logw"):
            # ... nor what the other form of the same query returns
            other = sm.compute_logw_and_logz(1.0)
            fresh = StateManager.from_dict(copy.deepcopy(sm.to_dict())).compute_logw_and_logz(1.0)
            if not _eq(other, fresh):
                return f"writing into the result of {name} changed what compute_logw_and_logz(1.0) returns afterwards (history batches: {nb})"
    # setters copy by default; commits are not aliased to current
    buf = rng.rand(4, 2)
    sm.set_current("u", buf)
    sm.update_current({"x": buf, "logl": np.arange(4.0), "beta": 0.5, "logz": 0.0})
    sm.commit_current_to_history()
    ref2 = snapshot(sm)
    buf[...] = -9
    sm.set_current("u", rng.rand(4, 2))
    sm._current["logl"][...] = 77 if False else sm._current["logl"]
    r = same(ref2, snapshot(sm)) if False else None
    h = snapshot(sm)["hist"]
    if not np.array_equal(h["u"][-1], ref2["hist"]["u"][-1]) or not np.array_equal(h["x"][-1], ref2["hist"]["x"][-1]):
        return "a committed batch changed when the caller reused its buffer"
    # copy=False then commit: later writes by the caller must not reach the committed batch
    buf2 = rng.rand(4, 2)
    sm.set_current("u", buf2, copy=False)
    sm.commit_current_to_history()
    before = sm.get_history("u", index=len(sm._history["u"]) - 1)
    buf2[...] = 5
    after = sm.get_history("u", index=len(sm._history["u"]) - 1)
    if not np.array_equal(before, after):
        return "a committed batch aliases the caller's array (set_current(copy=False) then commit)"
    # append-only: earlier batches unchanged by later commits
    ref3 = snapshot(sm)
    fill(sm, rng, 2)
    now = snapshot(sm)
    for k in ref3["hist"]:
        for i, x in enumerate(ref3["hist"][k]):
            if isinstance(x, np.ndarray) and not np.array_equal(x, now["hist"][k][i]):
                return f"history[{k}][{i}] altered by a later commit"
        if len(now["hist"][k]) not in (len(ref3["hist"][k]), len(ref3["hist"][k]) + 2):
            return f"a commit appended {len(now['hist'][k]) - len(ref3['hist'][k])} batches for {k} in 2 iterations"
    return None


def _eq(a, b):
    if isinstance(a, np.ndarray):
        return isinstance(b, np.ndarray) and a.shape == b.shape and np.array_equal(a, b)
    if isinstance(a, dict):
        return a.keys() == b.keys() and all(_eq(a[k], b[k]) for k in a)
    if isinstance(a, (list, tuple)):
        return len(a) == len(b) and all(_eq(x, y) for x, y in zip(a, b))
    return a == b or (a != a and b != b)


def check_sampler():
    def pt(u):
        return 10 * u - 5

    def ll(x):
        return -0.5 * np.sum(x ** 2), float(x[0])
    s = Sampler(pt, ll, n_dim=2, n_particles=16, random_state=1, blobs_dtype="float")
    s._core._initialize_fresh()
    st1 = s.sample()
    ref = snapshot(s.state)
    scribble(st1)
    r = same(ref, snapshot(s.state))
    if r:
        return f"writing into the dictionary returned by sample() changed internal state: {r}"
    for _ in range(5):
        s.sample()
    ref = snapshot(s.state)
    for kw in ({}, {"resample": True}, {"trim_importance_weights": False}, {"trim_importance_weights": False, "return_logw": True, "return_blobs": True},
               {"resample": True, "trim_importance_weights": False, "return_blobs": True, "return_logw": True}):
        np.random.seed(0)
        a = s.posterior(**kw)
        np.random.seed(0)
        b = copy.deepcopy(s.posterior(**kw))
        scribble(a)
        r = same(ref, snapshot(s.state))
        if r:
            return f"writing into posterior({kw}) changed internal state: {r}"
        np.random.seed(0)
        if not _eq(s.posterior(**kw), b):
            return f"writing into posterior({kw}) changed the next posterior()"
    a = s.results()
    b = copy.deepcopy(s.results())
    scribble(a)
    if same(ref, snapshot(s.state)) or not _eq(s.results(), b):
        return "writing into results() changed internal state or the next results()"
    return None


def check_append_only_runs():
    """committed history is append-only across sampler iterations: after every iteration each recorded quantity has exactly one
    more batch and every earlier batch is bit-identical — also while prior-sampling iterations repeat and with a likelihood that is
    zero on part of the prior (where the evidence bookkeeping of the warm-up phase is busiest)"""
    for label, ll_, kw in (("gaussian", lambda x: -0.5 * float(np.sum(x ** 2)), dict(ess_ratio=2.0)),
                           ("zero-likelihood region, long warm-up", lambda x: -np.inf if x[0] > 0.5 else -0.5 * float(np.sum(x ** 2)) / 0.2, dict(ess_ratio=6.0)),
                           ("zero-likelihood region, dynamic mode", lambda x: -np.inf if x[1] < -2.0 else -0.5 * float(np.sum(x ** 2)), dict(volume_variation=0.5))):
        s = Sampler(lambda u: 10 * u - 5, ll_, n_dim=2, n_particles=24, random_state=4, **kw)
        s._core._initialize_fresh()
        s._core.n_total = 96
        prev = None
        for it in range(14):
            s.sample()
            now = snapshot(s.state)["hist"]
            if prev is not None:
                for k in prev:
                    if len(now[k]) != len(prev[k]) + 1 and len(prev[k]) > 0:
                        return f"[{label}] iteration {it + 1}: history[{k}] grew by {len(now[k]) - len(prev[k])} batches"
                    for i, x in enumerate(prev[k]):
                        y = now[k][i]
                        if isinstance(x, np.ndarray):
                            if not np.array_equal(x, y, equal_nan=True):
                                return f"[{label}] iteration {it + 1} altered the committed batch history[{k}][{i}]"
                        elif x is not None and y != x and not (x != x and y != y):
                            return f"[{label}] iteration {it + 1} altered the committed value history[{k}][{i}]: {x!r} -> {y!r}"
            prev = now
    return None


def check_subclasses_and_atomic_commit():
    """(a) arrays of ndarray subclasses (masked arrays, memmaps, record arrays - what a vectorised likelihood may return) are copied by
    setters, commits and getters like plain arrays; (b) with warnings turned into errors a commit is all-or-nothing: whatever happens,
    every recorded quantity holds the same number of batches afterwards"""
    import warnings as _w, tempfile, os
    rng = np.random.RandomState(3)
    tmp = tempfile.mkdtemp(prefix="c17_")
    try:
        mm = np.memmap(os.path.join(tmp, "l.dat"), dtype=float, mode="w+", shape=(5,))
        mm[:] = rng.randn(5)
        flavours = (("masked array", np.ma.masked_array(rng.randn(5), mask=[0, 0, 1, 0, 0])), ("memmap", mm),
                    ("ndarray subclass view", rng.randn(5).view(type("Tagged", (np.ndarray,), {}))))
        for fname, arr in flavours:
            sm = StateManager(2)
            keep = np.array(np.asarray(arr), copy=True)
            sm.update_current({"u": rng.rand(5, 2), "x": rng.rand(5, 2), "logl": arr, "beta": 0.0, "logz": 0.0, "iter": 0, "calls": 0, "assignments": np.zeros(5, dtype=int)})
            sm.commit_current_to_history()
            np.asarray(arr)[...] = 777.0
            got = np.asarray(sm.get_history("logl", index=0), dtype=float)
            cur = np.asarray(sm.get_current("logl"), dtype=float)
            if not (np.array_equal(got, keep) and np.array_equal(cur, keep)):
                return f"a log-likelihood array handed over as a {fname} is stored by reference: editing the caller's array changed the committed batch / current state"
            out = sm.get_history("logl", index=0)
            try:
                np.asarray(out)[...] = -5.0
            except (ValueError, TypeError):
                pass
            if not np.array_equal(np.asarray(sm.get_history("logl", index=0), dtype=float), keep):
                return f"get_history hands out the internal {fname} batch by reference"
    finally:
        import shutil
        shutil.rmtree(tmp, True)
    for order in ((4, 6), (6, 4)):
        sm = StateManager(2)
        with _w.catch_warnings():
            _w.simplefilter("error")
            for t, n in enumerate(order):
                sm.update_current({"u": rng.rand(n, 2), "x": rng.rand(n, 2), "logl": rng.randn(n), "beta": 0.1 * t, "logz": 0.0, "iter": t, "calls": n,
                                   "assignments": np.zeros(n, dtype=int), "ess": 1.0, "acceptance": 0.5, "steps": 1, "efficiency": 1.0})
                try:
                    sm.commit_current_to_history()
                except Warning:
                    pass
                lens = {k: len(v) for k, v in sm._history.items() if len(v) or k in ("u", "x", "logl", "beta")}
                if len(set(lens.values())) > 1:
                    return (f"with warnings turned into errors, committing a batch of {n} particles after one of {order[0]} left the recorded quantities with different "
                            f"numbers of batches: {lens}")
    return None


def main():
    try:
        r = check_subclasses_and_atomic_commit()
    except Exception as e:
        r = f"subclass / atomic-commit scenario raised {type(e).__name__}: {e}"
    if r:
        print(json.dumps({"reproduced": True, "detail": r, "input": {"probe": "ndarray subclasses / commit under warnings-as-errors"}}))
        return
    r = check_append_only_runs()
    if r:
        print(json.dumps({"reproduced": True, "detail": r, "input": {"probe": "append-only over sampler iterations"}}))
        return
    for nb in (0, 1, 2, 4):
        r = check_manager(nb)
        if r:
            print(json.dumps({"reproduced": True, "detail": r, "input": {"history_batches": nb}}))
            return
    r = check_sampler()
    if r:
        print(json.dumps({"reproduced": True, "detail": r, "input": {"probe": "sampler"}}))
        return
    print(json.dumps({"reproduced": False, "detail": "no alias found", "tried": 5}))


main()
