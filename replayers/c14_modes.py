"""Native contract for C14 on the real Trainer / Resampler / ModeStatistics / clusterer.

A StateManager is filled with a generated weighted particle history; the real Trainer.run and Resampler.run are
executed in pipeline order (on a clusterer that is fresh, or was fitted on an *earlier* pool when the cadence
skips a refit) and the arguments that would reach the kernel are checked:
  * every assignment is an index of an existing mode (0 <= a < K_modes);
  * every mode has finite mean, symmetric positive-definite scale, finite positive degrees of freedom;
  * the mode a particle is assigned to was fitted from the training particles carrying that same label
    (its mean lies inside the bounding box of those particles);
  * no exception escapes Trainer.run / Resampler.run.
Bounded directed search (pools, cadences, caps stated in the output).
"""
import json, sys, warnings, itertools
import numpy as np
from tempest.state_manager import StateManager
from tempest.steps.train import Trainer
from tempest.steps.resample import Resampler
from tempest.cluster import HierarchicalGaussianMixture
from tempest.tools import trim_weights
from tempest import config as cfg

warnings.simplefilter("ignore")


def make_pool(rng, d, n, centers, spread, frac):
    ks = rng.choice(len(centers), size=n, p=np.asarray(frac) / np.sum(frac))
    u = np.clip(np.asarray(centers)[ks] + spread * rng.standard_normal((n, d)), 0.001, 0.999)
    return u, ks


def fill_state(d, u, beta, it):
    st = StateManager(d)
    n = len(u)
    half = n // 2
    for part in (u[:half], u[half:]):
        st.set_current("u", part)
        st.set_current("x", 10.0 * part + 3.0)      # physical coordinates differ from the unit-cube ones
        st.set_current("logl", -np.sum((part - 0.5) ** 2, axis=1))
        st.set_current("beta", beta)
        st.set_current("logz", 0.0)
        st.set_current("iter", it)
        st.set_current("calls", 0)
        st.set_current("ess", 1.0)
        st.set_current("assignments", np.zeros(len(part), dtype=int))
        st.commit_current_to_history()
    st.set_current("beta", beta)
    st.set_current("iter", it)
    return st


class NearestCentre:
    """A clustering model satisfying the clusterer contract used by Trainer/Resampler (fit / predict / n_clusters_, labels in
    [0, K)): labels a point with the index of the nearest of K fixed centres.  `fit` keeps the model (the pool never changes K)."""

    def __init__(self, centres):
        self.centres = np.asarray(centres, dtype=float)
        self.n_clusters_ = len(self.centres)
        self.labels_ = None

    def fit(self, X, sample_weight=None):
        self.labels_ = self.predict(X)
        return self

    def predict(self, X):
        X = np.atleast_2d(X)
        return np.argmin(((X[:, None, :] - self.centres[None, :, :]) ** 2).sum(axis=2), axis=1)


def scenario(seed, d, n, n_particles, cluster_every, it, n_max_clusters, normalize, first_pool, second_pool, weights_kind):
    rng = np.random.RandomState(seed)
    np.random.seed(seed)
    clusterer = NearestCentre(first_pool["centers"]) if normalize == "nearest-centre" else HierarchicalGaussianMixture(
        n_init=1, max_iterations=1000 if n_max_clusters is None else n_max_clusters - 1,
        min_points=None if n_max_clusters is None else 4 * d, threshold_modifier=1.0, covariance_type="full",
        verbose=False, normalize=normalize)
    what = dict(seed=seed, d=d, n=n, n_particles=n_particles, cluster_every=cluster_every, iter=it, n_max_clusters=n_max_clusters,
                normalize=normalize, first_pool=first_pool, second_pool=second_pool, weights=weights_kind)
    # optional earlier refit on a pool in which every mode is alive
    if first_pool is not None:
        u1, _ = make_pool(rng, d, n, first_pool["centers"], first_pool["spread"], first_pool["frac"])
        st1 = fill_state(d, u1, 0.3, cluster_every)       # an iteration on the cadence
        tr1 = Trainer(st1, None, clusterer, cluster_every, True, cfg.TRIM_ESS, cfg.TRIM_BINS, cfg.DOF_FALLBACK)
        try:
            tr1.run(np.full(len(u1), 1.0 / len(u1)))
        except Exception as e:
            return f"earlier refit raised {type(e).__name__}: {e}", what
    u2, ks = make_pool(rng, d, n, second_pool["centers"], second_pool["spread"], second_pool["frac"])
    st = fill_state(d, u2, 0.5, it)
    if weights_kind == "uniform":
        w = np.full(len(u2), 1.0 / len(u2))
    elif isinstance(weights_kind, str) and weights_kind.startswith("tail:"):
        # one cluster keeps only 0.3 % of the total weight, spread over its particles: they are trimmed out of the training pool
        # but still resampled from the whole pool (systematic resampling of 1024 particles guarantees a copy)
        k = int(weights_kind.split(":")[1])
        w = np.where(ks == k, 0.0, 1.0)
        m = max(int((ks == k).sum()), 1)
        w = np.where(ks == k, 0.003 * w.sum() / (0.997 * m), w)
        w = w / w.sum()
    else:       # one mode carries almost all the weight: the others are trimmed out of the training pool
        w = np.where(ks == 0, 1.0, 1e-12)
        w = w / w.sum()
    trainer = Trainer(st, None, clusterer, cluster_every, True, cfg.TRIM_ESS, cfg.TRIM_BINS, cfg.DOF_FALLBACK)
    resampler = Resampler(st, n_particles, "syst", clusterer, True, False)
    try:
        ms = trainer.run(w.copy())
    except Exception as e:
        return f"Trainer.run raised {type(e).__name__}: {e}", what
    try:
        resampler.run(w.copy())
    except Exception as e:
        return f"Resampler.run raised {type(e).__name__}: {e}", what
    a = np.asarray(st.get_current("assignments"))
    uu = np.asarray(st.get_current("u"))
    K = ms.K
    if a.shape != (n_particles,):
        return f"assignments shape {a.shape}", what
    if (a < 0).any() or (a >= K).any():
        return (f"assignment {int(a.max())} does not index an existing mode (K_modes={K}, clusterer K={clusterer.n_clusters_}): "
                f"the kernel would raise IndexError"), what
    pred = clusterer.predict(uu)
    if not np.array_equal(a, pred):
        j = int(np.argmax(a != pred))
        return (f"particle {j} carries assignment {int(a[j])} but the clustering model labels it {int(pred[j])}: it would be moved with the mode of "
                f"another cluster (K_modes={K}, clusterer K={clusterer.n_clusters_})"), what
    for k in range(K):
        if not np.all(np.isfinite(ms.means[k])):
            return f"mode {k}: non-finite mean", what
        c = ms.covariances[k]
        if not np.allclose(c, c.T, rtol=1e-9, atol=1e-12) or np.min(np.linalg.eigvalsh((c + c.T) / 2)) <= 0:
            return f"mode {k}: scale matrix not symmetric positive definite", what
        nu = float(ms.degrees_of_freedom[k])
        if not (np.isfinite(nu) and nu > 0):
            return f"mode {k}: degrees of freedom {nu}", what
    # the mode used for label l must have been fitted from the training particles labelled l
    trim_idx, _ = trim_weights(np.arange(len(w)), w.copy(), ess=cfg.TRIM_ESS, bins=cfg.TRIM_BINS)
    ut = st.get_history("u", flat=True)[trim_idx]
    lt = clusterer.predict(ut)
    for lab in np.unique(a):
        pts = ut[lt == lab]
        m = ms.means[lab]
        if len(pts) == 0:
            continue        # no training particle carries this label: nothing to compare against (see DESIGN C14)
        lo, hi = pts.min(axis=0) - 1e-9, pts.max(axis=0) + 1e-9
        if (m < lo).any() or (m > hi).any():
            return (f"particles labelled {int(lab)} are moved with mode {int(lab)} whose mean {np.round(m, 3).tolist()} lies outside the "
                    f"bounding box of the training particles carrying label {int(lab)} ({np.round(lo, 3).tolist()}..{np.round(hi, 3).tolist()}): "
                    f"that mode was fitted from another cluster"), what
    return None, what


def whole_runs():
    """Whole seeded Sampler runs — plain, checkpointed, and resumed into a fresh sampler — with the kernel call observed: at every
    call of the mutation kernel each particle's label must be the label the (one) clustering model gives its position, must index an
    existing well-formed mode, and the Trainer and the Resampler must be consulting the same model."""
    import os, tempfile, shutil
    import tempest
    import tempest.steps.mutate as mut
    tmp = tempfile.mkdtemp(prefix="c14_")
    real = mut.parallel_mcmc
    found = []

    def make(out, **kw):
        # two sharp, well separated modes and 256 particles: the hierarchical model then really finds K = 2 in the later iterations
        return tempest.Sampler(lambda u: 10 * u - 5, lambda x: float(np.logaddexp(-0.5 * np.sum((x - 3.0) ** 2) / 0.02, -0.5 * np.sum((x + 3.0) ** 2) / 0.02)),
                               n_dim=2, n_particles=256, random_state=5, clustering=True, output_dir=out, **kw)

    def spy_for(s, tag):
        def spy(**kw):
            if not found:
                a, u, ms = np.asarray(kw["assignments"]), np.asarray(kw["u"]), kw["mode_stats"]
                tr, rs = s._core.trainer.clusterer, s._core.resampler.clusterer
                if (a < 0).any() or (a >= ms.K).any():
                    found.append(f"{tag}: assignment {int(a.max())} does not index a mode (K_modes={ms.K})")
                elif tr is not None and getattr(tr, "n_clusters_", 0) and ms.K > 1:
                    for nm, model in (("the Trainer's", tr), ("the Resampler's", rs)):
                        pred = model.predict(u)
                        if not np.array_equal(pred, a):
                            found.append(f"{tag}: {int((pred != a).sum())} of {len(a)} particles carry a label that {nm} clustering model does not give "
                                         f"their position (K_modes={ms.K}, Trainer K={tr.n_clusters_}, Resampler K={getattr(rs, 'n_clusters_', None)})")
                            break
            return real(**kw)
        return spy
    cwd = os.getcwd()
    os.chdir(tmp)
    try:
        for ce, rsm in ((1, "mult"), (2, "syst"), (3, "mult")):
            d = os.path.join(tmp, f"run{ce}{rsm}")
            s = make(d, cluster_every=ce, resample=rsm)
            mut.parallel_mcmc = spy_for(s, f"run(cluster_every={ce}, resample={rsm})")
            s.run(n_total=768, progress=False, save_every=2)
            if found:
                return found[0], {"scenario": "whole run", "cluster_every": ce, "resample": rsm}
            cks = sorted((f for f in os.listdir(d) if f.endswith(".state") and "final" not in f), key=lambda f: int(f.split("_")[1].split(".")[0]))
            if not cks:
                continue
            mid = os.path.join(d, cks[-2] if len(cks) > 1 else cks[-1])     # a late checkpoint: the model already has K = 2
            s2 = make(os.path.join(tmp, f"res{ce}{rsm}"), cluster_every=ce, resample=rsm)
            mut.parallel_mcmc = spy_for(s2, f"resumed from {os.path.basename(mid)} (cluster_every={ce}, resample={rsm})")
            s2.run(n_total=1024, progress=False, resume_state_path=mid)
            if found:
                return found[0], {"scenario": "resumed run", "cluster_every": ce, "resample": rsm, "checkpoint": os.path.basename(mid)}
            if ce > 1:
                # the live (already used) sampler takes over the history of ANOTHER chain and iterates on, also off the cadence
                d3 = os.path.join(tmp, f"other{ce}{rsm}")
                s3 = tempest.Sampler(lambda u: 10 * u - 5, lambda x: float(np.logaddexp(-0.5 * np.sum((x - 3.0) ** 2) / 0.02, -0.5 * np.sum((x + 3.0) ** 2) / 0.02)),
                                     n_dim=2, n_particles=256, random_state=6, clustering=True, output_dir=d3, cluster_every=ce, resample=rsm)
                mut.parallel_mcmc = real
                s3.run(n_total=768, progress=False, save_every=1)
                cks3 = sorted((f for f in os.listdir(d3) if f.endswith(".state") and "final" not in f), key=lambda f: int(f.split("_")[1].split(".")[0]))
                for pick in cks3[-3:-1]:
                    s.load_state(os.path.join(d3, pick))
                    mut.parallel_mcmc = spy_for(s, f"used sampler continuing another chain's {pick} (cluster_every={ce}, resample={rsm})")
                    for _ in range(ce + 1):
                        s.sample()
                    if found:
                        return found[0], {"scenario": "used sampler takes over another chain", "cluster_every": ce, "resample": rsm, "checkpoint": pick}
    except Exception as e:
        return f"whole run raised {type(e).__name__}: {e}", {"scenario": "whole run"}
    finally:
        mut.parallel_mcmc = real
        os.chdir(cwd)
        shutil.rmtree(tmp, ignore_errors=True)
    return None, None


def kernel_uses_own_mode():
    """inside the kernel: with labels that leave gaps in the label range ({0, 2}, {1, 3}, {0, 1, 2, 4}) every walker's proposal is built from
    the mean / scale matrix of the mode its label names.  One accept-everything sweep of the real run loop with the normal draws fixed;
    the moved walker must sit at the specification's proposal for ITS mode (tpCN: the scale draw is fixed too)."""
    from tempest.mcmc import TPCNRunner, RWMRunner
    from tempest.modes import ModeStatistics
    for kernel, K, occupied in itertools.product(("rwm", "tpcn"), (3, 5), ((0, 2), (1,), "all-but-one")):
        rng = np.random.RandomState(3)
        d = 2
        occ = [k for k in range(K) if k != K - 2] if occupied == "all-but-one" else [k for k in occupied if k < K]
        means = rng.uniform(0.4, 0.6, (K, d))
        covs = np.array([np.diag([0.002 * (1 + 3 * k), 0.004 / (1 + k)]) + 0.0005 * k * np.array([[0, 1], [1, 0]]) for k in range(K)])
        ms = ModeStatistics(means, covs, np.full(K, 5.0))
        n = 12
        asg = np.array([occ[i % len(occ)] for i in range(n)])
        u = means[asg] + 0.01 * rng.standard_normal((n, d))
        flat = lambda x: (np.zeros(len(np.atleast_2d(x))), None)
        cls = TPCNRunner if kernel == "tpcn" else RWMRunner
        r = cls(u.copy(), u.copy(), np.zeros(n), None, asg.copy(), 1.0, ms, flat, lambda v: v, None, n_steps=1, n_max=1, periodic=None, reflective=None, verbose=False)
        sg = 0.5
        try:
            r.sigmas = np.full(np.shape(r.sigmas), sg) if np.ndim(r.sigmas) else sg
        except Exception:
            pass
        z = np.array([0.8, -0.6])
        o_randn, o_rand, o_gamma = np.random.randn, np.random.rand, np.random.gamma
        np.random.randn = lambda *s_: (np.broadcast_to(z, s_).copy() if len(s_) == 2 else z.copy())
        np.random.rand = lambda *s_: (np.zeros(s_) if s_ else 0.0)
        np.random.gamma = lambda shape=None, scale=1.0, size=None: (np.ones(size) if size is not None else (np.ones(np.shape(shape)) if np.ndim(shape) else 1.0))
        r._check_convergence = lambda acc, r=r: r.iteration >= 1
        r._adapt_sigma = lambda *a, **k: None
        try:
            r.run()
        except Exception as e:
            return f"{kernel}, K={K}, occupied labels {occ}: run raised {type(e).__name__}: {e}", {"kernel": kernel, "K": K, "occupied": occ}
        finally:
            np.random.randn, np.random.rand, np.random.gamma = o_randn, o_rand, o_gamma
        got = np.asarray(r.u)
        for k in range(n):
            c = asg[k]
            L = np.linalg.cholesky(covs[c])
            if kernel == "rwm":
                want = u[k] + sg * (L @ z)
            else:
                want = means[c] + np.sqrt(1 - sg ** 2) * (u[k] - means[c]) + sg * (L @ z)
            if np.any(want < 0) or np.any(want > 1):
                continue
            if not np.allclose(got[k], want, rtol=1e-9, atol=1e-12):
                others = [j for j in range(K) if j != c and np.allclose(got[k], (u[k] + sg * (np.linalg.cholesky(covs[j]) @ z)) if kernel == "rwm" else
                                                                     (means[j] + np.sqrt(1 - sg ** 2) * (u[k] - means[j]) + sg * (np.linalg.cholesky(covs[j]) @ z)), rtol=1e-9, atol=1e-12)]
                return (f"{kernel} kernel, K={K} modes, occupied labels {sorted(set(occ))}: walker {k} carries label {c} but was moved with "
                        f"{'the statistics of mode ' + str(others[0]) if others else 'statistics of no single mode'} (got {got[k].round(6).tolist()}, mode {c} gives {want.round(6).tolist()})",
                        {"kernel": kernel, "K": K, "occupied": occ, "walker": k})
    return None, None


def many_modes():
    """more than ten clusters (and sparse label sets): mode k is the fit of the particles labelled k"""
    from tempest.modes import ModeStatistics
    rng = np.random.RandomState(6)
    for K, labels_used in ((12, None), (25, None)):
        d = 2
        centres = np.c_[(np.arange(K) % 6 + 0.5) / 6.0, (np.arange(K) // 6 + 0.5) / 6.0]
        used = range(K) if labels_used is None else labels_used
        lab = np.concatenate([np.full(30, k) for k in used])
        u = np.concatenate([centres[k] + 0.004 * rng.standard_normal((30, d)) for k in used])
        w = np.full(len(u), 1.0 / len(u))
        st = np.random.get_state()
        np.random.seed(2)
        try:
            ms = ModeStatistics.from_particles(u, w, lab, n_modes=K) if labels_used is None else ModeStatistics.from_particles(u, w, lab)
        except TypeError:
            try:
                ms = ModeStatistics.from_particles(u, w, lab)
            except Exception as e:
                return f"from_particles with {K} clusters raised {type(e).__name__}: {e}", {"K": K}
        except Exception as e:
            return f"from_particles with {K} clusters raised {type(e).__name__}: {e}", {"K": K}
        finally:
            np.random.set_state(st)
        means = np.asarray(ms.means)
        for k in used:
            if k < len(means) and np.abs(means[k] - centres[k]).max() > 0.02:
                j = int(np.argmin(np.abs(centres - means[k]).sum(axis=1)))
                return (f"ModeStatistics.from_particles with labels {'0..' + str(K - 1) if labels_used is None else list(labels_used)}: mode {k} has mean {means[k].round(4).tolist()}, the particles "
                        f"labelled {k} sit at {centres[k].round(4).tolist()} (that mean belongs to cluster {j})"), {"K": K, "labels": "all" if labels_used is None else list(labels_used)}
    return None, None


def main():
    p = json.load(open(sys.argv[1]))
    tried = 0
    try:
        r, what = many_modes()
    except Exception as e:
        r, what = f"many-modes scenario raised {type(e).__name__}: {e}", {"case": "many_modes"}
    if r:
        print(json.dumps({"reproduced": True, "tried": 1, "detail": r, "input": what}, default=str))
        return
    try:
        r, what = kernel_uses_own_mode()
    except Exception as e:
        r, what = None, None       # the kernel's constructor / hooks changed: the scenario does not apply
        if not isinstance(e, (TypeError, AttributeError)):
            r, what = f"kernel-level scenario raised {type(e).__name__}: {e}", {"case": "kernel_uses_own_mode"}
    if r:
        print(json.dumps({"reproduced": True, "tried": 1, "detail": r, "input": what}, default=str))
        return
    inp = p.get("input") or {}
    three = dict(centers=[[0.2, 0.2], [0.8, 0.8], [0.2, 0.8]], spread=0.03, frac=[1, 1, 1])
    two = dict(centers=[[0.2, 0.2], [0.8, 0.8]], spread=0.03, frac=[1, 1])
    dead_mid = dict(centers=[[0.2, 0.2], [0.8, 0.8], [0.2, 0.8]], spread=0.03, frac=[1, 0, 1])
    dead_last = dict(centers=[[0.2, 0.2], [0.8, 0.8], [0.2, 0.8]], spread=0.03, frac=[1, 1, 0])
    dead_first = dict(centers=[[0.2, 0.2], [0.8, 0.8], [0.2, 0.8]], spread=0.03, frac=[0, 1, 1])
    one_of_two = dict(centers=[[0.2, 0.2], [0.8, 0.8]], spread=0.03, frac=[1, 0])
    other_of_two = dict(centers=[[0.2, 0.2], [0.8, 0.8]], spread=0.03, frac=[0, 1])
    cases = []
    for seed in range(3):
        # fresh clusterer, first annealing iteration off the cadence / on the cadence
        for ce, it in ((1, 3), (2, 3), (3, 4), (5, 7), (2, 4)):
            for cap in (None, 1, 2, 3):
                for norm in (True, False):
                    cases.append((seed, 2, 240, 32, ce, it, cap, norm, None, three, "uniform"))
        # a mode dies between refits (cadence skips the refit)
        for second in (dead_mid, dead_last, dead_first):
            for ce, it in ((2, 3), (4, 5)):
                cases.append((seed, 2, 240, 32, ce, it, None, True, three, second, "uniform"))
        for second in (one_of_two, other_of_two):
            cases.append((seed, 2, 240, 32, 3, 4, None, True, two, second, "uniform"))
        # all modes alive in the pool but only one survives the weight trimming
        cases.append((seed, 2, 240, 32, 2, 3, None, True, two, two, "skewed"))
        cases.append((seed, 2, 240, 32, 1, 3, None, True, None, two, "skewed"))
        # a fixed K-cluster model (nearest of K centres): a cluster at every position of the label range loses all / almost all of
        # its particles between refits, or is trimmed out of the training pool
        four = [[0.2, 0.2], [0.8, 0.8], [0.2, 0.8], [0.8, 0.2]]
        for dead in range(4):
            for few in (0.0, 0.004):
                frac = [1.0] * 4
                frac[dead] = few
                for ce, it in ((2, 3), (1, 3)):
                    cases.append((seed, 2, 400, 32, ce, it, None, "nearest-centre", dict(centers=four, spread=0.03, frac=[1] * 4),
                                  dict(centers=four, spread=0.03, frac=frac), "uniform"))
        cases.append((seed, 2, 400, 32, 2, 3, None, "nearest-centre", dict(centers=four, spread=0.03, frac=[1] * 4),
                      dict(centers=four, spread=0.03, frac=[1] * 4), "skewed"))
        for k in range(4):
            for ce, it in ((2, 3), (1, 3)):
                cases.append((seed, 2, 600, 1024, ce, it, None, "nearest-centre", dict(centers=four, spread=0.03, frac=[1] * 4),
                              dict(centers=four, spread=0.03, frac=[1] * 4), f"tail:{k}"))
    for c in cases:
        tried += 1
        r, what = scenario(*c)
        if r:
            print(json.dumps({"reproduced": True, "tried": tried, "detail": r, "input": what}, default=str))
            return
    r, what = whole_runs()
    tried += 6
    if r:
        print(json.dumps({"reproduced": True, "tried": tried, "detail": r, "input": what}, default=str))
        return
    print(json.dumps({"reproduced": False, "tried": tried, "detail": "no failing pool/cadence in the directed search"}))


main()
