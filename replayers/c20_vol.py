"""Native contract for tools.volume_variation: non-negative and finite, invariant under rescaling of the weights and under
invertible affine maps of the samples on the metric's domain (full-rank weighted covariance), incl. ill-conditioned maps."""
import json, sys, warnings
import numpy as np
from tempest import tools

warnings.simplefilter("ignore")


def c_ok(x, wn):
    xc = x - wn @ x
    return np.linalg.cond(xc.T @ (xc * wn[:, None])) <= 1e3 and len(x) >= 3 * x.shape[1] + 5


def main():
    p = json.load(open(sys.argv[1]))
    rng = np.random.RandomState(int(p.get("seed", 0)))
    tried = 0
    for d in (1, 2, 3, 5):
        for n in (d + 1, 3 * d + 5, 60):
            x = rng.standard_normal((n, d)) @ rng.standard_normal((d, d)) + rng.uniform(-1, 1, d)
            if n >= 3 * d + 5:
                x = rng.standard_normal((n, d)) @ np.linalg.qr(rng.standard_normal((d, d)))[0] + rng.uniform(-1, 1, d)
            for w in (None, rng.uniform(0.1, 1, n), rng.pareto(1.0, n) + 1e-3):
                tried += 1
                v = tools.volume_variation(x, w)
                if not (np.isfinite(v) and v >= 0):
                    print(json.dumps({"reproduced": True, "tried": tried, "detail": f"volume_variation = {v!r} (d={d}, n={n})", "input": {"d": d, "n": n}}))
                    return
                if w is not None and not np.isclose(tools.volume_variation(x, 37.5 * w), v, rtol=1e-9, atol=1e-12):
                    print(json.dumps({"reproduced": True, "tried": tried, "detail": "not invariant under rescaling of the weights", "input": {"d": d, "n": n}}))
                    return
                if w is not None:
                    # rescaling factors next to one (weights normalised in lower precision, read back from text): same metric, also far from the origin
                    wn = w / w.sum()
                    for fac in (1 + 4e-6, 1 - 7e-6, 1 + 1e-9):
                        for off in (0.0, 1e3, 1e6):
                            tried += 1
                            a, b = tools.volume_variation(x + off, wn), tools.volume_variation(x + off, wn * fac)
                            if not np.isclose(a, b, rtol=1e-6 + 1e-9 * (1 + off) ** 2 / max(x.var(), 1e-12) * 2.3e-7, atol=1e-10) and c_ok(x, wn):
                                print(json.dumps({"reproduced": True, "tried": tried, "detail": f"not invariant under rescaling the weights by {fac!r} (samples centred at {off:g}): {a!r} -> {b!r}",
                                                  "input": {"d": d, "n": n, "factor": fac, "offset": off}}))
                                return
                if n < 3 * d + 5:
                    continue
                # affine invariance is stated for maps of condition number up to 1e6: the samples themselves must not add to it,
                # so it is checked on sample sets whose own weighted covariance is well conditioned (<= 10), with a tolerance of
                # 10 * eps * cond(covariance of the mapped samples)
                ww = np.ones(n) / n if w is None else w / w.sum()
                xc = x - ww @ x
                c0 = np.linalg.cond(xc.T @ (xc * ww[:, None]))
                if not c0 <= 10.0:
                    continue
                for cond in (1.0, 1e2, 1e4, 1e6):
                    for scale in (1.0, 1e-3):
                        U, _ = np.linalg.qr(rng.standard_normal((d, d)))
                        V, _ = np.linalg.qr(rng.standard_normal((d, d)))
                        s = np.logspace(0, -np.log10(cond), d) if d > 1 else np.ones(1)
                        A = (U * s) @ V.T * scale
                        y = x @ A + rng.uniform(-3, 3, d)
                        tried += 1
                        v2 = tools.volume_variation(y, w)
                        if not np.isclose(v2, v, rtol=1e-6 + 10 * 2.3e-16 * c0 * cond ** 2, atol=1e-10):
                            print(json.dumps({"reproduced": True, "tried": tried,
                                              "detail": f"metric changes under an invertible affine map (cond={cond:g}, scale={scale:g}): {v!r} -> {v2!r}",
                                              "input": {"d": d, "n": n, "cond": cond, "scale": scale}}))
                            return
    print(json.dumps({"reproduced": False, "tried": tried, "detail": "no failing input in the directed search"}))


main()
