"""Native contract for C03: detailed balance of one mutation step of the real kernels, pair by pair.

For pairs of states (u, u') the two sides  pi(u) q(u->u') alpha(u->u')  and  pi(u') q(u'->u) alpha(u'->u)  are compared, with
  * alpha from the real code: min(1, exp(beta (l'-l) + factor)), factor = real Runner._compute_acceptance_factor;
  * q the law of the real Runner._propose: the draws handed to np.random.gamma / randn are intercepted, which (i) checks the
    gamma shape/scale and the affine form of the proposal against the specification and (ii) licenses the closed form
    q_tpcn(u->.) = multivariate t_{nu+d}(mu + a(u-mu), sigma^2 (nu+delta(u))/(nu+d) Sigma),  q_rwm(u->.) = N(u, sigma^2 Sigma);
  * periodic / reflective coordinates: q is summed over the pre-images of u' (|k| <= 6).
Input {"kernel": ..., "boundary": ...} replays one class; without input the classes that are claimed to hold are searched
(tpcn with periodic/reflective coordinates is the recorded known finding and is only run on request).
"""
import json, sys, itertools, math
import numpy as np
from scipy import stats, special
from tempest.mcmc import TPCNRunner, RWMRunner, apply_boundary_conditions
from tempest.modes import ModeStatistics

BETA = 0.7


def loglike_vals(x):
    return 3.0 * x[..., 0] - 2.0 * x[..., -1]


def make(kernel, d, K, periodic, reflective, rng, diagonal=False, int_dof=False, like=None, n=6):
    means = rng.uniform(0.3, 0.7, (K, d))
    covs = []
    for _ in range(K):
        A = rng.normal(size=(d, d)) * 0.15
        C = A @ A.T + 0.02 * np.eye(d)
        covs.append(np.diag(np.diag(C)) if diagonal else C)
    nus = rng.uniform(2.0, 9.0, K)
    if int_dof:
        # integer-typed degrees of freedom with d + nu odd (the documented type is "array of shape [K]")
        nus = np.array([3 + 2 * (i % 3) + (d % 2) for i in range(K)], dtype=np.int64)
    ms = ModeStatistics(means, np.array(covs), nus)
    u = rng.uniform(0.05, 0.95, (n, d))
    asg = rng.randint(0, K, n)
    cls = TPCNRunner if kernel == "tpcn" else RWMRunner
    ll = like or (lambda x: (loglike_vals(np.atleast_2d(x)), None))
    r = cls(u, u.copy(), loglike_vals(u), None, asg, BETA, ms, ll, lambda v: v, None, n_steps=1, n_max=1,
            periodic=periodic, reflective=reflective, verbose=False)
    r.sigmas = rng.uniform(0.2, 0.8, K) * (1.0 if kernel == "tpcn" else 0.5)
    return r, ms


def steer(z):
    """np.random.randn stand-in: the fixed vector z for a (d,) request, z in every row for an (n, d) request (batched kernels)"""
    z = np.asarray(z, dtype=float)

    def randn(*s):
        if len(s) >= 1 and s[-1] == len(z) and len(s) <= 2:
            return np.broadcast_to(z, s).copy()
        return z.copy()
    return randn


def steer_gamma(g):
    def gamma(shape=None, scale=1.0, size=None, *a, **k):
        n = np.size(shape) if size is None else size
        return float(g) if (size is None and np.ndim(shape) == 0 and np.ndim(scale) == 0) else np.full(np.broadcast(np.asarray(shape), np.asarray(scale)).shape if size is None else size, float(g))
    return gamma


def check_propose(r, ms, kernel, k):
    """the real _propose against its specification, with the draws intercepted"""
    d = r.n_dim
    a = r.assignments[k]
    rec = {}
    og, on = np.random.gamma, np.random.randn
    z = np.linspace(-0.7, 0.9, d)
    g = 1.7

    def gamma(shape=None, scale=1.0, *args, **kw):
        rec["shape"], rec["scale"] = shape, scale
        return g
    np.random.gamma, np.random.randn = gamma, (lambda *s: z.copy())
    try:
        out = r._propose(k)
    finally:
        np.random.gamma, np.random.randn = og, on
    mu, L, sg = ms.means[a], ms.chol_covariances[a], r.sigmas[a]
    diff = r.u[k] - mu
    if kernel == "tpcn":
        delta = diff @ ms.inv_covariances[a] @ diff
        nu = ms.degrees_of_freedom[a]
        if "shape" not in rec:
            # the code does not draw through np.random.gamma (e.g. an equivalent chi-square / inverse-gamma form): the interception
            # says nothing; check the proposal *law* instead
            return law_of_proposal(r, ms, kernel, k)
        if not np.isclose(rec.get("shape", np.nan), (d + nu) / 2):
            return law_of_proposal(r, ms, kernel, k) and f"gamma shape {rec.get('shape')!r}, specification (d+nu_a)/2 = {(d + nu) / 2!r}"
        if not np.isclose(rec.get("scale", np.nan), 2.0 / (nu + delta)):
            return law_of_proposal(r, ms, kernel, k) and f"gamma scale {rec.get('scale')!r}, specification 2/(nu_a+delta) = {2.0 / (nu + delta)!r}"
        want = mu + math.sqrt(1 - sg ** 2) * diff + sg * math.sqrt(1.0 / g) * (L @ z)
    else:
        if "shape" in rec:
            return "RWM proposal draws a gamma variate"
        want = r.u[k] + sg * (L @ z)
    want = apply_boundary_conditions(want, r.periodic, r.reflective)
    if not np.allclose(out, want, rtol=1e-10, atol=1e-12):
        return law_of_proposal(r, ms, kernel, k) and f"_propose({k}) = {out.tolist()}, specification gives {want.tolist()}"
    return None


def law_of_proposal(r, ms, kernel, k, n=6000):
    """Implementation-independent check of the proposal law with the real generator: for walker k (hard boundaries only) the
    proposals v satisfy  (v - loc)^T Shape^{-1} (v - loc) / d ~ F(d, nu + d)  (tpCN: multivariate t with nu + d degrees of freedom,
    loc = mu + sqrt(1 - s^2)(u - mu), Shape = s^2 (nu + delta)/(nu + d) Sigma)  resp. ~ chi2_d / d (RWM).  Returns a message when
    the Kolmogorov-Smirnov statistic is beyond anything a correct sampler produces (p < 1e-6), None otherwise / when not applicable."""
    if r.periodic is not None or r.reflective is not None:
        return None
    d = r.n_dim
    a = r.assignments[k]
    mu, S, sg = ms.means[a], ms.covariances[a], r.sigmas[a]
    u = r.u[k].copy()
    st = np.random.get_state()
    np.random.seed(12345 + k)
    try:
        V = np.array([np.asarray(r._propose(k), dtype=float).copy() for _ in range(n)])
    except Exception as e:
        return f"_propose raised {type(e).__name__}: {e}"
    finally:
        np.random.set_state(st)
    if kernel == "tpcn":
        nu = ms.degrees_of_freedom[a]
        diff = u - mu
        delta = diff @ ms.inv_covariances[a] @ diff
        loc = mu + math.sqrt(1 - sg ** 2) * diff
        shape = sg ** 2 * (nu + delta) / (nu + d) * S
        ref = stats.f(d, nu + d)
    else:
        loc, shape = u, sg ** 2 * S
        ref = stats.chi2(d, scale=1.0 / d)
    W = V - loc
    q = np.einsum("ij,jk,ik->i", W, np.linalg.inv(shape), W) / d
    ks = stats.kstest(q, ref.cdf)
    if ks.pvalue < 1e-6:
        return (f"law of the {kernel} proposal for walker {k}: KS distance {ks.statistic:.4f} (p = {ks.pvalue:.2g}, n = {n}) from the "
                f"specified {'multivariate t' if kernel == 'tpcn' else 'normal'} law")
    m = np.abs(np.linalg.solve(np.linalg.cholesky(shape), W.T).mean(axis=1))
    if (m > 6.0 / math.sqrt(n) * (3.0 if kernel == "tpcn" else 1.0)).any():
        return f"law of the {kernel} proposal for walker {k}: whitened proposals are not centred at the specified location (mean {m.tolist()})"
    return None


def q_density(kernel, ms, r, a, u, v):
    d = len(u)
    mu, S, sg = ms.means[a], ms.covariances[a], r.sigmas[a]
    if kernel == "rwm":
        return stats.multivariate_normal.pdf(v, mean=u, cov=sg ** 2 * S)
    nu = ms.degrees_of_freedom[a]
    diff = u - mu
    delta = diff @ ms.inv_covariances[a] @ diff
    loc = mu + math.sqrt(1 - sg ** 2) * diff
    shape = sg ** 2 * (nu + delta) / (nu + d) * S
    return stats.multivariate_t.pdf(v, loc=loc, shape=shape, df=nu + d)


def preimages(v, periodic, reflective, kmax=6):
    opts = []
    for j, x in enumerate(v):
        if periodic is not None and j in periodic:
            opts.append([x + k for k in range(-kmax, kmax + 1)])
        elif reflective is not None and j in reflective:
            opts.append([s * x + 2 * k for k in range(-kmax, kmax + 1) for s in (1, -1)])
        else:
            opts.append([x])
    return [np.array(p) for p in itertools.product(*opts)]


def alpha(r, kernel, a, u, v):
    """acceptance probability of the move u -> v reported by the real code for a walker with label a"""
    r2 = r
    save = (r2.u.copy(), r2.assignments.copy())
    r2.u[:] = u
    r2.assignments[:] = a
    try:
        f = r2._compute_acceptance_factor(np.tile(v, (r2.n_walkers, 1)), np.zeros(r2.n_walkers))[0]
    finally:
        r2.u[:], r2.assignments[:] = save
    return min(1.0, math.exp(BETA * (loglike_vals(v) - loglike_vals(u)) + f))


def balance(kernel, boundary, seed):
    rng = np.random.RandomState(seed)
    d, K = 2, 2
    periodic = [0] if boundary == "periodic" else None
    reflective = [0] if boundary.startswith("reflective") else None
    r, ms = make(kernel, d, K, periodic, reflective, rng, diagonal=boundary.endswith("diagonal"), int_dof=boundary.endswith("intdof"))
    for k in range(3):
        e = check_propose(r, ms, kernel, k)
        if e:
            return e
    pts = rng.uniform(0.05, 0.95, (5, d))
    for a in range(K):
        for i, j in itertools.combinations(range(len(pts)), 2):
            u, v = pts[i], pts[j]
            quv = sum(q_density(kernel, ms, r, a, u, p) for p in preimages(v, periodic, reflective))
            qvu = sum(q_density(kernel, ms, r, a, v, p) for p in preimages(u, periodic, reflective))
            lhs = math.exp(BETA * loglike_vals(u)) * quv * alpha(r, kernel, a, u, v)
            rhs = math.exp(BETA * loglike_vals(v)) * qvu * alpha(r, kernel, a, v, u)
            if not np.isclose(lhs, rhs, rtol=1e-6, atol=1e-300):
                return (f"detailed balance fails for kernel={kernel}, boundary={boundary}, mode {a}: u={u.round(4).tolist()}, u'={v.round(4).tolist()}: "
                        f"pi(u)q(u->u')alpha = {lhs:.8g} vs pi(u')q(u'->u)alpha = {rhs:.8g}")
    return None


def hard_boundary_rejection():
    """a proposal outside the cube is rejected outright by the real run loop (no redraw)"""
    rng = np.random.RandomState(5)
    r, ms = make("rwm", 2, 1, None, None, rng)
    r.sigmas[:] = 50.0          # almost every proposal leaves the cube
    u0 = r.u.copy()
    calls = {"n": 0}
    on = np.random.randn

    def randn(*s):
        v = on(*s)
        calls["n"] += int(np.size(v))          # numbers drawn, however they are batched
        return v
    np.random.randn = randn
    r._check_convergence = lambda acc: True
    r._adapt_sigma = lambda c, m: None
    try:
        out = r.run()
    finally:
        np.random.randn = on
    if calls["n"] > r.n_walkers * r.n_dim:
        return f"{calls['n']} normal variates drawn for {r.n_walkers} walkers of dimension {r.n_dim} in one step: proposals are redrawn"
    if ((out[0] < 0) | (out[0] > 1)).any():
        return "a walker left the unit cube"
    return None


def whole_move_rejection():
    """a proposal that leaves the cube in ONE coordinate must leave the walker where it is in EVERY coordinate"""
    rng = np.random.RandomState(6)
    for kernel in ("rwm", "tpcn"):
        r, ms = make(kernel, 2, 1, None, None, rng)
        r.u[:] = np.array([0.95, 0.5])
        r.x[:] = r.u
        r.logl[:] = loglike_vals(r.u)
        r.sigmas[:] = 0.5
        L = ms.chol_covariances[0]
        want_inc = np.array([0.4, 0.05])                     # out in coordinate 0, inside in coordinate 1
        z = np.linalg.solve(0.5 * L, want_inc) if kernel == "rwm" else np.linalg.solve(L, want_inc)
        o_randn, o_rand, o_gamma = np.random.randn, np.random.rand, np.random.gamma
        np.random.randn = steer(z)
        np.random.gamma = steer_gamma(4.0)
        np.random.rand = lambda *s: np.zeros(s)                # accept whenever alpha > 0
        r._check_convergence = lambda acc: True
        r._adapt_sigma = lambda c, m: None
        u0 = r.u.copy()
        # the oracle only speaks about walkers whose proposal really left the cube: record what the kernel proposed (the draws above
        # steer the textbook implementation there; an equivalent implementation drawing differently may propose elsewhere)
        proposed = {}
        orig_propose = r._propose

        def spy(k, orig_propose=orig_propose, proposed=proposed):
            v = orig_propose(k)
            proposed[k] = np.array(v, dtype=float, copy=True)
            return v
        r._propose = spy
        try:
            out = r.run()
        finally:
            np.random.randn, np.random.rand, np.random.gamma = o_randn, o_rand, o_gamma
        for j, v in proposed.items():
            left = bool(((v < 0) | (v > 1)).any())
            if left and not np.array_equal(out[0][j], u0[j]):
                return (f"{kernel}: the proposal {v.tolist()} of walker {j} leaves the cube, yet the walker moved from {u0[j].tolist()} to "
                        f"{out[0][j].tolist()}: out-of-cube proposals must be rejected as a whole")
    return None


def law_after_moves():
    """the proposal law must refer to the walker's *current* state also after walkers have moved (iterations >= 2): two
    accept-everything iterations of the real run loop, then the law check of every walker at its new position"""
    for kernel in ("tpcn", "rwm"):
        rng = np.random.RandomState(21)
        r, ms = make(kernel, 2, 1, None, None, rng)
        r.sigmas[:] = 0.6 if kernel == "tpcn" else 0.3
        o_rand = np.random.rand
        np.random.rand = lambda *s: np.zeros(s)
        r._check_convergence = lambda acc: r.iteration >= 2
        r._adapt_sigma = lambda c, m: None
        st = np.random.get_state()
        np.random.seed(99)
        try:
            r.run()
        except Exception as e:
            return f"{kernel}: run raised {type(e).__name__}: {e}"
        finally:
            np.random.rand = o_rand
            np.random.set_state(st)
        for k in range(min(4, r.n_walkers)):
            e = law_of_proposal(r, ms, kernel, k)
            if e:
                return "after two accepted moves: " + e
    return None


def nested_kernels():
    """a kernel whose likelihood itself runs a second kernel of the same ensemble shape (marginalising a nuisance block): the outer
    kernel's returned walkers are still whole records (x = T(u), logl = L(x)) and its moves are its own proposals - nothing of the
    inner kernel's work may leak into the outer iteration"""
    for kernel in ("tpcn", "rwm"):
        rng = np.random.RandomState(31)
        inner_runs = []

        def like(x, kernel=kernel, inner_runs=inner_runs):
            if len(inner_runs) < 40:
                ri, _ = make(kernel, 2, 1, None, None, np.random.RandomState(len(inner_runs)), n=6)
                ri._check_convergence = lambda acc, ri=ri: ri.iteration >= 1
                st_ = np.random.get_state()
                try:
                    ri.run()
                finally:
                    np.random.set_state(st_)
                inner_runs.append(1)
            return (loglike_vals(np.atleast_2d(x)), None)
        r, ms = make(kernel, 2, 1, None, None, rng, like=like, n=6)
        ref, _ = make(kernel, 2, 1, None, None, np.random.RandomState(31), n=6)
        for q in (r, ref):
            q._check_convergence = lambda acc, q=q: q.iteration >= 3
        outs = []
        st = np.random.get_state()
        try:
            for q in (r, ref):
                np.random.seed(77)
                try:
                    outs.append(q.run())
                except Exception as e:
                    return f"{kernel}: run raised {type(e).__name__}: {e}"
        finally:
            np.random.set_state(st)
        if not inner_runs:
            return None
        u, x, ll_ = np.asarray(r.u), np.asarray(r.x), np.asarray(r.logl)
        if not (np.allclose(x, u) and np.allclose(ll_, loglike_vals(x))):
            return (f"{kernel}: after a run whose likelihood runs a second kernel of the same shape, the walkers are not whole records "
                    f"(x != T(u) or logl != L(x)): foreign positions were stored")
        if not (np.array_equal(np.asarray(ref.u), u) and np.array_equal(np.asarray(ref.logl), ll_)):
            return (f"{kernel}: the same seeded run gives different walkers when the likelihood internally runs another kernel of the same shape "
                    f"(random stream restored around it): the inner kernel's work leaked into the outer iteration")
    return None


def mutator_sequence():
    """The mutation *step* across iterations: two consecutive Mutator.run calls at the same temperature with different mode
    statistics (as after a refit).  In the second call every accept / reject decision must be the one the kernel contract gives for
    the statistics of the second call: flat likelihood, hard boundaries, so alpha = min(1, t_nu(u) / t_nu(u')) for tpCN and 1 for
    RWM, observed through the decisions at fixed uniform draws (same proposals each time: generator reseeded)."""
    from tempest.state_manager import StateManager
    from tempest.steps.mutate import Mutator
    d, n = 2, 48
    rng = np.random.RandomState(31)
    st1 = ModeStatistics(np.array([[0.35, 0.4]]), np.array([[[0.02, 0.004], [0.004, 0.01]]]), np.array([4.0]))
    st2 = ModeStatistics(np.array([[0.62, 0.55]]), np.array([[[0.006, -0.003], [-0.003, 0.03]]]), np.array([12.0]))
    u_start = np.clip(0.5 + 0.12 * rng.standard_normal((n, d)), 0.05, 0.95)
    for kernel in ("tpcn", "rwm"):
        for c in (0.15, 0.4, 0.65, 0.9):
            sm = StateManager(d)
            sm.update_current({"u": u_start.copy(), "x": u_start.copy(), "logl": np.zeros(n), "beta": 1.0, "logz": 0.0, "iter": 3, "calls": 0,
                               "assignments": np.zeros(n, dtype=int), "ess": 1.0})
            props = []

            def pt(v, props=props):
                props.append(np.array(v, dtype=float))
                return np.array(v, dtype=float)
            try:
                mu_ = Mutator(sm, pt, lambda X: (np.zeros(len(X)), None), None, n, d, 1, 1, kernel, None, None, False)
                np.random.seed(5)
                mu_.run(st1)
            except Exception:
                return None            # constructor / call signature differs: this probe does not apply
            sm.update_current({"u": u_start.copy(), "x": u_start.copy(), "logl": np.zeros(n), "assignments": np.zeros(n, dtype=int)})
            del props[:]
            saved = {nm: getattr(np.random, nm) for nm in ("rand", "random", "random_sample", "uniform")}
            state_rng = np.random.get_state()
            np.random.seed(6)
            calls_ = {"n": 0}

            def val(c=c, calls_=calls_):
                # the first uniform draw decides the first kernel iteration; every later iteration (the kernel makes at least
                # n_steps * n_dim of them) rejects everything, so the final state shows the decisions of the first iteration
                calls_["n"] += 1
                return c if calls_["n"] == 1 else 2.0
            np.random.rand = lambda *s_: (lambda v: np.full(s_, v) if s_ else v)(val())
            np.random.random = np.random.random_sample = lambda size=None: (lambda v: v if size is None else np.full(size, v))(val())
            np.random.uniform = lambda low=0.0, high=1.0, size=None: (lambda v: (low + (high - low) * v) if size is None else np.full(size, low + (high - low) * v))(val())
            try:
                mu_.run(st2)
            except Exception as e:
                return f"second Mutator.run at the same temperature raised {type(e).__name__}: {e}"
            finally:
                for nm, fn_ in saved.items():
                    setattr(np.random, nm, fn_)
                np.random.set_state(state_rng)
            if len(props) < n:
                return None
            up = np.array(props[:n])
            after = np.asarray(sm.get_current("u"))
            moved = np.any(after != u_start, axis=1)
            inb = np.all((up >= 0) & (up <= 1), axis=1)
            if kernel == "tpcn":
                lt = lambda V: stats.multivariate_t.logpdf(V, loc=st2.means[0], shape=st2.covariances[0], df=st2.degrees_of_freedom[0])
                want = np.minimum(1.0, np.exp(lt(u_start) - lt(up)))
            else:
                want = np.ones(n)
            for j in range(n):
                if abs(want[j] - c) < 1e-6 or np.array_equal(up[j], u_start[j]):
                    continue
                should = bool(inb[j] and c < want[j])
                if bool(moved[j]) != should:
                    return (f"{kernel}: in the second Mutator.run at beta = 1 (new mode statistics) walker {j} was {'accepted' if moved[j] else 'rejected'} at uniform draw "
                            f"{c} although the acceptance probability for the *current* statistics is {float(want[j])!r}: the kernel still uses statistics of the previous call")
    return None


def small_beta_and_recycled_output():
    """(a) the mutation step at a small positive temperature (beta = 2**-14, 3e-5, 9.9e-5: reached by the temperature search for very
    informative likelihoods) is an MCMC move for likelihood**beta: particles come out as accepted proposals or unchanged, never as
    fresh prior draws; (b) a kernel driven by a vectorised likelihood that recycles its output buffer between calls gives the same
    walkers as with a likelihood returning fresh arrays (same seed), and the returned logl is the likelihood at the returned x"""
    from tempest.state_manager import StateManager
    from tempest.steps.mutate import Mutator
    d, n = 2, 40
    rng = np.random.RandomState(41)
    ms = ModeStatistics(np.array([[0.5, 0.5]]), np.array([[[0.0004, 0.0], [0.0, 0.0004]]]), np.array([5.0]))
    u0 = np.clip(0.5 + 0.01 * rng.standard_normal((n, d)), 0.01, 0.99)
    like = lambda X: (-0.5 * np.sum(((np.atleast_2d(X) - 0.5) / 1e-3) ** 2, axis=1), None)
    for kernel in ("tpcn", "rwm"):
        for beta in (2.0 ** -14, 3e-5, 9.9e-5, 1e-3):
            sm = StateManager(d)
            sm.update_current({"u": u0.copy(), "x": u0.copy(), "logl": like(u0)[0], "beta": beta, "logz": -5.0, "iter": 4, "calls": 0,
                               "assignments": np.zeros(n, dtype=int), "ess": 1.0})
            try:
                mu_ = Mutator(sm, lambda v: np.array(v, dtype=float), like, None, n, d, 1, 1, kernel, None, None, False)
            except Exception:
                return None
            st_rng = np.random.get_state()
            np.random.seed(8)
            try:
                mu_.run(ms)
            except Exception as e:
                return f"Mutator.run at beta = {beta!r} raised {type(e).__name__}: {e}"
            finally:
                np.random.set_state(st_rng)
            after = np.asarray(sm.get_current("u"))
            spread = float(np.abs(after - 0.5).max())
            # proposals of this kernel stay within a few proposal widths (0.02 * sigma * heavy tail) of the mode; prior draws fill the unit square
            far = int(np.sum(np.abs(after - 0.5).max(axis=1) > 0.35))
            if far > n // 4:
                return (f"{kernel}: after Mutator.run at beta = {beta!r} {far} of {n} particles lie more than 0.35 from the mode although they started within 0.04 of it and "
                        f"the proposal scale is 0.02: the particles were replaced by prior draws (the step is not an MCMC move for likelihood**beta at this temperature)")
    for kernel in ("tpcn", "rwm"):
        outs = []
        for recycle in (False, True):
            buf = {}

            def lk(X, recycle=recycle, buf=buf):
                X = np.atleast_2d(X)
                v = 3.0 * X[:, 0] - 2.0 * X[:, -1]
                if not recycle:
                    return v, None
                out = buf.setdefault(len(X), np.empty(len(X)))
                out[:] = v
                return out, None
            r, _ = make(kernel, 2, 1, None, None, np.random.RandomState(51), like=lk, n=6)
            r._check_convergence = lambda acc, r=r: r.iteration >= 4
            st_rng = np.random.get_state()
            np.random.seed(9)
            try:
                r.run()
            except Exception as e:
                return f"{kernel}: run with a likelihood that recycles its output buffer raised {type(e).__name__}: {e}"
            finally:
                np.random.set_state(st_rng)
            outs.append((np.array(r.u, copy=True), np.array(r.logl, copy=True), np.array(r.x, copy=True)))
            if not np.allclose(outs[-1][1], 3.0 * outs[-1][2][:, 0] - 2.0 * outs[-1][2][:, -1], rtol=0, atol=1e-12):
                return (f"{kernel}: with a vectorised likelihood that {'recycles its output buffer' if recycle else 'returns fresh arrays'} the returned logl is not the "
                        f"likelihood at the returned x for {int(np.sum(~np.isclose(outs[-1][1], 3.0 * outs[-1][2][:, 0] - 2.0 * outs[-1][2][:, -1])))} walkers")
        if not (np.array_equal(outs[0][0], outs[1][0]) and np.array_equal(outs[0][1], outs[1][1])):
            return f"{kernel}: the same seeded kernel run gives different walkers when the likelihood recycles its output buffer (the runner keeps the user's array as its state)"
    return None


def mode_statistics_consistent():
    rng = np.random.RandomState(8)
    for scale in (1.0, 1e-4, 1e-6):
        A = rng.normal(size=(3, 3)) * scale
        S = A @ A.T + (scale ** 2) * 1e-3 * np.eye(3)
        ms = ModeStatistics(np.zeros((1, 3)), S[None], np.array([5.0]))
        L = ms.chol_covariances[0]
        if not np.allclose(L @ L.T, S, rtol=1e-6, atol=0) or not np.allclose(ms.inv_covariances[0] @ S, np.eye(3), atol=1e-6):
            rel = np.abs(L @ L.T - S).max() / np.abs(S).max()
            return (f"ModeStatistics: chol_covariances and inv_covariances do not describe the same scale matrix at scale {scale:g} "
                    f"(relative error of L L^T: {rel:.3g})")
    return None


def accept_statement():
    """the acceptance probabilities the real run loop computes, against min(1, exp(beta (l'-l) + factor))"""
    rng = np.random.RandomState(9)
    for kernel in ("tpcn", "rwm"):
        r, ms = make(kernel, 2, 2, None, None, rng)
        r.sigmas[:] = 0.05
        seen = {}
        o_nan, o_rand = np.nan_to_num, np.random.rand
        props = []
        pt = r.prior_transform

        def spy_pt(v):
            props.append(np.array(v, dtype=float))
            return pt(v)
        r.prior_transform = spy_pt

        def spy_nan(a, *args, **kw):
            seen["alpha"] = np.array(a, dtype=float)
            return o_nan(a, *args, **kw)
        np.nan_to_num = spy_nan
        np.random.rand = lambda *s: np.full(s, 2.0)       # never accept: the state stays what it was
        r._check_convergence = lambda acc: True
        r._adapt_sigma = lambda c, m: None
        u0, l0 = r.u.copy(), r.logl.copy()
        try:
            r.run()
        finally:
            np.nan_to_num, np.random.rand = o_nan, o_rand
        if len(props) != r.n_walkers:
            continue            # proposals not observable one call per walker (restructured loop): the oracle does not apply
        if "alpha" not in seen:
            # the acceptance vector is not passed through np.nan_to_num: observe the accept/reject *decisions* instead, at a grid
            # of uniform draws c (same proposals each time: generator reseeded, state restored)
            e = accept_decisions(r, kernel, u0, l0)
            if e:
                return e
            continue
        up = np.array(props)
        f = r._compute_acceptance_factor(up, loglike_vals(up))
        want = np.minimum(1.0, np.exp(BETA * (loglike_vals(up) - l0) + f))
        inb = np.all((up >= 0) & (up <= 1), axis=1)
        if not np.allclose(seen["alpha"][inb], want[inb], rtol=1e-9):
            i = int(np.argmax(np.abs(seen["alpha"] - want) * inb))
            return (f"{kernel}: acceptance probability of walker {i} is {seen['alpha'][i]!r}, "
                    f"min(1, exp(beta (l'-l) + factor)) = {want[i]!r} (beta={BETA})")
    return None


def accept_decisions(r, kernel, u0, l0):
    x0 = r.x.copy()
    b0 = None if r.blobs is None else r.blobs.copy()
    sig0, it0, nc0 = r.sigmas.copy(), r.iteration, r.n_calls
    o_rand = np.random.rand
    for c in (0.05, 0.2, 0.35, 0.5, 0.65, 0.8, 0.95):
        r.u[:], r.x[:], r.logl[:] = u0, x0, l0
        r.sigmas[:], r.iteration, r.n_calls = sig0, it0, nc0
        props = []
        pt = r.prior_transform

        def spy_pt(v, pt=pt, props=props):
            props.append(np.array(v, dtype=float))
            return pt(v)
        r.prior_transform = spy_pt
        st = np.random.get_state()
        np.random.seed(4242)
        saved = {nm: getattr(np.random, nm) for nm in ("rand", "random", "random_sample", "uniform")}
        np.random.rand = lambda *s, c=c: np.full(s, c) if s else c
        np.random.random = np.random.random_sample = lambda size=None, c=c: c if size is None else np.full(size, c)
        np.random.uniform = lambda low=0.0, high=1.0, size=None, c=c: (low + (high - low) * c) if size is None else np.full(size, low + (high - low) * c)
        try:
            r.run()
        finally:
            for nm, fn_ in saved.items():
                setattr(np.random, nm, fn_)
            np.random.set_state(st)
            r.prior_transform = pt
        if len(props) < r.n_walkers:
            return None
        up = np.array(props[:r.n_walkers])
        moved = np.any(r.u != u0, axis=1)
        r.u[:] = u0
        f = r._compute_acceptance_factor(up, loglike_vals(up))
        want = np.minimum(1.0, np.exp(BETA * (loglike_vals(up) - l0) + f))
        inb = np.all((up >= 0) & (up <= 1), axis=1)
        for j in range(r.n_walkers):
            if abs(want[j] - c) < 1e-6 or np.array_equal(up[j], u0[j]):
                continue
            should = bool(inb[j] and c < want[j])
            if bool(moved[j]) != should:
                return (f"{kernel}: walker {j} was {'accepted' if moved[j] else 'rejected'} at uniform draw {c} although "
                        f"min(1, exp(beta (l'-l) + factor)) = {want[j]!r} (in cube: {bool(inb[j])})")
    return None


def sigma_range():
    rng = np.random.RandomState(2)
    r, ms = make("tpcn", 2, 2, None, None, rng)
    r.sigmas = r._initialize_sigmas()
    for it in range(5):
        r.iteration = it
        for c in range(2):
            r._adapt_sigma(c, 1.0)
            if not (0 <= r.sigmas[c] < 1):
                return f"tpCN step size sigma[{c}] = {r.sigmas[c]!r} after adaptation: sqrt(1 - sigma^2) is undefined (n_dim=2, sigma_0={r.sigma_0:.4f})"
    return None


def wiring():
    """parallel_mcmc(..., periodic=[0]) must wrap coordinate 0 (and reflective=[0] must reflect it)"""
    from tempest.mcmc import parallel_mcmc
    rng = np.random.RandomState(4)
    for sample in ("rwm", "tpcn"):
        for kind in ("periodic", "reflective"):
            d = 2
            ms = ModeStatistics(np.full((1, d), 0.5), (0.04 * np.eye(d))[None], np.array([5.0]))
            u = np.array([[0.9, 0.5], [0.85, 0.4]])
            props = []

            def pt(v):
                props.append(np.array(v, dtype=float))
                return v
            o_randn, o_gamma = np.random.randn, np.random.gamma
            np.random.randn = steer([1.0, 0.0])
            np.random.gamma = steer_gamma(1.0)
            st_w = np.random.get_state()
            np.random.seed(777)          # any other variate the kernel draws (e.g. a chi-square instead of a gamma) is the same in both runs
            try:
                parallel_mcmc(u=u, x=u.copy(), logl=np.zeros(2), blobs=None, assignments=np.zeros(2, dtype=int), beta=1.0, mode_stats=ms,
                              log_likelihood=lambda x: (np.zeros(len(x)), None), prior_transform=pt, progress_bar=None, n_steps=0, n_max=0,
                              sample=sample, periodic=np.array([0]) if kind == "periodic" else None,
                              reflective=np.array([0]) if kind == "reflective" else None, verbose=False)
            finally:
                np.random.randn, np.random.gamma = o_randn, o_gamma
            if len(props) < 2:
                return f"{sample}/{kind}: proposals not observed"
            # pre-fold first coordinate exceeds 1 for walker 0: 0.9 + positive step
            got = props[0][0]
            r0, _ = (RWMRunner if sample == "rwm" else TPCNRunner), None
            rr = r0(u, u.copy(), np.zeros(2), None, np.zeros(2, dtype=int), 1.0, ms, lambda x: (np.zeros(len(x)), None), lambda v: v, None, 0, 0,
                    None, None, False)
            np.random.randn = steer([1.0, 0.0])
            np.random.gamma = steer_gamma(1.0)
            np.random.seed(777)
            try:
                raw = rr._propose(0)[0]
            finally:
                np.random.randn, np.random.gamma = o_randn, o_gamma
                np.random.set_state(st_w)
            if not raw > 1.0:
                continue
            want = raw % 1.0 if kind == "periodic" else (2.0 - raw if raw < 2 else None)
            if want is not None and not np.isclose(got, want, atol=1e-12):
                return (f"parallel_mcmc(sample={sample!r}, {kind}=[0]): proposal coordinate 0 is {got!r} for an unfolded value {raw!r}; "
                        f"the {kind} fold gives {want!r}")
    return None


def main():
    p = json.load(open(sys.argv[1]))
    inp = p.get("input") or {}
    tried = 0
    if inp.get("kernel"):
        classes = [(inp["kernel"], inp.get("boundary", "hard"))]
    else:
        # known findings (run only on request): tpcn with periodic/reflective coordinates; rwm with a reflective coordinate and a
        # correlated scale matrix
        classes = [("tpcn", "hard"), ("rwm", "hard"), ("rwm", "periodic"), ("rwm", "reflective-diagonal"), ("tpcn", "hard-intdof")]
    for kernel, boundary in classes:
        for seed in range(3):
            tried += 1
            try:
                e = balance(kernel, boundary, seed)
            except Exception as ex:
                e = f"{type(ex).__name__}: {ex}"
            if e:
                print(json.dumps({"reproduced": True, "tried": tried, "detail": e, "input": {"kernel": kernel, "boundary": boundary, "seed": seed}}))
                return
    if not inp.get("kernel"):
        for name, fn in (("rejection", hard_boundary_rejection), ("whole-move-rejection", whole_move_rejection),
                         ("mode-statistics", mode_statistics_consistent), ("law-after-moves", law_after_moves), ("nested-kernels", nested_kernels), ("small-beta / recycled-output", small_beta_and_recycled_output), ("mutator-sequence", mutator_sequence), ("accept-statement", accept_statement), ("sigma-range", sigma_range),
                         ("wiring", wiring)):
            tried += 1
            try:
                e = fn()
            except Exception as ex:
                e = f"{name}: {type(ex).__name__}: {ex}"
            if e:
                print(json.dumps({"reproduced": True, "tried": tried, "detail": e, "input": {"case": name}}))
                return
    print(json.dumps({"reproduced": False, "tried": tried, "detail": "detailed balance holds on the searched pairs"}))


main()
