"""Native contract for C05 on the real Reweighter / Sampler (bounded directed search; replays failing obligations).

Oracle (independent of the Reweighter): the pool's log-weights at a temperature come from StateManager.compute_logw_and_logz
(C04's contract), ESS(beta) = (sum w)^2 / sum w^2 evaluated on max-normalised weights, the ESS-limited temperature is the largest
beta on a fine grid + bisection with ESS(beta) >= target.

Per Reweighter.run() on a synthetic or reachable history, with beta_prev the temperature before the call:
  bounds        0 <= beta <= 1, beta >= beta_prev, first iteration beta = 0
  ess floor     ESS mode: if beta > beta_prev then ESS_pool(beta) >= target (relative tolerance of the search, 1 %)
  ess limit     dynamic mode: beta <= ESS-limited temperature (+ the search tolerance in beta)
  coherence     recorded beta / logz / ess and the returned weights refer to the same temperature:
                weights == normalised W(beta_recorded), logz == logZ(beta_recorded), ess == ESS_pool(beta_recorded)
"""
import json, sys, warnings, os, tempfile, shutil, atexit
import numpy as np
from tempest.state_manager import StateManager
from tempest.steps.reweight import Reweighter
import tempest

warnings.simplefilter("ignore")
BASE = tempfile.mkdtemp(prefix="c05_")
atexit.register(shutil.rmtree, BASE, True)


def pool_weights(st, beta, dtype=np.longdouble):
    """independent evaluation (long double) of the pool's normalised balance-heuristic weights and log-evidence at `beta`, from the
    raw stored history — not through the library's own compute_logw_and_logz"""
    ls = [np.asarray(a, dtype=dtype) for a in st._history["logl"]]
    bt = np.asarray(st._history["beta"], dtype=dtype)
    zs = np.asarray(st._history["logz"], dtype=dtype)
    n = np.array([len(a) for a in ls], dtype=dtype)
    l = np.concatenate(ls)
    comp = l[:, None] * bt[None, :] - zs[None, :] + np.log(n / n.sum())[None, :]
    mx = comp.max(axis=1)
    lmix = mx + np.log(np.exp(comp - mx[:, None]).sum(axis=1))
    u = dtype(beta) * l - lmix
    m = u.max()
    L = m + np.log(np.exp(u - m).sum())
    w = np.exp(u - L)
    return np.asarray(w / w.sum(), dtype=float), float(L - np.log(n.sum()))


def ess_of(w):
    w = w / w.max()
    return w.sum() ** 2 / (w ** 2).sum()


def ess_limit(st, beta_prev, target):
    """largest beta in [beta_prev, 1] with ESS_pool >= target (the ESS is not assumed monotone: first crossing from below)"""
    grid = np.unique(np.concatenate([np.linspace(beta_prev, 1.0, 80), beta_prev + (1 - beta_prev) * np.logspace(-8, 0, 60)]))
    if ess_of(pool_weights(st, beta_prev, np.float64)[0]) < target:
        return beta_prev
    last = beta_prev
    for b in grid[1:]:
        if ess_of(pool_weights(st, b, np.float64)[0]) >= target:
            last = b
        else:
            lo, hi = last, b
            for _ in range(45):
                mid = 0.5 * (lo + hi)
                if ess_of(pool_weights(st, mid, np.float64)[0]) >= target:
                    lo = mid
                else:
                    hi = mid
            return lo
    return 1.0


def fill(d, batches, beta_cur, it, ldtype=float):
    st = StateManager(d)
    for (beta, logz, u, logl) in batches:
        n = len(logl)
        st.update_current({"u": u, "x": u.copy(), "logl": np.asarray(logl, ldtype), "beta": float(beta), "logz": float(logz),
                           "iter": it, "calls": 0, "ess": 1.0, "assignments": np.zeros(n, dtype=int)})
        st.commit_current_to_history()
    st.set_current("beta", float(beta_cur))
    st.set_current("iter", it)
    return st


def check_step(st, rw, beta_prev, dynamic, what, runner=None):
    target = rw.ess_ratio * rw.n_particles
    hist_len = st.get_history_length()
    try:
        w = runner() if runner is not None else rw.run()
    except Exception as e:
        return f"Reweighter.run raised {type(e).__name__}: {e}"
    beta, logz, ess = st.get_current("beta"), st.get_current("logz"), st.get_current("ess")
    if hist_len == 0:
        if beta != 0.0:
            return f"first iteration recorded beta = {beta!r}, not 0"
        return None
    if not (0.0 <= beta <= 1.0):
        return f"beta = {beta!r} outside [0, 1]"
    if beta < beta_prev - 1e-15:
        return f"beta decreased: {beta_prev!r} -> {beta!r}"
    wt, lz = pool_weights(st, beta)
    if len(w) != len(wt):
        return f"{len(w)} weights returned for a pool of {len(wt)}"
    if abs(np.sum(w) - 1) > 1e-9 or np.abs(w - wt).max() > 1e-9 * max(1.0, wt.max()) + 1e-12:
        bb = np.linspace(0, 1, 2001)
        best = bb[int(np.argmin([np.abs(w - pool_weights(st, b)[0]).max() for b in bb[::20]])) * 20]
        return (f"the returned weights are not the pool's normalised weights at the recorded beta = {beta:.8g} "
                f"(max deviation {np.abs(w - wt).max():.3g}; they look like the weights at beta ~ {best:.4g})")
    if not np.isclose(logz, lz, rtol=1e-9, atol=1e-9):
        return f"recorded logz = {logz!r} but the pool's log-evidence at the recorded beta = {beta:.8g} is {lz!r}"
    e_true = ess_of(wt)
    if not np.isclose(ess, e_true, rtol=1e-6):
        return f"recorded ess = {ess!r} but the pool's ESS at the recorded beta = {beta:.8g} is {e_true!r}"
    lim = ess_limit(st, beta_prev, target)
    if not dynamic:
        if beta > beta_prev and e_true < target * (1 - rw.ESS_TOLERANCE) - 1e-9:
            return f"advanced to beta = {beta:.8g} where the pool's ESS is {e_true:.6g} < target {target:.6g}"
    if beta > lim + 2 * rw.BETA_TOLERANCE * max(1.0, lim) + 1e-12 and e_true < target * (1 - rw.ESS_TOLERANCE):
        return (f"beta = {beta:.8g} lies beyond the ESS-limited temperature {lim:.8g} (pool ESS {e_true:.6g}, target {target:.6g}"
                f"{', volume-variation mode' if dynamic else ''})")
    return None


def coherence(st, w, beta_prev, target, tol, dynamic):
    """the objects the run itself uses (not a snapshot): returned weights, recorded logz / ess belong to the recorded beta of the
    history now stored, and an advance in ESS mode keeps the pool's ESS at the target"""
    beta, logz, ess = st.get_current("beta"), st.get_current("logz"), st.get_current("ess")
    wt, lz = pool_weights(st, beta)
    w = np.asarray(w, dtype=float)
    if len(w) != len(wt) or np.abs(w - wt).max() > 1e-9 * max(1.0, wt.max()) + 1e-12:
        return (f"the weights returned by the sampler's own Reweighter are not the normalised weights of the stored pool at the recorded "
                f"beta = {beta:.8g} (max deviation {np.abs(w - wt).max() if len(w) == len(wt) else float('nan'):.3g})")
    if not np.isclose(logz, lz, rtol=1e-9, atol=1e-9):
        return f"recorded logz = {logz!r} but the stored pool's log-evidence at the recorded beta = {beta:.8g} is {lz!r}"
    if not np.isclose(ess, ess_of(wt), rtol=1e-6):
        return f"recorded ess = {ess!r} but the stored pool's ESS at the recorded beta = {beta:.8g} is {ess_of(wt)!r}"
    if not dynamic and beta > beta_prev and ess_of(wt) < target * (1 - tol) - 1e-9:
        return f"advanced to beta = {beta:.8g} where the stored pool's ESS is {ess_of(wt):.6g} < target {target:.6g}"
    return None


def dtype_cases(seed):
    """log-likelihood histories stored with a non-float64 dtype (a vectorised likelihood may return integer or float32 arrays; the
    library stores what it is given): the contract is the same, evaluated on the stored values"""
    rng = np.random.RandomState(seed + 41)
    for d, n_part, ratio in ((1, 32, 1.0), (2, 64, 2.0), (3, 16, 3.0)):
        for path in ([0.0, 0.0], [0.0, 0.0, 0.1, 0.35], [0.0, 0.3, 0.8]):
            for ldtype in (np.int64, np.int32):
                batches = []
                for t, b in enumerate(path):
                    u = rng.uniform(0.05, 0.95, (n_part, d))
                    logl = np.round(-rng.gamma(2.0, 3.0 / (1 + 2 * b), n_part)).astype(ldtype)
                    lz = 0.0
                    if batches:
                        lz = pool_weights(fill(d, batches, batches[-1][0], t), b)[1]
                    batches.append((b, lz, u, logl))
                yield dict(d=d, n_part=n_part, ratio=ratio, path=path, logl_dtype=np.dtype(ldtype).name), batches, ldtype


def refill_cases(seed):
    """one StateManager + Reweighter pair serves a history, then the state is refilled (update_from_dict) with a different history of
    at least the same length: the next run() depends only on what is stored now"""
    rng = np.random.RandomState(seed + 43)
    for d, n_part, ratio, dyn in ((1, 32, 1.0, None), (2, 32, 2.0, None), (2, 48, 1.0, 0.5)):
        for n_a, n_b in ((3, 3), (3, 5), (4, 4)):
            pa = list(np.r_[0.0, np.sort(rng.uniform(0, 0.6, n_a - 1))])
            pb = list(np.r_[0.0, np.sort(rng.uniform(0, 0.6, n_b - 1))])
            a = synthetic(rng, d, n_part, n_a, 4.0, 0.0, pa)
            b = synthetic(rng, d, n_part, n_b, 25.0, -3.0, pb)
            yield dict(d=d, n_part=n_part, ratio=ratio, volume_variation=dyn, first_path=pa, second_path=pb), a, b


def synthetic(rng, d, n_part, n_iter, scale, offset, beta_path):
    """a reachable-looking history: batches drawn from tempered Gaussians, logz by the library's own estimator"""
    batches = []
    st = StateManager(d)
    for t in range(n_iter):
        b = beta_path[t]
        s = 1.0 / np.sqrt(1.0 + b * scale)
        u = np.clip(0.5 + 0.15 * s * rng.standard_normal((n_part, d)), 1e-6, 1 - 1e-6)
        logl = -0.5 * scale * np.sum(((u - 0.5) / 0.15) ** 2, axis=1) + offset
        lz = 0.0
        if batches:
            tmp = fill(d, batches, batches[-1][0], t)
            lz = tmp.compute_logw_and_logz(b)[1]
        batches.append((b, lz, u, logl))
    return batches


def cases(seed):
    rng = np.random.RandomState(seed)
    out = []
    for d in (1, 3):
        for n_part, ratio in ((32, 1.0), (64, 2.0), (16, 3.0), (15, 1.5), (13, 2.6)):
            for scale in (0.5, 4.0, 40.0, 4000.0):
                for offset in (0.0, -2e5):
                    for path in ([0.0], [0.0, 0.0, 0.0], [0.0, 0.0, 0.05, 0.3], [0.0, 0.2, 0.9], [0.0, 0.5, 0.9995], [0.0, 0.4, 0.99995], [0.0, 0.3]):
                        out.append(dict(d=d, n_part=n_part, ratio=ratio, scale=scale, offset=offset, path=path))
    return out, rng


def near_one_case():
    """pools whose ESS crosses the target at 1 - 3e-5 (the likelihood sharpness k is solved for by bisection): the recorded
    temperature must still be the one the weights belong to, and the ESS floor must hold at the recorded temperature"""
    d, n = 1, 32
    for seed in (5, 6):
        rng = np.random.RandomState(seed)
        u = np.clip(0.5 + 0.1 * rng.standard_normal((3 * n, d)), 1e-6, 1 - 1e-6)
        base = -0.5 * np.sum(((u - 0.5) / 0.1) ** 2, axis=1)
        for off in (0.0, -2e5):
            def pool(k):
                logl = k * base + off
                return fill(d, [(0.0, 0.0, u[i * n:(i + 1) * n], logl[i * n:(i + 1) * n]) for i in range(3)], 0.0, 3)
            f = lambda k: ess_of(pool_weights(pool(k), 1 - 3e-5)[0]) - 1.0 * n
            lo, hi = 1e-3, 50.0
            if not (f(lo) > 0 > f(hi)):
                continue
            for _ in range(80):
                mid = 0.5 * (lo + hi)
                lo, hi = (mid, hi) if f(mid) > 0 else (lo, mid)
            yield dict(kind="ess-limit at 1 - 3e-5", k=float(lo), offset=off, seed=seed), pool(lo), n


def main():
    p = json.load(open(sys.argv[1]))
    seed = int(p.get("seed", 0))
    tried = 0
    cs, rng = cases(seed)
    for c in cs:
        batches = synthetic(rng, c["d"], c["n_part"], len(c["path"]), c["scale"], c["offset"], c["path"])
        for dyn in (None, 0.5, 0.05):
            st = fill(c["d"], batches, c["path"][-1], len(c["path"]))
            rw = Reweighter(st, None, n_particles=c["n_part"], ess_ratio=c["ratio"], volume_variation=dyn)
            tried += 1
            r = check_step(st, rw, c["path"][-1], dyn is not None, c)
            if r:
                print(json.dumps({"reproduced": True, "tried": tried, "detail": r, "input": dict(c, volume_variation=dyn)}))
                return
    for what, st, n in near_one_case():
        for dyn in (None, 0.5):
            st2 = StateManager.from_dict(st.to_dict()) if hasattr(StateManager, "from_dict") else st
            st2.set_current("beta", 0.0)
            st2.set_current("iter", 3)
            rw = Reweighter(st2, None, n_particles=n, ess_ratio=1.0, volume_variation=dyn)
            tried += 1
            r = check_step(st2, rw, 0.0, dyn is not None, what)
            if r:
                print(json.dumps({"reproduced": True, "tried": tried, "detail": r, "input": dict(what, volume_variation=dyn)}))
                return
    # a long history (N*T above 2**22, N not a multiple of any power-of-two block): weights / logz / ess of one Reweighter.run() against
    # the independent evaluation (one evaluation only: the full ESS-limit search is too expensive at this size)
    rl = np.random.RandomState(seed + 61)
    T, n = 70, 1021
    st = StateManager(1)
    betas = np.r_[0.0, 0.0, np.sort(rl.uniform(0, 0.5, T - 2))]
    for t in range(T):
        u = rl.uniform(0.05, 0.95, (n, 1))
        st.update_current({"u": u, "x": u.copy(), "logl": -rl.gamma(2.0, 2.0 / (1 + 3 * betas[t]), n), "beta": float(betas[t]), "logz": float(-0.3 * betas[t] + 0.01 * rl.randn()),
                           "iter": t, "calls": 0, "ess": 1.0, "assignments": np.zeros(n, dtype=int)})
        st.commit_current_to_history()
    st.set_current("beta", float(betas[-1]))
    st.set_current("iter", T)
    rw = Reweighter(st, None, n_particles=n, ess_ratio=2.0, volume_variation=None)
    tried += 1
    try:
        wl = rw.run()
        r = coherence(st, wl, float(betas[-1]), 2.0 * n, rw.ESS_TOLERANCE, False)
    except Exception as e:
        r = f"Reweighter.run raised {type(e).__name__}: {e}"
    if r:
        print(json.dumps({"reproduced": True, "tried": tried, "detail": f"long history (T={T}, N={T * n}, N*T={T * T * n}): {r}", "input": {"T": T, "n": n, "seed": seed + 61}}))
        return
    for what, batches, ldtype in dtype_cases(seed):
        for dyn in (None, 0.5):
            st = fill(what["d"], batches, what["path"][-1], len(what["path"]), ldtype=ldtype)
            rw = Reweighter(st, None, n_particles=what["n_part"], ess_ratio=what["ratio"], volume_variation=dyn)
            tried += 1
            r = check_step(st, rw, what["path"][-1], dyn is not None, what)
            if r:
                print(json.dumps({"reproduced": True, "tried": tried, "detail": f"log-likelihoods stored as {what['logl_dtype']}: {r}",
                                  "input": dict(what, volume_variation=dyn)}))
                return
    for what, a, b in refill_cases(seed):
        st = fill(what["d"], a, what["first_path"][-1], len(a))
        rw = Reweighter(st, None, n_particles=what["n_part"], ess_ratio=what["ratio"], volume_variation=what["volume_variation"])
        tried += 1
        r = check_step(st, rw, what["first_path"][-1], what["volume_variation"] is not None, what)
        if not r:
            st.commit_current_to_history() if False else None
            other = fill(what["d"], b, what["second_path"][-1], len(b))
            st.update_from_dict(other.to_dict())
            r = check_step(st, rw, what["second_path"][-1], what["volume_variation"] is not None, what)
            if r:
                r = "after the state was refilled with another history (update_from_dict): " + r
        if r:
            print(json.dumps({"reproduced": True, "tried": tried, "detail": r, "input": what}))
            return
    # whole schedules under an ideal (exact) mutation kernel on a sharply peaked problem: the prior density of l = logL is
    # proportional to exp(-l) on [-L, 0], so the tempered law p_beta(l) ~ exp(-(1-beta) l) is sampled exactly; the library's own
    # Reweighter picks every temperature.  The schedule creeps into the last BETA_TOLERANCE below 1 with ESS(1) below target.
    for L, n_part, ratio, dyn in ((2e5, 64, 2.0, None), (2e5, 32, 1.0, None), (300.0, 32, 2.0, None), (2e5, 64, 2.0, 0.5)):
        r5 = np.random.RandomState(seed + 17)
        st = StateManager(1)
        st.update_current({"iter": 0, "beta": 0.0, "logz": 0.0, "calls": 0})
        rw = Reweighter(st, None, n_particles=n_part, ess_ratio=ratio, volume_variation=dyn)
        bp = 0.0
        for it in range(45):
            tried += 1
            r = check_step(st, rw, bp, dyn is not None, "ideal kernel")
            if r:
                print(json.dumps({"reproduced": True, "tried": tried, "detail": f"iteration {it + 1} of an exact-kernel schedule (L={L:g}): {r}",
                                  "input": {"L": L, "n_particles": n_part, "ess_ratio": ratio, "volume_variation": dyn, "seed": seed + 17}}))
                return
            bp = float(st.get_current("beta"))
            rate = 1.0 - bp
            v = r5.random_sample(n_part)
            y = v * L if rate * L < 1e-12 else -np.log1p(-v * (1.0 - np.exp(-rate * L))) / rate
            u = r5.uniform(0.05, 0.95, (n_part, 1))
            st.update_current({"u": u, "x": u.copy(), "logl": y - L, "assignments": np.zeros(n_part, dtype=int), "calls": 0})
            st.commit_current_to_history()
            if 1.0 - bp < 1e-12:
                break
    # reachable histories: audit every Reweighter.run() of seeded sampler runs
    cwd = os.getcwd()
    os.chdir(BASE)
    try:
        for kw in (dict(), dict(volume_variation=0.5, n_particles=64), dict(sample="rwm", resample="syst", clustering=False, ess_ratio=3.0),
                   dict(volume_variation=0.1, n_particles=32)):
            found = []
            orig = Reweighter.run

            def audited(self, orig=orig, found=found):
                bp = self.state.get_current("beta")
                hl = self.state.get_history_length()
                snap = StateManager.from_dict(self.state.to_dict())
                rw2 = Reweighter(snap, None, n_particles=self.n_particles, ess_ratio=self.ess_ratio, volume_variation=self.volume_variation)
                r = check_step(snap, rw2, bp if hl else 0.0, self.volume_variation is not None, "seeded run", runner=lambda: orig(rw2)) if not found else None
                if r:
                    found.append((self.state.get_current("iter"), r))
                res = orig(self)
                if not found and hl:
                    r = coherence(self.state, res, bp, self.ess_ratio * self.n_particles, self.ESS_TOLERANCE, self.volume_variation is not None)
                    if r:
                        found.append((self.state.get_current("iter"), r))
                return res
            Reweighter.run = audited
            from tempest.steps.resample import Resampler as _RS
            from tempest.steps.train import Trainer as _TR
            o_rs, o_tr = _RS.run, _TR.run

            def handed(kind, orig_step, found=found):
                def step(self, weights, *a, **k):
                    if not found and self.state.get_history_length() > 0:
                        wt, _ = pool_weights(self.state, self.state.get_current("beta"))
                        w = np.asarray(weights, dtype=float)
                        if len(w) != len(wt) or np.abs(w / w.sum() - wt).max() > 1e-9 * max(1.0, wt.max()) + 1e-12:
                            nz = int(((w == 0) & (wt > 0)).sum()) if len(w) == len(wt) else -1
                            found.append((self.state.get_current("iter"),
                                          f"the weights handed to the {kind} step are not the pool's weights at the recorded beta = "
                                          f"{self.state.get_current('beta'):.6g}" + (f" ({nz} pool members with positive weight were handed weight 0)" if nz > 0 else "")))
                    return orig_step(self, weights, *a, **k)
                return step
            _TR.run, _RS.run = handed("training", o_tr), handed("resampling", o_rs)
            try:
                np.random.seed(seed + 3)
                s = tempest.Sampler(lambda u: 10 * u - 5, lambda x: -0.5 * float(np.sum((x - 1.0) ** 2) / 0.2), n_dim=2, random_state=seed + 3,
                                    output_dir=tempfile.mkdtemp(dir=BASE), **kw)
                s.run(n_total=128, progress=False)
            except Exception as e:
                found.append((-1, f"seeded run raised {type(e).__name__}: {e}"))
            finally:
                Reweighter.run = orig
                _TR.run, _RS.run = o_tr, o_rs
            tried += 1
            if found:
                print(json.dumps({"reproduced": True, "tried": tried, "detail": f"iteration {found[0][0]}: {found[0][1]}", "input": {"sampler_options": kw, "seed": seed + 3}}, default=str))
                return
            beta = np.asarray(s.state.get_history("beta"))
            if beta[0] != 0.0 or np.any(np.diff(beta) < -1e-15) or beta.max() > 1.0:
                print(json.dumps({"reproduced": True, "tried": tried, "detail": f"recorded schedule {beta.tolist()} does not start at 0 / is not monotone / exceeds 1",
                                  "input": {"sampler_options": kw}}, default=str))
                return
    finally:
        os.chdir(cwd)
    print(json.dumps({"reproduced": False, "tried": tried, "detail": "schedule contract held on all synthetic and reachable histories tried"}))


main()
