"""Native runtime contract for C11 (bounded): likelihood zero on part of the prior; no -inf stored, recorded
evidence of every prior-sampling iteration equals log(finite fraction of that batch), final evidence near truth."""
import json, sys, itertools
import numpy as np
from tempest import Sampler


def run(f, ess_ratio, n, seed, vectorize=False):
    def pt(u):
        return u
    cnt = {"fin": [], "cur": None}

    def ll(x):
        return -np.inf if x[0] >= f else -0.5 * np.sum((x - 0.3 * f) ** 2) / 0.05 ** 2

    def llv(X):
        out = -0.5 * np.sum((X - 0.3 * f) ** 2, axis=1) / 0.05 ** 2
        out[X[:, 0] >= f] = -np.inf
        return out
    orig = np.random.rand
    fracs = []

    def rand(*a):
        r = orig(*a)
        if len(a) == 2:
            fracs.append(float(np.mean(r[:, 0] < f)))
        return r
    np.random.rand = rand
    try:
        s = Sampler(pt, llv if vectorize else ll, n_dim=2, n_particles=n, ess_ratio=ess_ratio, random_state=seed, vectorize=vectorize)
        s.run(n_total=2 * n, progress=False)
    finally:
        np.random.rand = orig
    beta = s.state.get_history("beta")
    logz = s.state.get_history("logz")
    for t in range(len(beta)):
        if np.any(np.isinf(s.state.get_history("logl", index=t))):
            return f"-inf particle stored in batch {t}"
    k = 0
    for t in range(len(beta)):
        if beta[t] == 0.0:
            fr = fracs[k]
            k += 1
            if fr < 1.0 and abs(logz[t] - np.log(fr)) > 1e-9:
                return f"warm-up iteration {t}: recorded logz {logz[t]:.6f} but log(finite fraction of the batch) = {np.log(fr):.6f}"
    truth = np.log(2 * np.pi * 0.05 ** 2)
    if abs(s.evidence()[0] - truth) > 1.0:
        return f"final logZ {s.evidence()[0]:.3f} far from the integral over the supported region {truth:.3f}"
    return None


def main():
    tried = 0
    for f, er, n, seed, vec in itertools.product((0.5, 0.25, 0.9), (0.5, 2.0, 4.0), (200,), (0, 1), (False, True)):
        tried += 1
        try:
            r = run(f, er, n, seed, vec)
        except Exception as e:
            r = f"{type(e).__name__}: {e}"
        if r:
            print(json.dumps({"reproduced": True, "detail": r, "input": {"f": f, "ess_ratio": er, "n_particles": n, "seed": seed, "vectorize": vec}, "tried": tried}))
            return
    print(json.dumps({"reproduced": False, "tried": tried, "detail": "native contract held"}))


main()
