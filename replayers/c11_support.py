"""Native runtime contract for C11 (bounded): likelihood zero on part of the prior; no -inf stored, recorded
evidence of every prior-sampling iteration equals log(finite fraction of that batch), final evidence near truth."""
import json, sys, itertools
import numpy as np
from tempest import Sampler


def run(f, ess_ratio, n, seed, vectorize=False, out_dtype=None):
    def pt(u):
        return u
    cnt = {"fin": [], "cur": None}

    def ll(x):
        return -np.inf if x[0] >= f else -0.5 * np.sum((x - 0.3 * f) ** 2) / 0.05 ** 2

    def llv(X):
        out = -0.5 * np.sum((X - 0.3 * f) ** 2, axis=1) / 0.05 ** 2
        out[X[:, 0] >= f] = -np.inf
        return out if out_dtype is None else out.astype(out_dtype)
    orig = np.random.rand
    fracs = []

    def rand(*a):
        r = orig(*a)
        if len(a) == 2:
            fracs.append(float(np.mean(r[:, 0] < f)))
        return r
    np.random.rand = rand
    try:
        s = Sampler(pt, llv if vectorize else ll, n_dim=2, n_particles=n, ess_ratio=ess_ratio, random_state=seed, vectorize=vectorize)
        s.run(n_total=2 * n, progress=False)
    finally:
        np.random.rand = orig
    beta = s.state.get_history("beta")
    logz = s.state.get_history("logz")
    for t in range(len(beta)):
        if np.any(np.isinf(s.state.get_history("logl", index=t))):
            return f"-inf particle stored in batch {t}"
    k = 0
    for t in range(len(beta)):
        if beta[t] == 0.0:
            fr = fracs[k]
            k += 1
            if fr < 1.0 and abs(logz[t] - np.log(fr)) > 1e-9:
                return f"warm-up iteration {t}: recorded logz {logz[t]:.6f} but log(finite fraction of the batch) = {np.log(fr):.6f}"
    truth = np.log(2 * np.pi * 0.05 ** 2)
    if abs(s.evidence()[0] - truth) > 1.0:
        return f"final logZ {s.evidence()[0]:.3f} far from the integral over the supported region {truth:.3f}"
    return None


def run_sparse(f, n, d, seed, ess_ratio):
    """very sparse support (a prior batch holds about n_dim finite draws): the likelihood is wrapped and counts, in call order, which
    evaluations were finite; the `calls` history partitions them into iterations.  The evidence recorded by a prior-sampling iteration
    is log(#finite / #evaluated) of the prior points drawn in that iteration - counted once"""
    seen = []

    def ll(x):
        fin = x[0] < f
        seen.append(bool(fin))
        return -0.5 * float(np.sum((x[1:] - 0.5) ** 2)) / 0.2 ** 2 if fin else -np.inf
    s = Sampler(lambda u: u, ll, n_dim=d, n_particles=n, ess_ratio=ess_ratio, random_state=seed, clustering=False)
    try:
        s.run(n_total=2 * n, progress=False)
    except np.linalg.LinAlgError:
        return None
    beta, logz, calls = (np.asarray(s.state.get_history(k)) for k in ("beta", "logz", "calls"))
    for t in range(len(beta)):
        if np.any(np.isinf(s.state.get_history("logl", index=t))):
            return f"-inf particle stored in batch {t}"
    prev = 0
    for t in range(len(beta)):
        c = int(calls[t])
        if beta[t] == 0.0 and c > prev:
            win = seen[prev:c]
            fin = sum(win)
            if 0 < fin and abs(logz[t] - np.log(fin / len(win))) > 1e-9:
                return (f"warm-up iteration {t}: {len(win)} prior points were evaluated, {fin} had a finite likelihood, recorded logz {logz[t]:.6f} "
                        f"but log(finite / evaluated) = {np.log(fin / len(win)):.6f}")
        prev = c
    return None


def long_warmup():
    """a long prior-sampling history (more than 2**22 table entries: 48 batches of 4096 prior draws) for a top-hat likelihood (1 on a
    region of prior mass f, 0 elsewhere): every stored particle has logl = 0, every batch records logz = log(its finite fraction), and the
    evidence at beta = 1 recomputed from the history is log(total finite / total drawn) - exact, no Monte-Carlo tolerance"""
    from tempest.state_manager import StateManager
    rng = np.random.RandomState(7)
    f, n, T = 0.25, 4096, 48
    st = StateManager(2)
    fin_total = 0
    for t in range(T):
        k = int(rng.binomial(n, f))
        fin_total += k
        u = rng.rand(n, 2)
        st.update_current({"u": u, "x": u.copy(), "logl": np.zeros(n), "beta": 0.0, "logz": float(np.log(k / n)), "iter": t, "calls": n * (t + 1),
                           "assignments": np.zeros(n, dtype=int)})
        st.commit_current_to_history()
    lw, lz = st.compute_logw_and_logz(1.0)
    zs = np.asarray(st.get_history("logz"), dtype=float)
    want = -np.log(np.mean(np.exp(-zs)))          # log of N / sum_t n_t / f_t  for equal batch sizes
    if not np.isfinite(lz) or abs(lz - want) > 1e-9:
        return (f"{T} prior-sampling batches of {n} draws, top-hat likelihood on a region of mass {f}: evidence at beta = 1 recomputed from the history is {lz!r}, "
                f"the exact value for the recorded fractions is {want!r} (log f = {np.log(f):.6f})")
    if abs(np.exp(lw).sum() - 1) > 1e-9 or np.ptp(lw) > 1e-9:
        return f"long warm-up history: the normalised weights of identical particles are not uniform (spread {np.ptp(lw):.3g})"
    return None


def main():
    tried = 0
    tried += 1
    try:
        r = long_warmup()
    except Exception as e:
        r = f"long warm-up history: {type(e).__name__}: {e}"
    if r:
        print(json.dumps({"reproduced": True, "detail": r, "input": {"case": "long-warmup", "f": 0.25, "n": 4096, "T": 48}, "tried": tried}))
        return
    for f, er, seed in ((0.5, 2.0, 0), (0.2, 2.0, 1), (0.25, 4.0, 2)):
        tried += 1
        try:
            r = run(f, er, 200, seed, True, np.float32)
        except Exception as e:
            r = f"{type(e).__name__}: {e}"
        if r:
            print(json.dumps({"reproduced": True, "detail": "vectorised likelihood returning float32: " + r, "input": {"f": f, "ess_ratio": er, "n_particles": 200, "seed": seed, "vectorize": True, "output_dtype": "float32"}, "tried": tried}))
            return
    for f, n, d, seed, er in ((0.05, 128, 5, 0, 2.0), (0.05, 128, 5, 1, 1.0), (0.04, 96, 4, 2, 2.0), (0.3, 24, 5, 3, 2.0), (0.05, 128, 5, 4, 2.0), (0.05, 128, 5, 5, 2.0)):
        tried += 1
        try:
            r = run_sparse(f, n, d, seed, er)
        except Exception as e:
            r = f"{type(e).__name__}: {e}"
        if r:
            print(json.dumps({"reproduced": True, "detail": r, "input": {"f": f, "ess_ratio": er, "n_particles": n, "n_dim": d, "seed": seed, "clustering": False}, "tried": tried}))
            return
    for f, er, n, seed, vec in itertools.product((0.5, 0.25, 0.9), (0.5, 2.0, 4.0), (200,), (0, 1), (False, True)):
        tried += 1
        try:
            r = run(f, er, n, seed, vec)
        except Exception as e:
            r = f"{type(e).__name__}: {e}"
        if r:
            print(json.dumps({"reproduced": True, "detail": r, "input": {"f": f, "ess_ratio": er, "n_particles": n, "seed": seed, "vectorize": vec}, "tried": tried}))
            return
    # checkpoint + resume: the prior-sampling entries (beta = 0, logz = log of the finite fraction) survive the round trip and the
    # resumed run reproduces the uninterrupted run's evidence
    import tempfile, os, shutil
    tmp = tempfile.mkdtemp(prefix="c11_")
    cwd = os.getcwd()
    os.chdir(tmp)
    try:
        for f, er in ((0.5, 2.0), (0.25, 4.0)):
            def ll(x, f=f):
                return -np.inf if x[0] >= f else -0.5 * np.sum((x - 0.3 * f) ** 2) / 0.05 ** 2
            d1 = os.path.join(tmp, f"a{f}")
            s1 = Sampler(lambda u: u, ll, n_dim=2, n_particles=100, ess_ratio=er, random_state=2, output_dir=d1)
            s1.run(n_total=200, progress=False, save_every=1)
            b1, z1 = np.asarray(s1.state.get_history("beta")), np.asarray(s1.state.get_history("logz"))
            cks = sorted((x for x in os.listdir(d1) if x.endswith(".state") and "final" not in x), key=lambda x: int(x.split("_")[1].split(".")[0]))
            n0 = int((b1 == 0).sum())
            for k in sorted({max(1, n0 - 1), min(len(cks), n0 + 1)}):
                tried += 1
                path = os.path.join(d1, f"ps_{k}.state")
                if not os.path.exists(path):
                    continue
                s2 = Sampler(lambda u: u, ll, n_dim=2, n_particles=100, ess_ratio=er, random_state=2, output_dir=os.path.join(tmp, f"b{f}_{k}"))
                s2.run(n_total=200, progress=False, resume_state_path=path)
                b2, z2 = np.asarray(s2.state.get_history("beta")), np.asarray(s2.state.get_history("logz"))
                m = min(k, len(b2))
                if len(b2) < k or not np.array_equal(b1[:k], b2[:k]) or not np.allclose(z1[:k], z2[:k], rtol=0, atol=1e-12):
                    print(json.dumps({"reproduced": True, "tried": tried, "detail": f"support fraction {f}: after resuming from iteration {k} the stored prior-sampling "
                                      f"entries changed: beta {b2[:m].tolist()} / logz {np.round(z2[:m], 6).tolist()} instead of beta {b1[:k].tolist()} / logz {np.round(z1[:k], 6).tolist()}",
                                      "input": {"f": f, "resume_from": k}}))
                    return
                if abs(s2.evidence()[0] - s1.evidence()[0]) > 1e-9:
                    print(json.dumps({"reproduced": True, "tried": tried, "detail": f"support fraction {f}: run resumed from iteration {k} ends with logZ {s2.evidence()[0]:.6f}, "
                                      f"the uninterrupted run with {s1.evidence()[0]:.6f}", "input": {"f": f, "resume_from": k}}))
                    return
    except Exception as e:
        print(json.dumps({"reproduced": True, "tried": tried, "detail": f"checkpoint/resume with a zero-likelihood region raised {type(e).__name__}: {e}", "input": {"probe": "resume"}}))
        return
    finally:
        os.chdir(cwd)
        shutil.rmtree(tmp, ignore_errors=True)
    print(json.dumps({"reproduced": False, "tried": tried, "detail": "native contract held"}))


main()
