"""Native contract for C18 (second clause, bounded): every combination of *valid* option values runs to completion without raising
and satisfies the run postconditions (beta within 1e-4 of 1, posterior weights normalised, finite evidence, a checkpoint per
save_every iterations that a fresh sampler can load).

The option product is covered by a greedy t-wise covering array (t = 2 by default, t = 3 with {"strength": 3}); the factors and
levels are listed in FACTORS.  Small problems (2-d Gaussian, n_total = 64), fixed seeds: a bounded stand-in, never a proof."""
import json, sys, os, itertools, tempfile, shutil, warnings, atexit, signal
import numpy as np
import tempest

warnings.simplefilter("ignore")
BASE = tempfile.mkdtemp(prefix="c18run_")
atexit.register(shutil.rmtree, BASE, True)

FACTORS = [
    ("sample", ["tpcn", "rwm"]),
    ("resample", ["mult", "syst"]),
    ("clustering", [True, False]),
    ("normalize", [True, False]),
    ("cluster_every", [1, 3]),
    ("n_max_clusters", [None, 1, 3]),
    ("split_threshold", [1.0, 0.2]),
    ("metric", ["ess", "vv"]),
    ("steps", ["default", "short"]),
    ("likelihood", ["scalar", "vectorized", "blobs", "vectorized-readonly"]),
    ("boundaries", ["none", "periodic", "reflective", "mixed", "empty-lists", "one-empty"]),
    ("pool", [None, 1, 2]),
    ("save_every", [None, 1, 3]),
]


def prior(u):
    return 8.0 * u - 4.0


def ll(x):
    return -0.5 * float(np.sum((x - 0.5) ** 2) / 0.3)


def llv(x):
    return -0.5 * np.sum((x - 0.5) ** 2, axis=1) / 0.3


def llv_ro(x):
    out = llv(x)
    out.setflags(write=False)
    return out


def llb(x):
    return -0.5 * float(np.sum((x - 0.5) ** 2) / 0.3), float(x[0])


def covering(strength, seed):
    """greedy t-wise covering array over FACTORS (deterministic for a seed)"""
    rng = np.random.RandomState(seed)
    names = [f for f, _ in FACTORS]
    levels = [l for _, l in FACTORS]
    need = set()
    for cols in itertools.combinations(range(len(names)), strength):
        for vals in itertools.product(*[range(len(levels[c])) for c in cols]):
            need.add((cols, vals))
    rows = []
    while need:
        best, best_cov = None, -1
        for _ in range(40):
            cand = [rng.randint(len(l)) for l in levels]
            # seed the candidate with one still-uncovered tuple
            cols, vals = next(iter(need)) if _ == 0 else list(need)[rng.randint(len(need))]
            for c, v in zip(cols, vals):
                cand[c] = v
            cov = sum(1 for cols2 in itertools.combinations(range(len(names)), strength)
                      if (cols2, tuple(cand[c] for c in cols2)) in need)
            if cov > best_cov:
                best, best_cov = cand, cov
        rows.append(best)
        for cols2 in itertools.combinations(range(len(names)), strength):
            need.discard((cols2, tuple(best[c] for c in cols2)))
    return [{names[i]: levels[i][r[i]] for i in range(len(names))} for r in rows]


def build(cfg, out):
    kw = dict(n_dim=2, n_particles=16, random_state=3, output_dir=out, sample=cfg["sample"], resample=cfg["resample"],
              clustering=cfg["clustering"], normalize=cfg["normalize"], cluster_every=cfg["cluster_every"],
              n_max_clusters=cfg["n_max_clusters"], split_threshold=cfg["split_threshold"], pool=cfg["pool"])
    if cfg["metric"] == "vv":
        kw["volume_variation"] = 0.5
    if cfg["steps"] == "short":
        kw.update(n_steps=2, n_max_steps=4)
    like = ll
    if cfg["likelihood"] == "vectorized":
        like = llv
        kw["vectorize"] = True
    elif cfg["likelihood"] == "vectorized-readonly":
        like = llv_ro
        kw["vectorize"] = True
    elif cfg["likelihood"] == "blobs":
        like = llb
        kw["blobs_dtype"] = "float"
    b = cfg["boundaries"]
    if b == "periodic":
        kw["periodic"] = [0]
    elif b == "reflective":
        kw["reflective"] = [1]
    elif b == "mixed":
        kw.update(periodic=[1], reflective=[0])
    elif b == "empty-lists":
        kw.update(periodic=[], reflective=[])
    elif b == "one-empty":
        kw.update(periodic=[0], reflective=[])
    s = tempest.Sampler(prior, like, **kw)
    s._verif_requested = {k: (kw[k], list(kw[k])) for k in ("periodic", "reflective") if kw.get(k) is not None}
    return s


PER_RUN_SECONDS = 180


class _Hang(Exception):
    pass


def _alarm(signum, frame):
    raise _Hang()


def run_one(cfg, k):
    """one configuration, with a wall-clock cap: a run that does not complete is a failure of 'runs to completion'"""
    signal.signal(signal.SIGALRM, _alarm)
    signal.alarm(PER_RUN_SECONDS)
    try:
        return _run_one(cfg, k)
    except _Hang:
        return f"run did not complete within {PER_RUN_SECONDS} s (n_total=64, 16 particles, 2-d target: normally < 2 s)"
    finally:
        signal.alarm(0)


def _run_one(cfg, k):
    out = os.path.join(BASE, f"cfg{k}")
    try:
        s = build(cfg, out)
    except Exception as e:
        return f"construction of a valid configuration raised {type(e).__name__}: {e}"
    try:
        s.run(n_total=64, progress=False, save_every=cfg["save_every"])
    except Exception as e:
        return f"run raised {type(e).__name__}: {str(e)[:300]}"
    # the option values are the caller's and the configuration's: a run leaves both as requested (the same option objects are routinely
    # reused for the next sampler, and the configuration must still be the valid one that was accepted)
    for k, (obj, want) in getattr(s, "_verif_requested", {}).items():
        if list(obj) != want:
            return f"the caller's {k} list {want} was changed to {list(obj)} by the run"
        have = getattr(s._core.config, k, None)
        if have is not None and [int(i) for i in have] != want:
            return f"after the run the sampler's configuration holds {k} = {[int(i) for i in have]}, requested {want}"
    try:
        if hasattr(s._core.config, "validate"):
            s._core.config.validate()
    except Exception as e:
        return f"after the run the sampler's own configuration no longer validates: {type(e).__name__}: {e}"
    st = s.state
    beta = st.get_current("beta")
    if not (1.0 - beta < 1e-4 + 1e-12):
        return f"run returned at beta = {beta!r}"
    try:
        x, w, l = s.posterior()[:3]
        lz = s.evidence()[0]
    except Exception as e:
        return f"posterior()/evidence() raised {type(e).__name__}: {e}"
    if len(x) != len(w) or len(w) != len(l) or (w < 0).any() or abs(w.sum() - 1) > 1e-9 or not np.isfinite(lz):
        return f"postcondition: weights sum {w.sum()!r}, logz {lz!r}, lengths {len(x)},{len(w)},{len(l)}"
    if cfg["save_every"] is not None:
        files = sorted(f for f in os.listdir(out) if f.endswith(".state"))
        if not files:
            return "save_every set but no checkpoint written"
        cfg2 = dict(cfg)
        cfg2["pool"] = None
        try:
            f2 = build(cfg2, os.path.join(BASE, f"cfg{k}_load"))
            f2.load_state(os.path.join(out, files[0]))
        except Exception as e:
            return f"checkpoint {files[0]} not loadable: {type(e).__name__}: {e}"
    return None


def main():
    p = json.load(open(sys.argv[1]))
    inp = p.get("input") or {}
    strength = int(p.get("strength") or inp.get("strength") or (3 if os.environ.get("VERIF_TIER") == "thorough" else 2))
    seed = int(p.get("seed", 0))
    cwd = os.getcwd()
    os.chdir(BASE)
    tried = 0
    try:
        cfgs = [inp["config"]] if isinstance(inp.get("config"), dict) else covering(strength, seed)
        for k, cfg in enumerate(cfgs):
            tried += 1
            r = run_one(cfg, k)
            if r:
                print(json.dumps({"reproduced": True, "tried": tried, "detail": f"{r} — configuration {cfg}", "input": {"config": cfg, "strength": strength}},
                                 default=str))
                return
    finally:
        os.chdir(cwd)
    print(json.dumps({"reproduced": False, "tried": tried,
                      "detail": f"all {tried} configurations of the {strength}-wise covering array ran to completion with the postconditions"}))


if __name__ == "__main__":
    main()
