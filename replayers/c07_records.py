"""Native runtime contract for C07 (bounded): run the real sampler over an option lattice with a
deterministic prior transform and likelihood, and check after every iteration, over the whole history
and in everything posterior() returns that each particle is a coherent (u, x, logL, blob) record."""
import json, sys, itertools
import numpy as np
from tempest import Sampler


def pt(u):
    """a prior transform written the usual per-point way (one parameter at a time by index assignment): it maps ONE point of the
    unit cube; handing it a whole batch would silently transform rows instead of coordinates"""
    u = np.asarray(u, dtype=float)
    x = np.array(u, dtype=float)
    x[0] = 8.0 * u[0] - 4.0 + 0.25 * np.sin(7 * u[0])
    x[1] = 8.0 * u[1] - 4.0 + 0.25 * np.sin(7 * u[1])
    return x


def ll_scalar(x):
    x = np.asarray(x)
    if x[0] < -3.0:
        return -np.inf
    return float(-0.5 * np.sum((x - 0.7) ** 2) / 0.6 ** 2)


def ll_blob(x):
    return ll_scalar(x), float(np.sum(np.cos(3 * x)))


def ll_vec(X):
    X = np.atleast_2d(X)
    out = -0.5 * np.sum((X - 0.7) ** 2, axis=1) / 0.6 ** 2
    out[X[:, 0] < -3.0] = -np.inf
    return out


_BUF = {}


def ll_vec_buf(X):
    """honours the documented interface (batch in, array of log-likelihoods out) and recycles one output buffer per batch size"""
    X = np.atleast_2d(X)
    out = _BUF.setdefault(len(X), np.empty(len(X)))
    out[:] = ll_vec(X)
    return out


def ll_vec_ro(X):
    out = ll_vec(X)
    out.setflags(write=False)
    return out


class Derived:
    """a user object attached as a blob: it keeps a view of the first coordinate of the point it was computed from"""
    def __init__(self, x):
        self.head = x[:1]


def ll_objblob(x):
    return ll_scalar(x), Derived(x)


def check_rows(tag, u, x, logl, blobs, periodic, reflective, allow_inf=False):
    u, x, logl = np.asarray(u), np.asarray(x), np.asarray(logl)
    if not (len(u) == len(x) == len(logl)) or (blobs is not None and len(blobs) != len(u)):
        return f"{tag}: field lengths differ"
    if np.any(u < 0) or np.any(u > 1):
        return f"{tag}: unit-cube coordinates outside [0,1] (min {u.min()}, max {u.max()})"
    xx = np.array([pt(ui) for ui in u])
    if not np.array_equal(xx, x):
        return f"{tag}: x is not the prior transform of u for {int(np.sum(np.any(xx != x, axis=1)))} particles"
    lref = np.array([ll_scalar(xi) for xi in x])
    if not np.array_equal(lref, logl):
        return f"{tag}: stored log-likelihood differs from the likelihood at x for {int(np.sum(lref != logl))} particles"
    if not allow_inf and np.any(np.isinf(logl)):
        return f"{tag}: -inf particle stored"
    if blobs is not None:
        bref = np.array([ll_blob(xi)[1] for xi in x])
        if not np.array_equal(bref, np.asarray(blobs, float).reshape(len(x))):
            return f"{tag}: blob does not belong to its particle for {int(np.sum(bref != np.asarray(blobs, float).reshape(len(x))))} particles"
    return None


def run_objblob(s):
    it = 0
    while s._core._not_termination() and it < 40:
        st = s.sample()
        it += 1
        H = s.state
        for t in range(H.get_history_length()):
            xs, bs = H.get_history("x", index=t), H.get_history("blobs", index=t)
            for i in range(len(xs)):
                b = np.asarray(getattr(bs[i], "head", bs[i]), dtype=float).ravel()
                if b.shape != (1,) or b[0] != xs[i][0]:
                    return (f"after iteration {it}: object blob of particle {i} in history batch {t} is {b.tolist()}, its particle has x[0] = {float(xs[i][0])!r} "
                            f"(a committed record changed after it was committed, or the blob belongs to another particle)")
    out = s.posterior(return_blobs=True)
    for xi, bi in zip(out[0], out[3]):
        if float(np.asarray(getattr(bi, "head", bi), dtype=float).ravel()[0]) != float(xi[0]):
            return "posterior(return_blobs=True): an object blob does not belong to its sample row"
    return None


def run_one(cfg):
    kw = dict(n_dim=2, n_particles=cfg.get("n_particles", 24), random_state=cfg["seed"], sample=cfg["kernel"], resample=cfg["resample"],
              clustering=cfg["clustering"], periodic=cfg["periodic"], reflective=cfg["reflective"],
              volume_variation=cfg["vv"], ess_ratio=1.5)
    blobs = cfg["like"] == "blob"
    if cfg.get("pool") == "executor":
        # a pool object with both .map and .submit whose tasks finish out of order (latency depends on the position)
        import concurrent.futures, time

        def slow_ll(x):
            time.sleep(0.0005 + 0.002 * float(abs(np.sin(37.0 * x[0]))))
            return ll_blob(x) if blobs else ll_scalar(x)
        kw["pool"] = concurrent.futures.ThreadPoolExecutor(4)
        s = Sampler(pt, slow_ll, blobs_dtype="float", **kw) if blobs else Sampler(pt, slow_ll, **kw)
    elif blobs:
        s = Sampler(pt, ll_blob, blobs_dtype="float", **kw)
    elif cfg["like"] == "vec":
        s = Sampler(pt, ll_vec, vectorize=True, **kw)
    elif cfg["like"] == "vecbuf":
        _BUF.clear()
        s = Sampler(pt, ll_vec_buf, vectorize=True, **kw)
    elif cfg["like"] == "vecro":
        s = Sampler(pt, ll_vec_ro, vectorize=True, **kw)
    elif cfg["like"] == "objblob":
        s = Sampler(pt, ll_objblob, blobs_dtype=object, **kw)
    else:
        s = Sampler(pt, ll_scalar, **kw)
    s._core._initialize_fresh()
    s._core.n_total = 4 * kw["n_particles"]
    if cfg["like"] == "objblob":
        return run_objblob(s)
    it = 0
    while s._core._not_termination() and it < 40:
        st = s.sample()
        it += 1
        r = check_rows(f"iteration {it} current state", st["u"], st["x"], st["logl"], st["blobs"] if blobs else None,
                       cfg["periodic"], cfg["reflective"])
        if r:
            return r
        if len(st["assignments"]) != len(st["u"]):
            return f"iteration {it}: assignments length differs"
    H = s.state
    for t in range(H.get_history_length()):
        r = check_rows(f"history batch {t}", H.get_history("u", index=t), H.get_history("x", index=t), H.get_history("logl", index=t),
                       H.get_history("blobs", index=t) if blobs else None, cfg["periodic"], cfg["reflective"])
        if r:
            return r
    for rs, tr in itertools.product((False, True), (False, True)):
        out = s.posterior(resample=rs, trim_importance_weights=tr, return_blobs=blobs, return_logw=True)
        x, w, logl = out[0], out[1], out[2]
        b = out[3] if blobs else None
        lw = out[-1]
        if not (len(x) == len(w) == len(logl) == len(lw)) or (b is not None and len(b) != len(x)):
            return f"posterior(resample={rs}, trim={tr}): output lengths differ"
        lref = np.array([ll_scalar(xi) for xi in x])
        if not np.array_equal(lref, logl):
            return f"posterior(resample={rs}, trim={tr}): logl rows do not belong to the sample rows"
        if b is not None:
            bref = np.array([ll_blob(xi)[1] for xi in x])
            if not np.array_equal(bref, np.asarray(b, float).reshape(len(x))):
                return f"posterior(resample={rs}, trim={tr}): blob rows do not belong to the sample rows"
    return None


def seam():
    """a walker that lands exactly on the periodic seam (raw proposal -1e-17 wraps to 1.0): the record the kernel returns is still whole,
    x == T(u) for the u it returns"""
    from tempest import mcmc
    from tempest.modes import ModeStatistics
    T = lambda v: 3.0 * np.asarray(v, dtype=float) - 1.0
    for kernel, cls in (("rwm", mcmc.RWMRunner), ("tpcn", mcmc.TPCNRunner)):
        ms = ModeStatistics(np.full((1, 2), 0.5), 0.04 * np.eye(2)[None], np.array([5.0]))
        for target in (-1e-17, -2.0 ** -54, 1.0):
            u0 = np.array([[0.25, 0.5]])
            try:
                r = cls(u=u0.copy(), x=T(u0), logl=np.zeros(1), blobs=None, assignments=np.zeros(1, dtype=int), beta=1.0, mode_stats=ms,
                        log_likelihood=lambda x: (np.zeros(len(np.atleast_2d(x))), None), prior_transform=T, progress_bar=None, n_steps=1, n_max=1,
                        periodic=[0], reflective=None, verbose=False)
            except TypeError:
                return None
            r.sigmas[:] = 0.5
            L = ms.chol_covariances[0]
            if kernel == "rwm":
                z = np.linalg.solve(0.5 * L, np.array([target, 0.5]) - u0[0])
            else:
                mu = ms.means[0]
                z = np.linalg.solve(0.5 * L, np.array([target, 0.5]) - (mu + np.sqrt(0.75) * (u0[0] - mu)))
            o = (np.random.randn, np.random.gamma, np.random.rand)
            np.random.randn = lambda *a: (np.broadcast_to(z, a).copy() if len(a) == 2 else z.copy())
            np.random.gamma = lambda *a, **k: (np.ones(k.get("size") or (a[2] if len(a) > 2 else ())) if (k.get("size") or len(a) > 2) else 1.0)
            np.random.rand = lambda *a: (np.zeros(a) if a else 0.0)
            r._check_convergence = lambda acc, r=r: r.iteration >= 1
            r._adapt_sigma = lambda *a, **k: None
            try:
                r.run()
            except Exception:
                continue
            finally:
                np.random.randn, np.random.gamma, np.random.rand = o
            u, x = np.asarray(r.u), np.asarray(r.x)
            if not np.array_equal(T(u), x):
                return (f"{kernel} kernel, periodic coordinate 0, raw proposal {target!r}: the kernel returns u = {u[0].tolist()} with x = {x[0].tolist()}, but the prior transform of "
                        f"that u is {T(u)[0].tolist()}: u was rewritten after x was computed")
    return None


def reused_object():
    """one Sampler object that has completed a run is then used for the checkpoints of other chains (load_state, sample, posterior,
    run(resume_state_path)): every record in the flat history, in the current state and in posterior() is still a whole record of
    the history now stored"""
    import tempfile, shutil, os, re
    base = tempfile.mkdtemp(prefix="c07r_")
    cwd = os.getcwd()
    os.chdir(base)
    try:
        def mk(seed):
            return Sampler(pt, ll_blob, blobs_dtype="float", n_dim=2, n_particles=24, random_state=seed, ess_ratio=1.5,
                           output_dir=tempfile.mkdtemp(prefix=f"s{seed}_", dir=base))
        cps = {}
        for seed in (5, 6):
            s = mk(seed)
            s.run(n_total=120, progress=False, save_every=1)
            d = str(s._core.config.output_dir)
            cps[seed] = {int(re.match(r".*_(\d+)\.state$", f).group(1)): os.path.join(d, f) for f in os.listdir(d) if re.match(r".*_(\d+)\.state$", f)}
        # a history of exactly one batch (checkpoint 1 loaded into a fresh sampler): what posterior() returns is the caller's - editing it in
        # place leaves the stored records whole
        one = mk(9)
        one.load_state(cps[5][min(cps[5])])
        if one.state.get_history_length() == 1:
            out = one.posterior(return_blobs=True, trim_importance_weights=False)
            for o in out:
                try:
                    o[...] = 57.0
                except (ValueError, TypeError):
                    pass
            H1 = one.state
            r = check_rows("one-batch history after the arrays returned by posterior(trim=False) were edited in place", H1.get_history("u", flat=True), H1.get_history("x", flat=True),
                           H1.get_history("logl", flat=True), H1.get_history("blobs", flat=True), None, None)
            if r:
                return r
        reader = mk(7)
        reader.run(n_total=72, progress=False)
        T = reader.state.get_history_length()
        for seed in (5, 6, 5):
            ks = sorted(cps[seed])
            for k in sorted({ks[-1], min(ks, key=lambda q: abs(q - T)), min(ks, key=lambda q: abs(q - (T - 1)))}):
                reader.load_state(cps[seed][k])
                H = reader.state
                for what in ("after load_state", "after load_state + sample()"):
                    tag = f"sampler reused for chain {seed}, checkpoint {k}, {what}: flat history"
                    r = check_rows(tag, H.get_history("u", flat=True), H.get_history("x", flat=True), H.get_history("logl", flat=True),
                                   H.get_history("blobs", flat=True), None, None)
                    if r:
                        return r
                    for key in ("u", "x", "logl", "blobs"):
                        per_it = np.concatenate([np.asarray(H.get_history(key, index=t)) for t in range(H.get_history_length())])
                        if not np.array_equal(per_it, np.asarray(H.get_history(key, flat=True))):
                            return f"{tag}: the flattened {key!r} history is not the concatenation of the stored iterations (rows of a previously held history survive)"
                    out = reader.posterior(return_blobs=True, trim_importance_weights=False)
                    x, logl, b = out[0], out[2], out[3]
                    if not (np.array_equal(np.array([ll_scalar(xi) for xi in x]), logl)
                            and np.array_equal(np.array([ll_blob(xi)[1] for xi in x]), np.asarray(b, float).reshape(len(x)))):
                        return f"sampler reused for chain {seed}, checkpoint {k}, {what}: posterior() rows are not whole records"
                    if what == "after load_state":
                        st = reader.sample()
                        r = check_rows(f"sampler reused for chain {seed}, checkpoint {k}: state after sample()", st["u"], st["x"], st["logl"], st["blobs"], None, None)
                        if r:
                            return r
    finally:
        os.chdir(cwd)
        shutil.rmtree(base, True)
    return None


def main():
    p = json.load(open(sys.argv[1]))
    try:
        r = seam()
    except Exception as e:
        r = None
    if r:
        print(json.dumps({"reproduced": True, "detail": r, "input": {"case": "periodic-seam"}, "tried": 1}))
        return
    try:
        r = reused_object()
    except Exception as e:
        r = f"reused sampler object: {type(e).__name__}: {e}"
    if r:
        print(json.dumps({"reproduced": True, "detail": r, "input": {"case": "reused-object"}, "tried": 1}))
        return
    cfgs = []
    for kernel, resample, clustering, like, bc, vv in itertools.product(("tpcn", "rwm"), ("mult", "syst"), (True, False),
                                                                        ("scalar", "blob", "vec"),
                                                                        ((None, None), ([0], None), (None, [1]), ([1], [0])), (None, 0.5)):
        cfgs.append(dict(kernel=kernel, resample=resample, clustering=clustering, like=like, periodic=bc[0], reflective=bc[1], vv=vv, seed=3))
    # pairwise-ish thinning: every 5th configuration plus all blob x boundary x kernel combinations
    pick = [c for i, c in enumerate(cfgs) if i % 5 == 0 or (c["like"] == "blob" and c["vv"] is None and c["resample"] == "mult")]
    pick = [dict(kernel=k, resample="mult", clustering=c, like=lk, periodic=None, reflective=None, vv=None, seed=sd, n_particles=npart)
            for k in ("tpcn", "rwm") for lk, npart, c, sd in (("vecbuf", 6, False, 3), ("vecbuf", 24, True, 3), ("objblob", 24, False, 3), ("vecbuf", 5, False, 4))] + \
           [dict(kernel="rwm", resample="syst", clustering=False, like="scalar", periodic=None, reflective=None, vv=None, seed=3, pool="executor"),
            dict(kernel="tpcn", resample="mult", clustering=True, like="blob", periodic=None, reflective=None, vv=None, seed=3, pool="executor")] + pick
    tried = 0
    for c in pick:
        tried += 1
        try:
            r = run_one(c)
        except Exception as e:
            r = f"{type(e).__name__}: {e}"
            if "index" in str(e).lower() and "bounds" in str(e).lower() and c["clustering"]:
                continue   # known finding C14 (label/mode mismatch) is reported under C14, not here
            if "Singular" in str(e):
                continue
        if r:
            print(json.dumps({"reproduced": True, "detail": r, "input": c, "tried": tried}))
            return
    print(json.dumps({"reproduced": False, "tried": tried, "detail": "all records coherent in every explored configuration"}))


main()
