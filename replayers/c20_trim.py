"""Runtime contract for tools.trim_weights on the real code: threshold set, alignment,
normalisation, ESS fraction, in-place normalisation of the caller's array (C20 O2-O5).
Bounded: solver input (if any) + a directed family of weight vectors x ess x bins."""
import json, sys
import numpy as np
from tempest import tools


def ess_of(w):
    w = np.asarray(w, float)
    return w.sum() ** 2 / (w ** 2).sum()


def check(w, ess, bins):
    w0 = np.asarray(w, float).copy()
    wc = w0.copy()
    smp = np.arange(len(w0))
    try:
        out_s, out_w = tools.trim_weights(smp, wc, ess=ess, bins=bins)
    except Exception as e:
        return f"{type(e).__name__}: {e}"
    wn = w0 / w0.sum()
    if not np.allclose(wc, wn, rtol=1e-12, atol=0):
        return "caller's weights are not the normalised input after the call"
    if len(out_s) != len(out_w):
        return f"samples ({len(out_s)}) and weights ({len(out_w)}) lengths differ"
    if len(out_s) == 0:
        return "empty selection"
    if abs(out_w.sum() - 1) > 1e-9:
        return f"trimmed weights sum to {out_w.sum()}"
    sel = np.asarray(out_s)
    thr = wn[sel].min()
    keep = np.where(wn >= thr)[0]
    if not np.array_equal(np.sort(sel), keep):
        return "returned samples are not exactly those at or above the weight threshold"
    if not np.allclose(out_w, wn[sel] / wn[sel].sum(), rtol=1e-9, atol=1e-300):
        return "weights not aligned with samples (w[mask]/sum w[mask])"
    if ess_of(out_w) / ess_of(wn) < ess * (1 - 1e-9):
        return f"ESS fraction {ess_of(out_w) / ess_of(wn):.6f} below requested {ess}"
    return None


def main():
    p = json.load(open(sys.argv[1]))
    inp = p.get("input") or {}
    tried = 0
    if inp.get("w"):
        tried += 1
        r = check(inp["w"], inp["ess"], inp["bins"])
        if r:
            print(json.dumps({"reproduced": True, "input": inp, "detail": r, "tried": tried}))
            return
    rng = np.random.RandomState(1)
    fams = []
    for n in (1, 2, 3, 5, 17, 200):
        fams += [np.ones(n), rng.rand(n) + 1e-3, rng.dirichlet(np.ones(n) * 0.05) + 1e-300,
                 np.exp(rng.randn(n) * 8), np.r_[np.ones(max(n - 1, 1)), 1e6][:max(n, 1)], np.round(rng.rand(n) * 3) + 1.0]
    for w in fams:
        for ess in (0.5, 0.9, 0.99, 0.9999):  # the property quantifies over ess in (0,1); at exactly 1.0 rounding decides
            for bins in (1, 2, 5, 10, 1000):
                tried += 1
                r = check(w, ess, bins)
                if r:
                    print(json.dumps({"reproduced": True, "detail": r, "tried": tried,
                                      "input": {"w": np.asarray(w).tolist()[:50], "ess": ess, "bins": bins},
                                      "note": "found by the bounded native contract search"}))
                    return
    print(json.dumps({"reproduced": False, "tried": tried, "detail": "native contract held on all tried inputs"}))


main()
