"""Runtime contract for tools.trim_weights on the real code: threshold set, alignment,
normalisation, ESS fraction, in-place normalisation of the caller's array (C20 O2-O5).
Bounded: solver input (if any) + a directed family of weight vectors x ess x bins."""
import json, sys
import numpy as np
from tempest import tools


def ess_of(w):
    w = np.asarray(w, float)
    return w.sum() ** 2 / (w ** 2).sum()


def check(w, ess, bins):
    w0 = np.asarray(w, float).copy()
    wc = w0.copy()
    smp = np.arange(len(w0))
    try:
        out_s, out_w = tools.trim_weights(smp, wc, ess=ess, bins=bins)
    except Exception as e:
        return f"{type(e).__name__}: {e}"
    wn = w0 / w0.sum()
    if not np.allclose(wc, wn, rtol=1e-12, atol=0):
        return "caller's weights are not the normalised input after the call"
    if len(out_s) != len(out_w):
        return f"samples ({len(out_s)}) and weights ({len(out_w)}) lengths differ"
    if len(out_s) == 0:
        return "empty selection"
    if abs(out_w.sum() - 1) > 1e-9:
        return f"trimmed weights sum to {out_w.sum()}"
    sel = np.asarray(out_s)
    thr = wn[sel].min()
    keep = np.where(wn >= thr)[0]
    if not np.array_equal(np.sort(sel), keep):
        return "returned samples are not exactly those at or above the weight threshold"
    if not np.allclose(out_w, wn[sel] / wn[sel].sum(), rtol=1e-9, atol=1e-300):
        return "weights not aligned with samples (w[mask]/sum w[mask])"
    if ess_of(out_w) / ess_of(wn) < ess * (1 - 1e-9):
        return f"ESS fraction {ess_of(out_w) / ess_of(wn):.6f} below requested {ess}"
    return None


def main():
    p = json.load(open(sys.argv[1]))
    inp = p.get("input") or {}
    tried = 0
    if inp.get("w"):
        tried += 1
        r = check(inp["w"], inp["ess"], inp["bins"])
        if r:
            print(json.dumps({"reproduced": True, "input": inp, "detail": r, "tried": tried}))
            return
    rng = np.random.RandomState(1)
    fams = []
    for n in (1, 2, 3, 5, 17, 200):
        fams += [np.ones(n), rng.rand(n) + 1e-3, rng.dirichlet(np.ones(n) * 0.05) + 1e-300,
                 np.exp(rng.randn(n) * 8), np.r_[np.ones(max(n - 1, 1)), 1e6][:max(n, 1)], np.round(rng.rand(n) * 3) + 1.0]
    for w in fams:
        for ess in (0.5, 0.9, 0.99, 0.9999):  # the property quantifies over ess in (0,1); at exactly 1.0 rounding decides
            for bins in (1, 2, 5, 10, 1000):
                tried += 1
                r = check(w, ess, bins)
                if r:
                    print(json.dumps({"reproduced": True, "detail": r, "tried": tried,
                                      "input": {"w": np.asarray(w).tolist()[:50], "ess": ess, "bins": bins},
                                      "note": "found by the bounded native contract search"}))
                    return
    # the weight vector in any storage the caller may hold it in (strided view, column of a table, float32, unnormalised with sum > 1):
    # same selection as for the contiguous float64 copy, and the requested ESS fraction is delivered
    r9 = np.random.RandomState(9)
    for n in (37, 200):
        base = np.exp(r9.randn(n) * 2.5) * 7.3
        table = np.column_stack([r9.rand(n), base])
        forms = (("strided view w[::2] of a longer array", np.repeat(base, 2)[::2]), ("last column of a 2-d table", table[:, -1]),
                 ("float32", base.astype(np.float32)), ("reversed view", base[::-1][::-1]))
        for ess in (0.9, 0.99):
            ref_s, ref_w = tools.trim_weights(np.arange(n), base.copy(), ess=ess, bins=300)
            for fname, wv in forms:
                tried += 1
                try:
                    wv0 = np.array(wv, dtype=float, copy=True)
                    out_s, out_w = tools.trim_weights(np.arange(n), wv, ess=ess, bins=300)
                except Exception as e:
                    continue
                wn = wv0 / wv0.sum()
                ratio = ess_of(wn[np.asarray(out_s)]) / ess_of(wn)
                if ratio < ess * (1 - 1e-6) or (fname != "float32" and not np.array_equal(np.asarray(out_s), np.asarray(ref_s))):
                    print(json.dumps({"reproduced": True, "tried": tried, "detail": f"trim_weights on weights held as a {fname} (sum {float(wv0.sum()):.4g}): kept {len(out_s)} of {n} samples, "
                                      f"ESS(kept)/ESS(all) = {ratio:.4f}, requested {ess}; the contiguous float64 copy keeps {len(ref_s)}", "input": {"storage": fname, "n": n, "ess": ess}}))
                    return
    # results are the caller's: a held result is unchanged by later, different trimmings in the same process (sizes in both orders)
    held = []
    r8 = np.random.RandomState(8)
    for n in (900, 40, 300, 40, 2000, 120, 900, 17, 5, 300):
        w = np.exp(r8.randn(n) * 3)
        out_s, out_w = tools.trim_weights(np.arange(n), w.copy(), ess=0.9, bins=200)
        held.append((n, np.array(out_s, copy=True), np.array(out_w, copy=True), out_s, out_w))
    tried += 1
    for i, (n, s0, w0, s1, w1) in enumerate(held):
        if not (np.array_equal(s0, s1) and np.array_equal(w0, w1)):
            print(json.dumps({"reproduced": True, "tried": tried, "detail": f"the result of trim_weights call {i + 1} (input size {n}) changed while later, unrelated trim_weights "
                              f"calls ran: its weights now sum to {float(np.sum(w1))!r} (results share storage between calls)", "input": {"probe": "held results", "call": i + 1}}))
            return
    # the trimming contract at the place users meet it: successive posterior() calls on ONE sampler with different trimming
    # parameters; every call must deliver the ESS fraction requested in *that* call
    try:
        import tempest, tempfile, os, shutil, warnings
        warnings.simplefilter("ignore")
        tmpd = tempfile.mkdtemp(prefix="c20_")
        cwd = os.getcwd()
        os.chdir(tmpd)
        try:
            s_ = tempest.Sampler(lambda u: 10 * u - 5, lambda x: -0.5 * float(np.sum((x - 1.0) ** 2) / 0.3), n_dim=2, n_particles=64, random_state=2, output_dir=tmpd)
            s_.run(n_total=256, progress=False)
            lw_all = s_.posterior(trim_importance_weights=False, return_logw=True)[-1]
            w_all = np.exp(lw_all - lw_all.max())
            ess_all = ess_of(w_all / w_all.sum())
            for seq in ((0.99, 0.9999, 0.5), (0.5, 0.999), (0.9999, 0.9)):
                for et in seq:
                    tried += 1
                    out = s_.posterior(ess_trim=et, bins_trim=1000)
                    wts = np.asarray(out[1])
                    ratio = ess_of(wts / wts.sum()) / ess_all
                    if ratio < et - 1e-9:
                        print(json.dumps({"reproduced": True, "tried": tried, "detail": f"posterior(ess_trim={et}) after the calls {seq[:seq.index(et)]} on the same sampler kept "
                                          f"{len(wts)} samples with ESS fraction {ratio:.6f} < the requested {et}", "input": {"sequence": list(seq), "ess_trim": et}}))
                        return
        finally:
            os.chdir(cwd)
            shutil.rmtree(tmpd, ignore_errors=True)
    except Exception as e:
        print(json.dumps({"reproduced": True, "tried": tried, "detail": f"posterior() with trimming parameters raised {type(e).__name__}: {e}", "input": {"probe": "posterior sequence"}}))
        return
    print(json.dumps({"reproduced": False, "tried": tried, "detail": "native contract held on all tried inputs"}))


main()
