"""Native contract for C18 (construction): every configuration violating a documented constraint is rejected by
Sampler(...) with an exception before any call of the user's functions; valid ones construct without raising.
Directed search over one-factor and two-factor configurations (bounded; used to replay failing obligations)."""
import json, sys, itertools, warnings
import numpy as np
import tempest

CALLS = {"n": 0}


def prior(u):
    CALLS["n"] += 1
    return u


def loglike(x):
    CALLS["n"] += 1
    return -0.5 * float(np.sum(np.asarray(x) ** 2))


BASE = dict(n_dim=3)

INVALID = [
    ("n_dim=0", dict(n_dim=0)), ("n_dim=-2", dict(n_dim=-2)), ("n_dim=2.5", dict(n_dim=2.5)), ("n_dim='3'", dict(n_dim="3")),
    ("n_dim=None", dict(n_dim=None)), ("n_dim=3.0", dict(n_dim=3.0)),
    ("n_particles=0", dict(n_particles=0)), ("n_particles=-5", dict(n_particles=-5)), ("n_particles=8.5", dict(n_particles=8.5)),
    ("n_particles='8'", dict(n_particles="8")),
    ("ess_ratio=0", dict(ess_ratio=0)), ("ess_ratio=0.0", dict(ess_ratio=0.0)), ("ess_ratio=-1.5", dict(ess_ratio=-1.5)),
    ("volume_variation=0", dict(volume_variation=0)), ("volume_variation=0.0", dict(volume_variation=0.0)),
    ("volume_variation=-0.3", dict(volume_variation=-0.3)),
    ("sample='strat'", dict(sample="strat")), ("sample=''", dict(sample="")), ("sample='TPCN'", dict(sample="TPCN")),
    ("resample='strat'", dict(resample="strat")), ("resample='multinomial'", dict(resample="multinomial")),
    ("vectorize+blobs", dict(vectorize=True, blobs_dtype="f8")),
    ("overlap {0}", dict(periodic=[0], reflective=[0])), ("overlap {1}", dict(periodic=[0, 1], reflective=[1, 2])),
    ("overlap {0} among others", dict(periodic=[1, 0], reflective=[2, 0])), ("overlap {2}", dict(periodic=[2], reflective=[2])),
    ("periodic index = n_dim", dict(periodic=[3])), ("periodic index -1", dict(periodic=[-1])), ("reflective index = n_dim", dict(reflective=[3])),
    ("reflective index -1", dict(reflective=[0, -1])), ("periodic index 0.5", dict(periodic=[0.5])), ("reflective index 7", dict(reflective=[1, 7])),
]

VALID = [
    ("defaults", {}), ("n_particles=1", dict(n_particles=1)), ("ess_ratio=1e-9", dict(ess_ratio=1e-9)), ("ess_ratio=int 3", dict(ess_ratio=3)),
    ("volume_variation=1e-9", dict(volume_variation=1e-9)), ("rwm+syst", dict(sample="rwm", resample="syst")),
    ("vectorize", dict(vectorize=True)), ("blobs", dict(blobs_dtype="f8")),
    ("periodic [0], reflective [1,2]", dict(periodic=[0], reflective=[1, 2])), ("periodic all", dict(periodic=[0, 1, 2])),
    ("empty lists", dict(periodic=[], reflective=[])), ("duplicates", dict(periodic=[1, 1])),
    ("n_steps=0 -> default", dict(n_steps=0)), ("n_max_steps=-1 -> default", dict(n_max_steps=-1)), ("output_dir str", dict(output_dir="out_c18")),
    ("n_max_clusters=1", dict(n_max_clusters=1)), ("cluster_every=3", dict(cluster_every=3)), ("clustering off", dict(clustering=False)),
    ("random_state=5", dict(random_state=5)), ("n_dim=1", dict(n_dim=1)),
]


def construct(opts):
    kw = dict(BASE)
    kw.update(opts)
    CALLS["n"] = 0
    st = np.random.get_state()
    try:
        with warnings.catch_warnings():
            warnings.simplefilter("ignore")
            s = tempest.Sampler(prior, loglike, **kw)
        return None, s
    except Exception as e:   # noqa
        return e, None
    finally:
        np.random.set_state(st)


def main():
    p = json.load(open(sys.argv[1]))
    tried = 0
    for name, opts in INVALID:
        tried += 1
        err, s = construct(opts)
        if err is None:
            print(json.dumps({"reproduced": True, "tried": tried, "input": {"options": repr(opts)},
                              "detail": f"invalid configuration ({name}) was accepted by Sampler(...): no exception"}))
            return
        if CALLS["n"]:
            print(json.dumps({"reproduced": True, "tried": tried, "input": {"options": repr(opts)},
                              "detail": f"user callables were called {CALLS['n']} times before the rejection of ({name})"}))
            return
    for (n1, o1), (n2, o2) in itertools.combinations(INVALID[::3], 2):
        kw = dict(o1)
        kw.update(o2)
        tried += 1
        err, s = construct(kw)
        if err is None:
            print(json.dumps({"reproduced": True, "tried": tried, "input": {"options": repr(kw)},
                              "detail": f"configuration with two violated constraints ({n1}; {n2}) was accepted"}))
            return
    # an invalid value stays invalid whatever the other (valid) options are: every invalid assignment inside every valid context
    for (n1, o1), (n2, o2) in itertools.product(INVALID, VALID):
        if set(o1) & set(o2):
            continue
        kw = dict(o2)
        kw.update(o1)
        if kw.get("vectorize") and kw.get("blobs_dtype") and "vectorize+blobs" not in n1:
            continue
        tried += 1
        err, s = construct(kw)
        if err is None:
            print(json.dumps({"reproduced": True, "tried": tried, "input": {"options": repr(kw)},
                              "detail": f"invalid value ({n1}) was accepted by Sampler(...) in the context of the valid options ({n2}): no exception"}))
            return
        if CALLS["n"]:
            print(json.dumps({"reproduced": True, "tried": tried, "input": {"options": repr(kw)},
                              "detail": f"user callables were called {CALLS['n']} times before the rejection of ({n1}) in the context ({n2})"}))
            return
    for name, opts in VALID:
        tried += 1
        err, s = construct(opts)
        if err is not None:
            print(json.dumps({"reproduced": True, "tried": tried, "input": {"options": repr(opts)},
                              "detail": f"valid configuration ({name}) was rejected: {type(err).__name__}: {err}"}))
            return
        if CALLS["n"]:
            print(json.dumps({"reproduced": True, "tried": tried, "input": {"options": repr(opts)},
                              "detail": f"construction of a valid configuration ({name}) called the user's functions {CALLS['n']} times"}))
            return
        c = s._core.config
        want_np = opts.get("n_particles", 2 * opts.get("n_dim", BASE["n_dim"]))
        if c.n_particles != want_np or c.n_steps < 1 or c.n_max_steps < 1:
            print(json.dumps({"reproduced": True, "tried": tried, "input": {"options": repr(opts)},
                              "detail": f"computed defaults wrong for ({name}): n_particles={c.n_particles}, n_steps={c.n_steps}, n_max_steps={c.n_max_steps}"}))
            return
    print(json.dumps({"reproduced": False, "tried": tried, "detail": "no failing configuration in the directed search"}))


main()
