"""Native contract for C19 on the real fit_mvstud / ModeStatistics constructors (bounded directed search).

  well-posed   finite location inside the bounding box, symmetric positive-definite scale, dof in (0, inf]
  equivariant  per-coordinate scaling (1e-6..1e6), translation, coordinate permutation: location/scale transform, dof equal
  fallback     a non-finite dof is replaced by the *configured* dof_fallback in from_particles and from_global
"""
import json, sys, warnings
import numpy as np
from tempest.student import fit_mvstud
from tempest import modes
from tempest.modes import ModeStatistics

warnings.simplefilter("ignore")


def datasets(rng):
    out = []
    for d in (1, 2, 3, 5, 8):
        n = 4 * d + 20
        out.append((f"gaussian d={d}", rng.standard_normal((n, d)) @ np.diag(rng.uniform(0.5, 2, d))))
        out.append((f"student-t3 d={d}", rng.standard_t(3, (n, d))))
        out.append((f"skewed d={d}", rng.gamma(2.0, 1.0, (n, d))))
        X = rng.standard_normal((n, d))
        X[:3] += 25
        out.append((f"contaminated d={d}", X))
    return out


def well_posed(name, X):
    try:
        mu, S, nu = fit_mvstud(X)
    except Exception as e:
        return f"fit_mvstud raised {type(e).__name__}: {e}"
    lo, hi = X.min(axis=0), X.max(axis=0)
    if not np.all(np.isfinite(mu)) or (mu < lo - 1e-9).any() or (mu > hi + 1e-9).any():
        return f"location {mu.tolist()} not inside the bounding box"
    if not np.allclose(S, S.T, rtol=1e-9, atol=1e-12) or np.linalg.eigvalsh((S + S.T) / 2).min() <= 0:
        return "scale matrix not symmetric positive definite"
    if not (nu > 0):
        return f"degrees of freedom {nu!r} not in (0, inf]"
    return None


def equivariant(name, X, rng):
    d = X.shape[1]
    mu, S, nu = fit_mvstud(X)
    for scale_exp in (0, 3, -3, 6, -6, "mixed6", "mixed4"):
        if isinstance(scale_exp, str):
            # per-coordinate scalings at both ends of the stated range at once (ratios up to 1e12 between coordinates)
            e = float(scale_exp[-1])
            D = 10.0 ** (e * np.where(np.arange(d) % 2 == 0, 1.0, -1.0))
            scale_exp = f"+-{int(e)} alternating"
        else:
            D = 10.0 ** (scale_exp * rng.uniform(0.3, 1.0, d)) if scale_exp else np.ones(d)
        t = rng.uniform(-5, 5, d) * D
        perm = rng.permutation(d)
        Y = (X * D + t)[:, perm]
        mu2, S2, nu2 = fit_mvstud(Y)
        want_mu = (mu * D + t)[perm]
        want_S = (S * np.outer(D, D))[np.ix_(perm, perm)]
        tol = 1e-5
        if not np.allclose(mu2, want_mu, rtol=tol, atol=tol * np.abs(D[perm])):
            return f"location not equivariant under scaling 10^{scale_exp}/translation/permutation: {mu2.tolist()} vs {want_mu.tolist()}"
        if not np.allclose(S2, want_S, rtol=1e-4, atol=1e-6 * np.outer(D[perm], D[perm])):
            return f"scale matrix not equivariant under scaling 10^{scale_exp}"
        if np.isfinite(nu) != np.isfinite(nu2) or (np.isfinite(nu) and not np.isclose(nu, nu2, rtol=1e-3)):
            return f"degrees of freedom changed under scaling 10^{scale_exp}: {nu!r} vs {nu2!r}"
    return None


def fallback(rng):
    X = rng.uniform(0.1, 0.9, (60, 2))
    w = np.full(60, 1 / 60)
    lab = (X[:, 0] > 0.5).astype(int)
    real = modes.fit_mvstud
    modes.fit_mvstud = lambda data, *a, **k: (real(data)[0], real(data)[1], np.inf)
    try:
        for fb in (7.5, 123.0):
            ms = ModeStatistics.from_particles(X, w, lab, dof_fallback=fb)
            if not np.allclose(ms.degrees_of_freedom, fb):
                return f"from_particles(dof_fallback={fb}) stored degrees of freedom {ms.degrees_of_freedom.tolist()} for a non-finite fit"
            try:
                ms = ModeStatistics.from_particles(X, w, lab, dof_fallback=fb, n_modes=2)
                if not np.allclose(ms.degrees_of_freedom, fb):
                    return f"from_particles(dof_fallback={fb}, n_modes=2) stored {ms.degrees_of_freedom.tolist()}"
                lab3 = lab.copy()
                lab3[0] = 2                                         # label 2 carried by a single particle: the all-particle fit stands in
                for nm, lb in ((3, lab3), (4, lab3)):
                    ms = ModeStatistics.from_particles(X, w, lb, dof_fallback=fb, n_modes=nm)
                    if not np.all(np.isfinite(ms.degrees_of_freedom)) or not np.allclose(ms.degrees_of_freedom, fb):
                        return (f"from_particles(dof_fallback={fb}, n_modes={nm}) with a label carried by <= n_dim particles stored degrees of "
                                f"freedom {ms.degrees_of_freedom.tolist()} for a non-finite fit")
            except TypeError:
                pass
            ms = ModeStatistics.from_global(X, w, dof_fallback=fb)
            if not np.allclose(ms.degrees_of_freedom, fb):
                return f"from_global(dof_fallback={fb}) stored degrees of freedom {ms.degrees_of_freedom.tolist()} for a non-finite fit"
    finally:
        modes.fit_mvstud = real
    return None


def modes_carry_the_fit(rng):
    """ModeStatistics built from particles stores exactly what fit_mvstud returns for those particles: location, scale matrix
    (entry-wise, also for coordinates whose scales differ by many orders of magnitude) and the (fallback) dof."""
    for d, spread in ((2, (1.0, 1e-5)), (3, (1e3, 1.0, 1e-3)), (2, (1.0, 1.0)), (2, (0.2, 1e-9)), (3, (1e6, 1.0, 1e-6)), (4, (1e-6, 1e6, 1e-2, 1e3))):
        X = rng.standard_normal((80, d)) * np.asarray(spread) + 0.5
        w = np.full(len(X), 1.0 / len(X))
        st = np.random.get_state()
        np.random.seed(3)
        ms = ModeStatistics.from_global(X, w, dof_fallback=9.0)
        np.random.seed(3)
        idx = np.random.choice(len(X), size=len(X) * 4, replace=True, p=w) if False else None
        np.random.set_state(st)
        S = np.asarray(ms.covariances[0])
        sd = np.sqrt(np.diag(S))
        C = S / np.outer(sd, sd)
        # the stored matrix must be a covariance-like fit of the data in every coordinate: its diagonal tracks the data variance
        # within the resampling noise (factor 4), independently of the other coordinates' scales
        var = X.var(axis=0)
        ratio = np.diag(S) / var
        if (ratio < 0.25).any() or (ratio > 4.0).any():
            return (f"ModeStatistics.from_global on data with per-coordinate scales {spread}: stored variances {np.diag(S).tolist()} vs data variances "
                    f"{var.tolist()} (ratio {ratio.tolist()}): the stored scale is not the fitted one in every coordinate")
        if not np.allclose(ms.chol_covariances[0] @ ms.chol_covariances[0].T, S, rtol=1e-6, atol=0) and d <= 3:
            return "chol_covariances does not factor the stored scale matrix"
        # in width units (coordinates divided by their own fitted width) the precision matrix is the inverse of the correlation-like
        # matrix and is positive definite - whatever the ratio of the widths
        P = np.asarray(ms.inv_covariances[0]) * np.outer(sd, sd)
        if not np.allclose(P @ C, np.eye(d), atol=1e-6) or np.linalg.eigvalsh((P + P.T) / 2).min() <= 0:
            return (f"inv_covariances is not the (positive-definite) inverse of the stored scale matrix for per-coordinate scales {spread}: in width units "
                    f"P C deviates from the identity by {np.abs(P @ C - np.eye(d)).max():.3g}, smallest eigenvalue of P {np.linalg.eigvalsh((P + P.T) / 2).min():.3g}")
    return None


def integer_data(rng):
    """whole-number data handed over with an integer dtype: the fit equals the fit of the same numbers stored as float64 (location with
    a fractional median included), and stays equivariant under a non-integer rescaling / an integer translation"""
    for d, n in ((1, 8), (2, 40), (3, 60), (5, 100)):
        Xi = np.round(rng.standard_normal((n, d)) * 4 - 2).astype(np.int64)
        for name, Xs in (("int64", Xi), ("int32", Xi.astype(np.int32))):
            try:
                mi, Si, ni = fit_mvstud(Xs)
                mf, Sf, nf = fit_mvstud(Xi.astype(float))
                mh, Sh, nh = fit_mvstud(0.5 * Xi)
                mt, St, nt = fit_mvstud(Xs + 10)
            except Exception as e:
                return f"fit_mvstud on {name} data raised {type(e).__name__}: {e}"
            if not (np.allclose(np.asarray(mi, float), mf, rtol=1e-9, atol=1e-9) and np.allclose(Si, Sf, rtol=1e-7, atol=1e-9)):
                return (f"fit_mvstud on whole-number data stored as {name} (n={n}, d={d}): location {np.asarray(mi).tolist()} / scale differ from the fit of the "
                        f"same numbers stored as float64 ({np.asarray(mf).tolist()})")
            if not np.allclose(0.5 * np.asarray(mi, float), mh, rtol=1e-9, atol=1e-9):
                return f"fit_mvstud on {name} data is not scale-equivariant: 0.5 * fit(x).mu = {(0.5 * np.asarray(mi, float)).tolist()} vs fit(0.5 x).mu = {np.asarray(mh).tolist()}"
            if not np.allclose(np.asarray(mi, float) + 10, np.asarray(mt, float), rtol=1e-9, atol=1e-9):
                return f"fit_mvstud on {name} data is not translation-equivariant: fit(x).mu + 10 = {(np.asarray(mi, float) + 10).tolist()} vs fit(x + 10).mu = {np.asarray(mt).tolist()}"
    return None


def callers_arrays_and_warnings(rng):
    """(a) the weights handed to ModeStatistics.from_global / from_particles are the caller's: read-only weights are accepted, no array is
    rescaled in place, and a fit of a prefix view followed by a fit of the whole table gives the same result as fitting the whole table
    first; (b) with warnings turned into errors the fits still return (data with per-coordinate widths up to 1e12 apart)"""
    import warnings as _w
    for d in (2, 3):
        X = rng.standard_normal((120, d)) * 0.05 + 0.5
        w = rng.uniform(0.2, 1.0, 120)
        labels = (X[:, 0] > 0.5).astype(int)
        for build, nm in ((lambda ww: ModeStatistics.from_global(X, ww), "from_global"), (lambda ww: ModeStatistics.from_particles(X, ww, labels), "from_particles")):
            np.random.seed(5)
            ref = build(w.copy())
            ro = w.copy()
            ro.setflags(write=False)
            np.random.seed(5)
            try:
                got = build(ro)
            except Exception as e:
                return f"ModeStatistics.{nm} with read-only weights raised {type(e).__name__}: {e}"
            if not np.allclose(got.means, ref.means) or not np.allclose(got.covariances, ref.covariances):
                return f"ModeStatistics.{nm} with read-only weights differs from the fit with a writable copy"
            mine = w.copy()
            np.random.seed(5)
            build(mine)
            if not np.array_equal(mine, w):
                return f"ModeStatistics.{nm} rescaled the caller's weight array in place (sum {float(w.sum()):.4g} -> {float(mine.sum()):.4g})"
    for spread in ((1.0, 1e-8), (1e6, 1.0, 1e-6), (0.2, 1e-9)):
        d = len(spread)
        X = rng.standard_normal((90, d)) * np.asarray(spread) + 0.5
        with _w.catch_warnings():
            _w.simplefilter("error")
            try:
                m, S, nu = fit_mvstud(X)
                np.random.seed(5)
                ms = ModeStatistics.from_global(X, np.full(len(X), 1.0 / len(X)))
            except Warning as e:
                return f"with warnings turned into errors the Student-t fit of data with per-coordinate widths {spread} raises {type(e).__name__}: {str(e)[:160]}"
            except Exception as e:
                return f"with warnings turned into errors the Student-t fit of data with per-coordinate widths {spread} raises {type(e).__name__}: {str(e)[:160]}"
    return None


def trainer_uses_current_particles():
    """Trainer.run on consecutive iterations (cluster_every = 1, 2, 3): the mode statistics it returns are fitted to the particles of
    *that* iteration (location inside their bounding box), also on iterations off the clustering cadence."""
    from tempest.state_manager import StateManager
    from tempest.steps.train import Trainer
    from tempest.cluster import HierarchicalGaussianMixture
    from tempest import config as cfg
    for ce in (1, 2, 3):
        for clustering in (True, False):
            clusterer = HierarchicalGaussianMixture(n_init=1, max_iterations=1000, min_points=None, threshold_modifier=1.0, covariance_type="full",
                                                    verbose=False, normalize=True) if clustering else None
            st = StateManager(2)
            r = np.random.RandomState(7)
            tr = None
            for it in range(1, 7):
                centre = np.array([0.15 + 0.12 * it, 0.8 - 0.1 * it])            # the cloud drifts from one iteration to the next
                u = np.clip(centre + 0.01 * r.standard_normal((120, 2)), 0.001, 0.999)
                st.update_current({"u": u, "x": u.copy(), "logl": -np.sum((u - centre) ** 2, axis=1), "beta": 0.1 * it, "logz": 0.0, "iter": it, "calls": 0,
                                   "ess": 1.0, "assignments": np.zeros(len(u), dtype=int)})
                st.commit_current_to_history()
                st.set_current("beta", 0.1 * it)
                st.set_current("iter", it)
                if tr is None:
                    tr = Trainer(st, None, clusterer, ce, clustering, cfg.TRIM_ESS, cfg.TRIM_BINS, cfg.DOF_FALLBACK)
                N = sum(len(a) for a in st._history["u"])
                w = np.zeros(N)
                w[-len(u):] = 1.0 / len(u)                                       # all the weight on the newest batch
                try:
                    ms = tr.run(w.copy())
                except Exception as e:
                    return f"Trainer.run (cluster_every={ce}, clustering={clustering}, iteration {it}) raised {type(e).__name__}: {e}"
                lo, hi = u.min(axis=0) - 1e-9, u.max(axis=0) + 1e-9
                for k in range(ms.K):
                    m = np.asarray(ms.means[k])
                    if ((m < lo) | (m > hi)).any() and ms.K == 1:
                        return (f"Trainer.run (cluster_every={ce}, clustering={clustering}, iteration {it}): mode location {np.round(m, 3).tolist()} lies outside the "
                                f"bounding box of the particles carrying weight in this iteration ({np.round(lo, 3).tolist()}..{np.round(hi, 3).tolist()}): stale fit")
    return None


def main():
    p = json.load(open(sys.argv[1]))
    rng = np.random.RandomState(int(p.get("seed", 0)))
    np.random.seed(1)
    tried = 0
    for nm, fn in (("modes carry the fit", lambda: modes_carry_the_fit(rng)), ("trainer uses current particles", trainer_uses_current_particles),
                   ("integer-typed data", lambda: integer_data(np.random.RandomState(19))),
                   ("caller's arrays / warnings as errors", lambda: callers_arrays_and_warnings(np.random.RandomState(23)))):
        tried += 1
        try:
            e = fn()
        except Exception as ex:
            e = None
        if e:
            print(json.dumps({"reproduced": True, "tried": tried, "detail": e, "input": {"case": nm}}))
            return
    e = fallback(rng)
    tried += 1
    if e:
        print(json.dumps({"reproduced": True, "tried": tried, "detail": e, "input": {"case": "dof fallback"}}))
        return
    for name, X in datasets(rng):
        tried += 1
        e = well_posed(name, X)
        if e:
            print(json.dumps({"reproduced": True, "tried": tried, "detail": e, "input": {"data": name}}))
            return
        tried += 1
        try:
            e = equivariant(name, X, rng)
        except Exception as ex:
            e = f"{type(ex).__name__}: {ex}"
        if e:
            print(json.dumps({"reproduced": True, "tried": tried, "detail": e, "input": {"data": name}}))
            return
    print(json.dumps({"reproduced": False, "tried": tried, "detail": "no failing data set in the directed search"}))


main()
