"""Native contract for C19 on the real fit_mvstud / ModeStatistics constructors (bounded directed search).

  well-posed   finite location inside the bounding box, symmetric positive-definite scale, dof in (0, inf]
  equivariant  per-coordinate scaling (1e-6..1e6), translation, coordinate permutation: location/scale transform, dof equal
  fallback     a non-finite dof is replaced by the *configured* dof_fallback in from_particles and from_global
"""
import json, sys, warnings
import numpy as np
from tempest.student import fit_mvstud
from tempest import modes
from tempest.modes import ModeStatistics

warnings.simplefilter("ignore")


def datasets(rng):
    out = []
    for d in (1, 2, 3, 5, 8):
        n = 4 * d + 20
        out.append((f"gaussian d={d}", rng.standard_normal((n, d)) @ np.diag(rng.uniform(0.5, 2, d))))
        out.append((f"student-t3 d={d}", rng.standard_t(3, (n, d))))
        out.append((f"skewed d={d}", rng.gamma(2.0, 1.0, (n, d))))
        X = rng.standard_normal((n, d))
        X[:3] += 25
        out.append((f"contaminated d={d}", X))
    return out


def well_posed(name, X):
    try:
        mu, S, nu = fit_mvstud(X)
    except Exception as e:
        return f"fit_mvstud raised {type(e).__name__}: {e}"
    lo, hi = X.min(axis=0), X.max(axis=0)
    if not np.all(np.isfinite(mu)) or (mu < lo - 1e-9).any() or (mu > hi + 1e-9).any():
        return f"location {mu.tolist()} not inside the bounding box"
    if not np.allclose(S, S.T, rtol=1e-9, atol=1e-12) or np.linalg.eigvalsh((S + S.T) / 2).min() <= 0:
        return "scale matrix not symmetric positive definite"
    if not (nu > 0):
        return f"degrees of freedom {nu!r} not in (0, inf]"
    return None


def equivariant(name, X, rng):
    d = X.shape[1]
    mu, S, nu = fit_mvstud(X)
    for scale_exp in (0, 3, -3, 6, -6, "mixed6", "mixed4"):
        if isinstance(scale_exp, str):
            # per-coordinate scalings at both ends of the stated range at once (ratios up to 1e12 between coordinates)
            e = float(scale_exp[-1])
            D = 10.0 ** (e * np.where(np.arange(d) % 2 == 0, 1.0, -1.0))
            scale_exp = f"+-{int(e)} alternating"
        else:
            D = 10.0 ** (scale_exp * rng.uniform(0.3, 1.0, d)) if scale_exp else np.ones(d)
        t = rng.uniform(-5, 5, d) * D
        perm = rng.permutation(d)
        Y = (X * D + t)[:, perm]
        mu2, S2, nu2 = fit_mvstud(Y)
        want_mu = (mu * D + t)[perm]
        want_S = (S * np.outer(D, D))[np.ix_(perm, perm)]
        tol = 1e-5
        if not np.allclose(mu2, want_mu, rtol=tol, atol=tol * np.abs(D[perm])):
            return f"location not equivariant under scaling 10^{scale_exp}/translation/permutation: {mu2.tolist()} vs {want_mu.tolist()}"
        if not np.allclose(S2, want_S, rtol=1e-4, atol=1e-6 * np.outer(D[perm], D[perm])):
            return f"scale matrix not equivariant under scaling 10^{scale_exp}"
        if np.isfinite(nu) != np.isfinite(nu2) or (np.isfinite(nu) and not np.isclose(nu, nu2, rtol=1e-3)):
            return f"degrees of freedom changed under scaling 10^{scale_exp}: {nu!r} vs {nu2!r}"
    return None


def fallback(rng):
    X = rng.uniform(0.1, 0.9, (60, 2))
    w = np.full(60, 1 / 60)
    lab = (X[:, 0] > 0.5).astype(int)
    real = modes.fit_mvstud
    modes.fit_mvstud = lambda data, *a, **k: (real(data)[0], real(data)[1], np.inf)
    try:
        for fb in (7.5, 123.0):
            ms = ModeStatistics.from_particles(X, w, lab, dof_fallback=fb)
            if not np.allclose(ms.degrees_of_freedom, fb):
                return f"from_particles(dof_fallback={fb}) stored degrees of freedom {ms.degrees_of_freedom.tolist()} for a non-finite fit"
            try:
                ms = ModeStatistics.from_particles(X, w, lab, dof_fallback=fb, n_modes=2)
                if not np.allclose(ms.degrees_of_freedom, fb):
                    return f"from_particles(dof_fallback={fb}, n_modes=2) stored {ms.degrees_of_freedom.tolist()}"
                lab3 = lab.copy()
                lab3[0] = 2                                         # label 2 carried by a single particle: the all-particle fit stands in
                for nm, lb in ((3, lab3), (4, lab3)):
                    ms = ModeStatistics.from_particles(X, w, lb, dof_fallback=fb, n_modes=nm)
                    if not np.all(np.isfinite(ms.degrees_of_freedom)) or not np.allclose(ms.degrees_of_freedom, fb):
                        return (f"from_particles(dof_fallback={fb}, n_modes={nm}) with a label carried by <= n_dim particles stored degrees of "
                                f"freedom {ms.degrees_of_freedom.tolist()} for a non-finite fit")
            except TypeError:
                pass
            ms = ModeStatistics.from_global(X, w, dof_fallback=fb)
            if not np.allclose(ms.degrees_of_freedom, fb):
                return f"from_global(dof_fallback={fb}) stored degrees of freedom {ms.degrees_of_freedom.tolist()} for a non-finite fit"
    finally:
        modes.fit_mvstud = real
    return None


def main():
    p = json.load(open(sys.argv[1]))
    rng = np.random.RandomState(int(p.get("seed", 0)))
    np.random.seed(1)
    tried = 0
    e = fallback(rng)
    tried += 1
    if e:
        print(json.dumps({"reproduced": True, "tried": tried, "detail": e, "input": {"case": "dof fallback"}}))
        return
    for name, X in datasets(rng):
        tried += 1
        e = well_posed(name, X)
        if e:
            print(json.dumps({"reproduced": True, "tried": tried, "detail": e, "input": {"data": name}}))
            return
        tried += 1
        try:
            e = equivariant(name, X, rng)
        except Exception as ex:
            e = f"{type(ex).__name__}: {ex}"
        if e:
            print(json.dumps({"reproduced": True, "tried": tried, "detail": e, "input": {"data": name}}))
            return
    print(json.dumps({"reproduced": False, "tried": tried, "detail": "no failing data set in the directed search"}))


main()
