"""Native runtime contract for C12 (bounded): run() postconditions and the posterior()/evidence() contract
over configurations x n_total x all 16 posterior option combinations x trimming parameters; includes resume with a
larger n_total."""
import json, sys, itertools, os, shutil, tempfile
import numpy as np
from scipy.special import logsumexp
from tempest import Sampler


def pt(u):
    return 8 * u - 4


def ll(x):
    if x[0] < -3.2:          # a region of zero likelihood: prior draws falling there are replaced during warm-up
        return -np.inf
    return float(-0.5 * np.sum((x - 0.4) ** 2) / 0.36)


def llb(x):
    return ll(x), float(np.cos(x[0]) + x[1])


def mis(s, beta_final=1.0):
    H = s.state
    beta, logz = np.asarray(H.get_history("beta"), float), np.asarray(H.get_history("logz"), float)
    l = H.get_history("logl", flat=True)
    n = np.array([len(a) for a in H._history["logl"]], float)
    b = l[:, None] * beta[None, :] - logz[None, :] + np.log(n / n.sum())[None, :]
    u = beta_final * l - logsumexp(b, axis=1)
    L = logsumexp(u)
    return u - L, L - np.log(len(u))


def llv(X):
    X = np.atleast_2d(X)
    out = -0.5 * np.sum((X - 0.4) ** 2, axis=1) / 0.36
    out[X[:, 0] < -3.2] = -np.inf
    return out


def check_post(s, n_total, blobs, light=False):
    lw, lz = mis(s)
    w = np.exp(lw)
    ess = 1.0 / np.sum(w ** 2)
    beta = s.state.get_current("beta")
    if not (1 - beta < 1e-4):
        return f"run() returned with beta={beta}"
    if ess < n_total * (1 - 1e-9):
        return f"run() returned with history ESS {ess:.1f} < n_total {n_total}"
    if abs(s.evidence()[0] - lz) > 1e-8 * (1 + abs(lz)):
        return f"evidence() {s.evidence()[0]} != MIS evidence at beta=1 recomputed from history {lz}"
    X = s.state.get_history("x", flat=True)
    if light:
        # long histories: the returned weights / log-weights against the independent evaluation, row by row
        x, wts, logl, lwr = s.posterior(resample=False, trim_importance_weights=False, return_logw=True)
        if not (len(x) == len(wts) == len(logl) == len(lwr) == len(lw)):
            return f"posterior(trim=False) on a history of {len(lw)} particles returns {len(x)} rows"
        if not np.allclose(llv(x), logl, rtol=1e-12, atol=1e-12):
            return "posterior(trim=False): logl rows do not belong to the sample rows"
        if abs(wts.sum() - 1) > 1e-9 or not np.allclose(wts, w, rtol=1e-7, atol=1e-15):
            return (f"posterior(trim=False) on a history of {len(lw)} particles: weights deviate from the mixture-importance-sampling weights recomputed "
                    f"from the stored history (max relative deviation {np.max(np.abs(wts - w) / np.maximum(w, 1e-300)):.3g})")
        if not (np.allclose(lwr, lw, rtol=1e-7, atol=1e-7) or np.allclose(lwr - lwr.max(), lw - lw.max(), rtol=1e-7, atol=1e-7)):
            return f"posterior(return_logw=True) on a history of {len(lw)} particles: log-weights deviate from the recomputed ones by {np.abs(lwr - lw).max():.3g}"
        return None
    # the arrays handed out are the caller's: editing them in place changes no later result
    ref = [np.array(o, copy=True) for o in s.posterior(resample=False, trim_importance_weights=False, return_blobs=blobs, return_logw=True)]
    for rounds in range(2):
        got = s.posterior(resample=False, trim_importance_weights=False, return_blobs=blobs, return_logw=True)
        for o, r0 in zip(got, ref):
            if np.shape(o) != r0.shape or not np.array_equal(np.asarray(o), r0):
                return "posterior(trim=False, resample=False) changed after the arrays returned by an earlier posterior() call were edited in place by the caller"
        for o in got:
            try:
                o[...] = -7.0
            except (ValueError, TypeError):
                pass
        for k in ("x", "logl", "u"):
            fl = s.state.get_history(k, flat=True)
            try:
                fl[...] = -3.0
            except (ValueError, TypeError):
                pass
    lw2, lz2 = mis(s)
    if abs(lz2 - lz) > 1e-12 or abs(s.evidence()[0] - lz) > 1e-8 * (1 + abs(lz)):
        return "the stored history / evidence() changed after arrays returned by posterior() and get_history(flat=True) were edited in place"
    X = s.state.get_history("x", flat=True)
    for rs, tr, rb, rl in itertools.product((False, True), repeat=4):
        for (et, bt) in ((0.99, 1000), (0.5, 7)):
            out = s.posterior(resample=rs, trim_importance_weights=tr, return_blobs=rb, return_logw=rl, ess_trim=et, bins_trim=bt)
            exp_len = 3 + (1 if (rb and blobs) else 0) + (1 if rl else 0)
            tag = f"posterior(resample={rs}, trim={tr}, return_blobs={rb}, return_logw={rl}, ess_trim={et}, bins_trim={bt})"
            if len(out) != exp_len:
                return f"{tag}: returns {len(out)} arrays, expected {exp_len}"
            x, wts, logl = out[0], out[1], out[2]
            if not all(len(o) == len(x) for o in out):
                return f"{tag}: output lengths {[len(o) for o in out]} differ"
            if np.any(wts < 0) or abs(wts.sum() - 1) > 1e-9:
                return f"{tag}: weights negative or sum {wts.sum()}"
            if rs and not np.allclose(wts, 1.0 / len(wts)):
                return f"{tag}: weights not uniform after resampling"
            if not np.array_equal(np.array([ll(xi) for xi in x]), logl):
                return f"{tag}: logl rows do not belong to the sample rows"
            pos = 3
            if rb and blobs:
                if not np.array_equal(np.array([llb(xi)[1] for xi in x]), np.asarray(out[pos], float).reshape(len(x))):
                    return f"{tag}: blob rows do not belong to the sample rows"
                pos += 1
            if rl:
                # each returned log-weight must be the MIS log-weight of the particle in that row
                key = {tuple(np.round(xx, 12)): v for xx, v in zip(X, lw)}
                ref = np.array([key[tuple(np.round(xi, 12))] for xi in x])
                if not np.allclose(ref, out[pos], rtol=1e-9, atol=1e-9):
                    return f"{tag}: {int(np.sum(~np.isclose(ref, out[pos], rtol=1e-9, atol=1e-9)))}/{len(x)} logw rows do not belong to the sample rows"
    return None


def main():
    tmp = tempfile.mkdtemp(prefix="c12_")
    tried = 0
    try:
        for kernel, resample, clustering, blobs, n_total in itertools.product(("tpcn", "rwm"), ("mult", "syst"), (True, False), (False, True), (64, 200)):
            if (kernel, resample, clustering) in (("rwm", "mult", True), ("tpcn", "syst", False)) and n_total == 200:
                continue
            tried += 1
            kw = dict(n_dim=2, n_particles=32, random_state=2, sample=kernel, resample=resample, clustering=clustering, output_dir=tmp)
            s = Sampler(pt, llb if blobs else ll, blobs_dtype="float" if blobs else None, **kw)
            s.run(n_total=n_total, progress=False)
            r = check_post(s, n_total, blobs)
            if r:
                print(json.dumps({"reproduced": True, "detail": r, "tried": tried,
                                  "input": dict(kernel=kernel, resample=resample, clustering=clustering, blobs=blobs, n_total=n_total)}))
                return
        # array-valued blobs (a vector per particle): every posterior() option combination returns them row-aligned, with their shape
        tried += 1

        def llvecblob(x):
            return ll(x), np.array([x[0], x[1], x[0] * x[1]])
        s = Sampler(pt, llvecblob, blobs_dtype=float, n_dim=2, n_particles=32, random_state=8, output_dir=tmp)
        s.run(n_total=96, progress=False)
        for rs, tr in itertools.product((False, True), repeat=2):
            out = s.posterior(resample=rs, trim_importance_weights=tr, return_blobs=True)
            x, b = out[0], np.asarray(out[3])
            want = np.array([[xi[0], xi[1], xi[0] * xi[1]] for xi in x])
            if b.shape != want.shape or not np.array_equal(b, want):
                print(json.dumps({"reproduced": True, "tried": tried, "detail": f"posterior(resample={rs}, trim={tr}, return_blobs=True) with a 3-vector blob per particle: blobs of shape "
                                  f"{b.shape} for {len(x)} samples (expected {want.shape}); the rows do not carry their particles' blobs", "input": {"blob": "vector(3)", "resample": rs, "trim": tr}}))
                return
        # a history of more than 2**16 particles (production-size run, vectorised likelihood)
        tried += 1
        s = Sampler(pt, llv, n_dim=2, n_particles=4096, random_state=6, clustering=False, vectorize=True, output_dir=tmp)
        s.run(n_total=40000, progress=False)
        r = check_post(s, 40000, False, light=True)
        while not r and len(s.state.get_history("logl", flat=True)) <= 2 ** 16 + 4096:
            s.sample()                                    # further iterations at beta = 1 until the history exceeds 2**16 particles
            lw, lz = mis(s)
            x, wts, logl, lwr = s.posterior(resample=False, trim_importance_weights=False, return_logw=True)
            if len(wts) != len(lw) or not np.allclose(wts, np.exp(lw), rtol=1e-7, atol=1e-15):
                r = (f"posterior(trim=False) on a history of {len(lw)} particles: weights deviate from the mixture-importance-sampling weights recomputed "
                     f"from the stored history")
        if r:
            print(json.dumps({"reproduced": True, "detail": r, "tried": tried, "input": dict(n_particles=4096, n_total=40000, vectorize=True, clustering=False)}))
            return
        # a small ensemble run for hundreds of iterations (more than 256 stored iterations)
        tried += 1
        s = Sampler(pt, ll, n_dim=2, n_particles=8, random_state=12, clustering=False, output_dir=tmp)
        s.run(n_total=2100, progress=False)
        lw, lz = mis(s)
        x, wts, logl = s.posterior(resample=False, trim_importance_weights=False)[:3]
        if abs(s.evidence()[0] - lz) > 1e-8 * (1 + abs(lz)) or len(wts) != len(lw) or not np.allclose(wts, np.exp(lw), rtol=1e-7, atol=1e-15):
            print(json.dumps({"reproduced": True, "tried": tried, "detail": f"8 particles run to n_total=2100 ({s.state.get_history_length()} stored iterations): evidence() = {s.evidence()[0]!r}, the "
                              f"mixture-importance-sampling evidence recomputed from the stored history is {lz!r}; posterior weights deviate by up to "
                              f"{float(np.max(np.abs(wts - np.exp(lw)) / np.maximum(np.exp(lw), 1e-300))) if len(wts) == len(lw) else float('nan'):.3g} (relative)",
                              "input": dict(n_particles=8, n_total=2100)}))
            return
        # a finished run extended by sample() calls, saved, and resumed with a target that is already met (no iteration to execute):
        # evidence() still equals the recomputation from the stored history
        tried += 1
        s = Sampler(pt, ll, n_dim=2, n_particles=32, random_state=14, output_dir=os.path.join(tmp, "z"))
        s.run(n_total=64, progress=False)
        for _ in range(4):
            s.sample()
        pz = os.path.join(tmp, "z", "extended.state")
        s.save_state(pz)
        s2 = Sampler(pt, ll, n_dim=2, n_particles=32, random_state=14, output_dir=os.path.join(tmp, "z2"))
        s2.run(n_total=64, progress=False, resume_state_path=pz)
        lw, lz = mis(s2)
        if abs(s2.evidence()[0] - lz) > 1e-8 * (1 + abs(lz)):
            print(json.dumps({"reproduced": True, "tried": tried, "detail": f"run(n_total=64) resumed from a state saved after run() + 4 x sample() (target already met): evidence() = "
                              f"{s2.evidence()[0]!r}, recomputed from the stored history {lz!r}", "input": {"probe": "resume-without-iterations"}}))
            return
        # resume with a larger target
        d = os.path.join(tmp, "r")
        s = Sampler(pt, ll, n_dim=2, n_particles=32, random_state=4, output_dir=d)
        s.run(n_total=64, progress=False, save_every=3)
        s2 = Sampler(pt, ll, n_dim=2, n_particles=32, random_state=4, output_dir=os.path.join(tmp, "r2"))
        s2.run(n_total=400, progress=False, resume_state_path=os.path.join(d, "ps_3.state"))
        r = check_post(s2, 400, False)
        if r:
            print(json.dumps({"reproduced": True, "detail": "after resuming with n_total=400: " + r, "input": {"probe": "resume-larger-n_total"}}))
            return
        print(json.dumps({"reproduced": False, "tried": tried + 1, "detail": "run/posterior/evidence contract held"}))
    finally:
        shutil.rmtree(tmp, ignore_errors=True)


main()
