"""Replay for C06/systematic_resample: run the real routine with the uniform draw injected and
check length / range / monotonicity / floor-ceil copies natively. If the solver's input does not
reproduce in binary64, a directed search over the (finite) partition of u0 and over weight
deficits inside the routine's own tolerance is run (bounded: stated below)."""
import json, sys, math
import numpy as np
from tempest import tools

SQRTEPS = math.sqrt(float(np.finfo(np.float64).eps))


def stub(u0):
    """the injected uniform draw: `u0` for a scalar draw; for an array draw every element is still a value in [0,1) but the elements
    differ (u0, 1-u0-eps, u0, ...) — a routine that draws one offset per position must not be handed a constant array"""
    def draw(*a, **k):
        shape = a[0] if a else k.get("size")
        if shape is None:
            return u0
        out = np.full(shape, u0, dtype=float)
        flat = out.reshape(-1)
        flat[1::2] = min(max(1.0 - u0 - 1e-9, 0.0), float(np.nextafter(1, 0)))
        return out
    return draw


def check_real_generator(size, w, seed):
    """the real seeded generator, no stub: copy counts must be floor/ceil of size*w for exactly normalised weights"""
    w = np.asarray(w, dtype=float)
    np.random.seed(seed)
    try:
        idx = np.asarray(tools.systematic_resample(size, w.copy()))
    except Exception as e:
        return f"{type(e).__name__}: {e}"
    if len(idx) != size or (idx < 0).any() or (idx >= len(w)).any() or (np.diff(idx) < 0).any():
        return f"length/range/monotonicity broken under the real generator (seed {seed})"
    copies = np.bincount(idx, minlength=len(w))
    nw = size * w / w.sum()
    bad = np.where((copies < np.floor(nw - 1e-9)) | (copies > np.ceil(nw + 1e-9)))[0]
    if len(bad):
        return f"real generator (seed {seed}): {copies[bad[0]]} copies of index {bad[0]}, size*w = {nw[bad[0]]:.4f}: not floor/ceil"
    return None


def check(size, w, u0):
    w = np.asarray(w, dtype=float)
    orig = np.random.random
    np.random.random = stub(u0)
    try:
        try:
            idx = tools.systematic_resample(size, w.copy())
        except Exception as e:
            return f"{type(e).__name__}: {e}"
    finally:
        np.random.random = orig
    idx = np.asarray(idx)
    if len(idx) != size:
        return f"returned {len(idx)} indices, expected {size}"
    if (idx < 0).any() or (idx >= len(w)).any():
        return f"index out of range: {idx.tolist()[:10]}"
    if (np.diff(idx) < 0).any():
        return "indices decrease"
    if u0 > 0:
        # floor/ceil copies w.r.t. the normalised weights, for every accepted weight vector (also sums slightly off 1); the slack
        # covers only binary64 rounding of size*w (a few ulp), not a deficit of the sum
        copies = np.bincount(idx, minlength=len(w))
        nw = size * w / w.sum()
        slack = 1e-12 * max(1.0, size)
        bad = np.where((copies < np.floor(nw - slack)) | (copies > np.ceil(nw + slack)))[0]
        if len(bad):
            return f"copies {copies[bad[0]]} of index {bad[0]} not in floor/ceil of {nw[bad[0]]}"
    return None


def concurrent_calls():
    """two or three threads resampling at the same time (two samplers driven from two threads; posterior(resample=True) from a worker
    while run() is going): weights with integer n*w_i have exactly one correct answer for every offset - n*w_i copies of i.  On a tree
    without shared state this can never fail, whatever the interleaving; with shared scratch state it fails with high probability
    (tiny switch interval, many rounds).  Bounded and probabilistic on the detection side only."""
    import threading, sys as _sys
    jobs = [(64, np.array([0.25, 0.25, 0.5])), (256, np.array([0.5, 0.25, 0.125, 0.125])), (1024, np.full(8, 0.125))]
    bad = []
    old = _sys.getswitchinterval()
    _sys.setswitchinterval(1e-6)

    def work(size, w, rounds):
        want = np.rint(size * w).astype(int)
        for _ in range(rounds):
            if bad:
                return
            idx = np.asarray(tools.systematic_resample(size, w.copy()))
            got = np.bincount(idx, minlength=len(w)) if len(idx) and idx.min() >= 0 and idx.max() < len(w) else None
            if got is None or len(idx) != size or not np.array_equal(got, want) or np.any(np.diff(idx) < 0):
                bad.append((size, w.tolist(), None if got is None else got.tolist(), want.tolist()))
                return
    try:
        for nthreads in (2, 3, 3, 3):
            ths = [threading.Thread(target=work, args=(jobs[k][0], jobs[k][1], 400)) for k in range(nthreads)]
            for t in ths:
                t.start()
            for t in ths:
                t.join()
            if bad:
                break
    finally:
        _sys.setswitchinterval(old)
    if bad:
        size, w, got, want = bad[0]
        return (f"{'two' if len(ths) == 2 else 'three'} threads calling systematic_resample concurrently: for weights {w} and n = {size} the copies are {got}, the only correct "
                f"answer for every offset is {want}: the calls share state"), {"threads": len(ths), "size": size, "weights": w}
    return None, None


def main():
    try:
        r, what = concurrent_calls()
    except Exception as e:
        r, what = None, None
    if r:
        print(json.dumps({"reproduced": True, "tried": 1, "detail": r, "input": what}))
        return
    p = json.load(open(sys.argv[1]))
    inp = p.get("input") or {}
    tried = 0
    if inp.get("w"):
        r = check(int(inp["size"]), inp["w"], float(inp["u0"]))
        tried += 1
        if r:
            print(json.dumps({"reproduced": True, "input": inp, "detail": r, "tried": tried}))
            return
    for (size, ww, u0) in ((2, [0.5 - 0.5e-9, 0.5 - 0.5e-9], 1 - 0.5e-9), (3, [1 / 3 - 1e-9, 1 / 3, 1 / 3 - 1e-9], 1 - 1e-9),
                           (5, [0.2 - 2e-9] * 5, float(np.nextafter(1, 0)))):
        tried += 1
        r = check(size, ww, u0)
        if r:
            print(json.dumps({"reproduced": True, "detail": r, "tried": tried, "input": {"size": size, "w": ww, "u0": u0}}))
            return
    rng = np.random.RandomState(0)
    # directed search: n in 1..6, size in 1..6, deficits/excess inside tolerance, u0 at partition ends
    for n in range(1, 7):
        for size in (1, 2, 3, 5, 8):
            for rep in range(6):
                w = rng.dirichlet(np.ones(n)) if rep else np.full(n, 1.0 / n)
                for dev in (0.0, -1e-9, -SQRTEPS * 0.99, 1e-9, SQRTEPS * 0.99, -1e-16):
                    ww = w.copy()
                    ww[-1] = max(ww[-1] + dev, 0.0)
                    for u0 in (0.0, 1e-300, 0.5, 1 - 1e-12, float(np.nextafter(1, 0))):
                        tried += 1
                        r = check(size, ww, u0)
                        if r:
                            print(json.dumps({"reproduced": True, "detail": r, "tried": tried,
                                              "input": {"size": size, "w": ww.tolist(), "u0": u0},
                                              "note": "found by the bounded directed search around the solver model"}))
                            return
    for n in (3, 7, 20):
        for size in (5, 16, 50):
            for seed in range(8):
                w = rng.dirichlet(np.ones(n) * 0.7)
                tried += 1
                r = check_real_generator(size, w, seed)
                if r:
                    print(json.dumps({"reproduced": True, "detail": r, "tried": tried, "input": {"size": size, "w": w.tolist(), "seed": seed, "generator": "real"}}))
                    return
    print(json.dumps({"reproduced": False, "tried": tried, "detail": "no failing input among the solver model and the directed search"}))


main()
