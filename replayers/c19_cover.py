"""Cover (reachability) check for C19's proof of the ECME update: the obligations on the update statements of fit_mvstud are proved
over the reals under the branch guard `func0(1e300) < 0`.  In binary64 the guard's left-hand side is *exactly* 0.0 for every data
set whose Mahalanobis distances are below ~1e284 ((1e300 + dim)/(1e300 + delta) rounds to 1, psi/log of (1e300 + dim)/2 and of
1e300/2 coincide), so `0.0 >= 0` sends every call down the `nu = inf` arm: the update statements never execute and the degrees of
freedom are never estimated.  This replayer asks the real function for a finite nu on large Student-t samples (where a finite nu is
the right answer) and reports when none is ever returned.  Bounded: the samples listed below."""
import json, sys
import numpy as np
from tempest.student import fit_mvstud


def main():
    tried, finite = 0, []
    rows = []
    for d, nu_true, n, seed in ((1, 3.0, 20000, 1), (2, 3.0, 20000, 2), (2, 5.0, 50000, 3), (4, 4.0, 40000, 4), (3, 8.0, 60000, 5)):
        rng = np.random.RandomState(seed)
        z = rng.standard_normal((n, d))
        g = rng.chisquare(nu_true, size=n) / nu_true
        X = z / np.sqrt(g)[:, None]
        tried += 1
        mu, S, nu = fit_mvstud(X)
        rows.append({"d": d, "nu_true": nu_true, "n": n, "seed": seed, "nu_returned": (float(nu) if np.isfinite(nu) else str(nu))})
        if np.isfinite(nu):
            finite.append((d, nu_true, float(nu)))
    if not finite:
        print(json.dumps({"reproduced": True, "tried": tried, "input": {"samples": rows},
                          "detail": "fit_mvstud returned nu = inf for every large Student-t sample tried (true nu 3..8, n up to 60000): the degrees of freedom "
                                    "are never estimated - the branch guard func0(1e300) >= 0 is decided by a value that is exactly 0.0 in binary64, the ECME "
                                    "update statements are unreachable and the configured fallback is always used (the generating nu is not recovered)"}))
        return
    bad = [(d, t, v) for d, t, v in finite if not (0.5 * t <= v <= 2.0 * t)]
    if bad and len(bad) == len(finite):
        print(json.dumps({"reproduced": True, "tried": tried, "input": {"samples": rows},
                          "detail": f"fit_mvstud returns finite degrees of freedom but none within a factor 2 of the generating value: {bad}"}))
        return
    print(json.dumps({"reproduced": False, "tried": tried, "detail": f"finite nu returned for {len(finite)} of {tried} large t samples: {finite}"}))


main()
