#!/bin/bash
# usage: tools_import_seed3.sh <PROP>  — import a round-3 sub-agent's four changes from /tmp/wt3/<PROP>/_out:
#   patch5/6 (property-breaking)  -> seeded/<PROP>_5, _6           (C14: _6, _7 since _5 exists)
#   patch7/8 (property-preserving) -> seeded_harmless/<PROP>_7, _8
# each is re-confirmed on a fresh worktree of /repo HEAD (demo on clean / patched tree, pinned test suite with the patch)
prop=$1
src=${SRC_BASE:-/tmp/wt3}/$prop/_out
imp() { # kind nsrc
  kind=$1; ns=$2
  if [ "$kind" = break ]; then base=/verif/seeded; nd=$ns; while [ -e $base/${prop}_$nd ]; do nd=$((nd+1)); done; else base=/verif/seeded_harmless; nd=$ns; fi
  [ -f $src/patch$ns.diff ] || { echo "$prop $ns: no patch"; return; }
  id=${prop}_$nd; out=$base/$id; mkdir -p $out
  cp $src/patch$ns.diff $out/patch.diff; cp $src/demo$ns.py $out/demo.py 2>/dev/null; cp $src/notes$ns.md $out/notes.md 2>/dev/null
  res=$(SEED_BASE=$base /verif/tools_reverify_seed.sh $id | grep -v conda | tail -1)
  echo "$kind $res"
  python3 - "$id" "$res" "$kind" "$base" "${ROUND:-3}" <<'PY'
import json, sys, re
id_, res, kind, base, rnd = sys.argv[1:6]
m = re.search(r"demo_head=(\d+) demo_patched=(\d+) tests_rc=(\d+) (.*)", res)
meta = {"property": id_.split("_")[0], "kind": "property-breaking" if kind == "break" else "property-preserving",
        "origin": f"fresh sub-agent (round {rnd}) given only the property text and its own scratch worktree of /repo (outside /repo and /verif)",
        "needs_to_manifest": "see notes.md (written by the sub-agent)",
        "confirmed_by_me": {"demo_on_unmodified_tree_exit": int(m.group(1)) if m else None, "demo_on_patched_tree_exit": int(m.group(2)) if m else None,
                            "test_suite_on_patched_tree": m.group(4) if m else res, "command": "tools_reverify_seed.sh (worktree under /tmp/wtv, removed afterwards)"},
        "detected_by": None}
json.dump(meta, open(f"{base}/{id_}/meta.json", "w"), indent=1)
PY
}
for n in ${BREAK_NUMS:-5 6}; do imp break $n; done; for n in ${KEEP_NUMS:-7 8}; do imp keep $n; done
