"""T-FP64: binary64 semantics for the element-wise numpy operations used by the boundary maps.

Used as `extras` of the ordinary AST interpreter: the *same* real source is executed, but array
elements are z3 Float64 terms (RNE) instead of reals.  Only small concrete shapes are run in this
mode (no quantifiers: QF_FP), the shape/index generality is proved separately over T-ARR.

Assumed model of numpy (A2-fp), cross-checked against the installed numpy on every run (bounded):
  + - * /            IEEE-754 binary64, round-to-nearest-even
  np.floor           roundToIntegral toward -inf
  x % y  (y in {1.0, 2.0})   numpy npy_divmod: m = fmod(x, y) (exact); m != 0 and m < 0 -> m + y (RNE);
                             m == 0 -> +0.0
  comparisons        IEEE (== is fp.eq: -0.0 == +0.0)
  np.abs             fp.abs
  astype(int)        x86-64 cvttsd2si: truncation inside (-2^63, 2^63), INT64_MIN outside / NaN
  int64 % 2          floor modulo (result in {0,1});  float - int64: the integer is converted RNE first
"""
import ast
import z3

from .values import (Ref, Arr, Opaque, Unsupported, PyRaise, ZS, is_conc, is_sym, to_z3, kind_of)
from . import npmodel
from .npmodel import arr_of, is_arr, bshape, bidx

F64 = z3.Float64()
BV64 = z3.BitVecSort(64)
FPK = ZS(F64)
BVK = ZS(BV64)
RNE = z3.RNE()


def fpv(x):
    return z3.FPVal(float(x), F64)


def is_fp(v):
    return isinstance(v, z3.FPRef)


def is_bv(v):
    return isinstance(v, z3.BitVecRef)


def involves(v):
    if isinstance(v, Arr):
        return v.sort == FPK or v.sort == BVK
    return is_fp(v) or is_bv(v)


def to_fp(v):
    if is_fp(v):
        return v
    if is_bv(v):
        return z3.fpSignedToFP(RNE, v, F64)
    if isinstance(v, bool):
        return fpv(1.0 if v else 0.0)
    if isinstance(v, (int, float)):
        return fpv(v)
    raise Unsupported(f"T-FP64: cannot convert {v!r} to binary64")


def fp_mod(x, y):
    """numpy float64 remainder for a constant modulus that is a power of two >= 1."""
    if not (is_conc(y) and not isinstance(y, bool) and float(y) in (1.0, 2.0)):
        raise Unsupported("T-FP64: `%` is modelled only for the constant moduli 1.0 and 2.0")
    x = to_fp(x)
    yv = fpv(y)
    q = z3.fpRoundToIntegral(z3.RTZ(), z3.fpDiv(RNE, x, yv))
    m = z3.If(z3.fpLT(z3.fpAbs(x), yv), x, z3.fpSub(RNE, x, z3.fpMul(RNE, yv, q)))      # C fmod (exact)
    return z3.If(z3.fpIsZero(m), fpv(0.0), z3.If(z3.fpLT(m, fpv(0.0)), z3.fpAdd(RNE, m, yv), m))


def fmod_exactness_lemmas():
    """Side conditions of the fmod model: the division, product and subtraction are exact (their result
    does not depend on the rounding mode) whenever the model uses them."""
    x = z3.FP("x!fm", F64)
    out = []
    for y in (1.0, 2.0):
        yv = fpv(y)
        fin = z3.And(z3.Not(z3.fpIsNaN(x)), z3.Not(z3.fpIsInf(x)), z3.fpGEQ(z3.fpAbs(x), yv))
        for mode_a, mode_b in ((z3.RTN(), z3.RTP()),):
            qa = z3.fpRoundToIntegral(z3.RTZ(), z3.fpDiv(mode_a, x, yv))
            qb = z3.fpRoundToIntegral(z3.RTZ(), z3.fpDiv(mode_b, x, yv))
            ma = z3.fpSub(mode_a, x, z3.fpMul(mode_a, yv, qa))
            mb = z3.fpSub(mode_b, x, z3.fpMul(mode_b, yv, qb))
            out.append((f"fmod-model-exact:{y}", fin, z3.And(qa == qb, z3.fpEQ(ma, mb), z3.fpLT(z3.fpAbs(ma), yv))))
    return out


def bv_of_fp(x):
    lim = fpv(2.0 ** 63)
    inr = z3.And(z3.Not(z3.fpIsNaN(x)), z3.fpLT(x, lim), z3.fpGEQ(x, z3.fpNeg(lim)))
    return z3.If(inr, z3.fpToSBV(z3.RTZ(), x, BV64), z3.BitVecVal(-(2 ** 63), 64))


def _arith(op):
    def f(a, b):
        if not (involves(a) or involves(b)):
            return npmodel.BIN[op](a, b)
        if isinstance(op, type) and op is ast.Mod or op is ast.Mod:
            if is_bv(a):
                if not (isinstance(b, int) and b > 0):
                    raise Unsupported("T-FP64: int64 % non-constant")
                return a % z3.BitVecVal(b, 64)      # bvsmod: sign follows the divisor (numpy floor modulo for b > 0)
            return fp_mod(a, b)
        if is_bv(a) and is_bv(b):
            return {ast.Add: lambda: a + b, ast.Sub: lambda: a - b, ast.Mult: lambda: a * b}[op]()
        x, y = to_fp(a), to_fp(b)
        if op is ast.Add:
            return z3.fpAdd(RNE, x, y)
        if op is ast.Sub:
            return z3.fpSub(RNE, x, y)
        if op is ast.Mult:
            return z3.fpMul(RNE, x, y)
        if op is ast.Div:
            return z3.fpDiv(RNE, x, y)
        raise Unsupported(f"T-FP64: operator {op.__name__}")
    return f


def _lift2(st, f, l, r, kind_fn):
    A, B = arr_of(st, l), arr_of(st, r)
    if A is None and B is None:
        return f(l, r)
    shape = bshape(A.shape if A is not None else None, B.shape if B is not None else None)

    def fn(*idx):
        x = bidx(A, shape, idx) if A is not None else l
        y = bidx(B, shape, idx) if B is not None else r
        return f(x, y)
    return st.new_arr(Arr(shape, fn, kind_fn(A if A is not None else l, B if B is not None else r)))


def _res_kind(op):
    def k(a, b):
        abv = (isinstance(a, Arr) and a.sort == BVK) or is_bv(a)
        bbv = (isinstance(b, Arr) and b.sort == BVK) or is_bv(b)
        if abv and (bbv or isinstance(b, int)) and op in (ast.Mod, ast.Add, ast.Sub, ast.Mult):
            return BVK
        return FPK
    return k


def binop(I, st, op, l, r, node):
    if isinstance(l, frozenset) and isinstance(r, frozenset) and isinstance(op, ast.Sub):
        return l - r
    A, B = arr_of(st, l), arr_of(st, r)
    if not (involves(A if A is not None else l) or involves(B if B is not None else r)):
        return npmodel.binop(I, st, op, l, r, node)
    t = type(op)
    if t not in (ast.Add, ast.Sub, ast.Mult, ast.Div, ast.Mod):
        raise Unsupported(f"T-FP64: binary operator {t.__name__}")
    return _lift2(st, _arith(t), l, r, _res_kind(t))


def s_cmp(op, a, b):
    if not (involves(a) or involves(b)):
        return npmodel.s_cmp(op, a, b)
    if is_bv(a) or is_bv(b):
        x = a if is_bv(a) else z3.BitVecVal(int(a), 64)
        y = b if is_bv(b) else z3.BitVecVal(int(b), 64)
        return {ast.Eq: lambda: x == y, ast.NotEq: lambda: x != y, ast.Lt: lambda: x < y,
                ast.LtE: lambda: x <= y, ast.Gt: lambda: x > y, ast.GtE: lambda: x >= y}[type(op)]()
    x, y = to_fp(a), to_fp(b)
    return {ast.Eq: lambda: z3.fpEQ(x, y), ast.NotEq: lambda: z3.Not(z3.fpEQ(x, y)), ast.Lt: lambda: z3.fpLT(x, y),
            ast.LtE: lambda: z3.fpLEQ(x, y), ast.Gt: lambda: z3.fpGT(x, y), ast.GtE: lambda: z3.fpGEQ(x, y)}[type(op)]()


def compare(I, st, op, l, r, node):
    A, B = arr_of(st, l), arr_of(st, r)
    if isinstance(op, (ast.In, ast.NotIn, ast.Is, ast.IsNot)) or not (
            involves(A if A is not None else l) or involves(B if B is not None else r)):
        return npmodel.compare(I, st, op, l, r, node)
    return _lift2(st, lambda a, b: s_cmp(op, a, b), l, r, lambda a, b: "bool")


def _lift1(st, f, v, kind):
    A = arr_of(st, v)
    if A is None:
        return f(v)
    return st.new_arr(Arr(A.shape, lambda *i: f(A.at(*i)), kind(A) if callable(kind) else kind))


def np_floor(I, st, args, kw, node):
    def f(x):
        if is_fp(x):
            return z3.fpRoundToIntegral(z3.RTN(), x)
        if is_conc(x):
            import math
            return float(math.floor(x))
        r = to_z3(x, "real")
        return z3.ToReal(z3.ToInt(r))
    return _lift1(st, f, args[0], lambda A: A.sort if A.sort == FPK else "real")


def np_abs(I, st, args, kw, node):
    A = arr_of(st, args[0])
    if not involves(A if A is not None else args[0]):
        return npmodel.np_abs(I, st, args, kw, node)
    return _lift1(st, lambda x: z3.fpAbs(to_fp(x)), args[0], FPK)


def np_where(I, st, args, kw, node):
    if len(args) != 3:
        raise Unsupported("np.where(cond) index form")
    c, a, b = args
    C, A, B = arr_of(st, c), arr_of(st, a), arr_of(st, b)
    if not (involves(A if A is not None else a) or involves(B if B is not None else b)):
        return npmodel.np_where(I, st, args, kw, node)
    if C is None:
        if A is not None or B is not None:
            raise Unsupported("np.where with scalar condition and array branches")
        cc = I.truth(c, st)
        if cc is True:
            return to_fp(a)
        if cc is False:
            return to_fp(b)
        return z3.If(cc, to_fp(a), to_fp(b))
    shape = C.shape

    def fn(*i):
        x = to_fp(bidx(A, shape, i) if A is not None else a)
        y = to_fp(bidx(B, shape, i) if B is not None else b)
        cc = C.at(*i)
        if cc is True:
            return x
        if cc is False:
            return y
        return z3.If(cc, x, y)
    return st.new_arr(Arr(shape, fn, FPK))


def _conc_shape(a):
    return all(isinstance(s, int) for s in a.shape)


def _indices(shape):
    import itertools
    return itertools.product(*[range(s) for s in shape])


def _conj(items, is_and=True):
    items = [to_z3(x) if isinstance(x, bool) else x for x in items]
    if not items:
        return is_and
    return z3.And(*items) if is_and else z3.Or(*items)


def np_all(I, st, args, kw, node, is_and=True):
    a = arr_of(st, args[0])
    axis = kw.get("axis", args[1] if len(args) > 1 else None)
    if a is None:
        return I.truth(args[0], st)
    if not _conc_shape(a):
        return (npmodel.np_all if is_and else npmodel.np_any)(I, st, args, kw, node)
    if axis is None or a.ndim == 1 and axis in (-1, 0):
        return _conj([a.at(*i) for i in _indices(a.shape)], is_and)
    if axis in (-1, a.ndim - 1):
        lead = a.shape[:-1]
        last = a.shape[-1]
        return st.new_arr(Arr(lead, lambda *i: _conj([a.at(*i, q) for q in range(last)], is_and), "bool"))
    raise Unsupported("np.all/any axis")


def np_any(I, st, args, kw, node):
    return np_all(I, st, args, kw, node, is_and=False)


def arr_astype(I, st, args, kw, node):
    a = st.arr(args[0])
    if a.sort != FPK:
        return npmodel.arr_astype(I, st, args, kw, node)
    t = args[1]
    tn = t.info.get("name") if isinstance(t, Opaque) else str(t)
    if tn == "int":
        return st.new_arr(Arr(a.shape, lambda *i: bv_of_fp(a.at(*i)), BVK))
    if tn == "float":
        return args[0]
    raise Unsupported(f"T-FP64: astype({tn})")


def scalar_astype(I, st, args, kw, node):
    x, t = args[0], args[1]
    tn = t.info.get("name") if isinstance(t, Opaque) else str(t)
    if is_fp(x):
        if tn == "int":
            return bv_of_fp(x)
        if tn == "float":
            return x
        raise Unsupported(f"T-FP64: astype({tn})")
    if tn == "int":
        return npmodel.b_int(I, st, [x], {}, node)
    if tn == "float":
        return npmodel.b_float(I, st, [x], {}, node)
    raise Unsupported(f"astype({tn}) on a scalar")


def maskstore(I, st, base, A, X, value, node):
    if A.sort != FPK:
        return npmodel.maskstore(I, st, base, A, X, value, node)
    V = arr_of(st, value)
    if X.ndim == A.ndim and V is None:
        # a[mask] = scalar with a full-shape mask
        v = to_fp(value)
        st.set_arr(base, Arr(A.shape, lambda *i: z3.If(to_z3(X.at(*i)), v, A.at(*i)), FPK))
        return
    raise Unsupported("T-FP64: masked store shape")


def setitem(I, st, base, sl, value, mod, node):
    """full-shape boolean-mask stores `a[a == c] = v` (the generic model handles 1-d row masks only)."""
    if isinstance(base, Ref) and base.kind == "arr":
        idx = npmodel.eval_slice(I, st, sl, mod)
        X = arr_of(st, idx) if is_arr(idx) else None
        A = st.arr(base)
        if X is not None and X.sort == "bool" and X.ndim == A.ndim and arr_of(st, value) is None:
            if A.sort == FPK:
                v = to_fp(value)
                st.set_arr(base, Arr(A.shape, lambda *i: z3.If(to_z3(X.at(*i)), v, A.at(*i)), FPK))
            else:
                want = "real" if A.sort == "real" else None
                st.set_arr(base, Arr(A.shape, lambda *i: z3.If(to_z3(X.at(*i)), to_z3(value, want), to_z3(A.at(*i), want)), A.sort))
            return
    return npmodel.setitem(I, st, base, sl, value, mod, node)


def np_clip(I, st, args, kw, node):
    A = arr_of(st, args[0])
    if not involves(A if A is not None else args[0]):
        return npmodel.np_clip(I, st, args, kw, node)
    lo, hi = to_fp(args[1]), to_fp(args[2])

    def f(x):
        x = to_fp(x)
        y = z3.If(z3.fpLT(x, lo), lo, x)
        return z3.If(z3.fpGT(y, hi), hi, y)
    return _lift1(st, f, args[0], FPK)


def np_fmod(I, st, args, kw, node):
    """np.fmod(x, y): C fmod (sign of the dividend), y in {1.0, 2.0}."""
    y = args[1]
    if not (is_conc(y) and float(y) in (1.0, 2.0)):
        raise Unsupported("T-FP64: np.fmod modulus")

    def f(x):
        x = to_fp(x)
        yv = fpv(y)
        q = z3.fpRoundToIntegral(z3.RTZ(), z3.fpDiv(RNE, x, yv))
        return z3.If(z3.fpLT(z3.fpAbs(x), yv), x, z3.fpSub(RNE, x, z3.fpMul(RNE, yv, q)))
    return _lift1(st, f, args[0], FPK)


def np_isfinite(I, st, args, kw, node):
    A = arr_of(st, args[0])
    if not involves(A if A is not None else args[0]):
        return npmodel.np_isfinite(I, st, args, kw, node)
    return _lift1(st, lambda x: z3.And(z3.Not(z3.fpIsNaN(x)), z3.Not(z3.fpIsInf(x))), args[0], "bool")


EXT_FP = {
    "__binop__": binop,
    "__compare__": compare,
    "__setitem__": setitem,
    "__maskstore__": maskstore,
    "numpy.floor": np_floor,
    "numpy.abs": np_abs,
    "numpy.absolute": np_abs,
    "numpy.where": np_where,
    "numpy.all": np_all,
    "numpy.any": np_any,
    "numpy.clip": np_clip,
    "numpy.fmod": np_fmod,
    "numpy.isfinite": np_isfinite,
    ("method", "arr", "astype"): arr_astype,
    ("method", "scalar", "astype"): scalar_astype,
}


def fp_input(st, names, shape):
    """array of the given concrete shape whose elements are the named Float64 constants (row-major)."""
    import itertools
    idxs = list(itertools.product(*[range(s) for s in shape]))
    vs = {i: z3.FP(n, F64) for i, n in zip(idxs, names)}
    return st.new_arr(Arr(tuple(shape), lambda *i: vs[tuple(int(str(x)) if not isinstance(x, int) else x for x in i)], FPK)), \
        [vs[i] for i in idxs]


def finite(x):
    return z3.And(z3.Not(z3.fpIsNaN(x)), z3.Not(z3.fpIsInf(x)))


def model_float(model, c):
    """python float of an FP constant in a model (None if unassigned)."""
    v = model.eval(c, model_completion=True)
    try:
        if z3.is_fp_value(v) or isinstance(v, z3.FPNumRef):
            if v.isNaN():
                return float("nan")
            if v.isInf():
                return float("-inf") if v.isNegative() else float("inf")
            import struct
            bits = model.eval(z3.fpToIEEEBV(c), model_completion=True).as_long()
            return struct.unpack("<d", struct.pack("<Q", bits))[0]
    except Exception:
        return None
    return None
