"""T-EFF data-flow (taint) analysis over the real AST: where do log-likelihood / log-evidence *values* flow?

Sources (values that change when a constant is added to the log-likelihood):
  * results of the user's likelihood: calls whose callee name ends in log_likelihood / _log_like / _evaluate_likelihood;
  * state reads of the keys "logl" and "logz" (get_current / get_history / get_last_history / dict subscripts);
  * the log-evidence component of compute_logw_and_logz (second tuple element) and its un-normalised first element
    (normalize=False); the *normalised* log-weights are untainted (C04 shift lemma);
  * attributes / names / parameters that receive such values (flow-insensitive per function, inter-procedural
    through parameters by position/keyword for calls resolved by name inside the package).
A *use* is any arithmetic, comparison, boolean test or call argument position that reads a tainted value, other than
the pass-through operations (copy, indexing, gathers, stores into containers/state, returns, tuple packing, array
construction, display).  The result maps each function to its use sites; the caller decides which functions are
covered by a relational contract.
"""
import ast

from . import eff

SOURCE_CALLS = ("log_likelihood", "_log_like", "_evaluate_likelihood")
STATE_KEYS = ("logl", "logz")
PASS_CALLS = {"items", "keys", "values", "pop", "dump", "dumps", "copy", "array", "asarray", "concatenate", "append", "set_current", "update_current", "dict", "list", "tuple",
              "update_stats", "update", "print", "squeeze", "reshape", "atleast_1d", "float", "extend", "get", "update_iter",
              "_ensure_copy", "flatten", "ravel", "astype", "isinstance", "len", "format", "int", "str", "repr", "info", "debug",
              "warn", "zip", "enumerate", "stack", "vstack", "hstack", "item", "tolist"}
DISPLAY_ATTRS = {"pbar", "progress_bar"}


class FnTaint(ast.NodeVisitor):
    PKG = set()          # last names of functions defined in the package (calls to them are followed, not reported)
    CLASSES = {}         # class name -> (module, [base names])

    def __init__(self, module, qualname, fdef, tainted_params, summaries, sanitized=()):
        self.module, self.qualname, self.fdef = module, qualname, fdef
        self.sanitized = set(sanitized)      # names proved shift-invariant by a relational obligation of this function
        self.t = set(tainted_params)          # tainted local names / "self.attr"
        self.uses = []                        # (lineno, description)
        self.calls_out = []                   # (callee last name, [arg tainted?...], {kw: tainted?}, node)
        self.returns_tainted = False
        self.summaries = summaries            # (last name) -> returns tainted? (bool or tuple of bools)
        self.changed = True
        self.local_cls = {}                   # local variable -> class name (assigned from a constructor call)
        for n in ast.walk(fdef):
            if isinstance(n, ast.Assign) and isinstance(n.value, ast.Call) and isinstance(n.value.func, ast.Name) \
                    and n.value.func.id in self.CLASSES:
                for t in n.targets:
                    if isinstance(t, ast.Name):
                        self.local_cls[t.id] = n.value.func.id

    def summary_for(self, c):
        """return-taint summary for a call, resolving `var.method()` through the variable's class when known"""
        d = eff.dotted(c.func) or ""
        parts = d.split(".")
        last = parts[-1]
        if len(parts) == 2 and parts[0] in self.local_cls:
            cls = self.local_cls[parts[0]]
            seen = set()
            while cls and cls not in seen:
                seen.add(cls)
                k = f"{cls}.{last}"
                if k in self.summaries:
                    return self.summaries[k]
                bases = self.CLASSES.get(cls, (None, []))[1]
                cls = bases[0] if bases else None
            return None
        return self.summaries.get(last)

    # ---- expression taint
    def key(self, e):
        d = eff.dotted(e)
        return d

    def tainted(self, e):
        if e is None:
            return False
        if isinstance(e, ast.Constant):
            return False
        if isinstance(e, ast.Name):
            return e.id in self.t and e.id not in self.sanitized
        if isinstance(e, ast.Attribute):
            k = self.key(e)
            if k and k in self.t:
                return True
            return self.tainted(e.value) and e.attr not in ("shape", "size", "ndim", "dtype")
        if isinstance(e, ast.Subscript):
            if isinstance(e.slice, ast.Constant) and e.slice.value in STATE_KEYS:
                return True
            return self.tainted(e.value)
        if isinstance(e, ast.Starred):
            return self.tainted(e.value)
        if isinstance(e, (ast.Tuple, ast.List)):
            return any(self.tainted(x) for x in e.elts)
        if isinstance(e, ast.Dict):
            return any(self.tainted(x) for x in e.values)
        if isinstance(e, ast.IfExp):
            return self.tainted(e.body) or self.tainted(e.orelse)
        if isinstance(e, ast.Call):
            return self.call_taint(e)
        if isinstance(e, (ast.BinOp,)):
            return self.tainted(e.left) or self.tainted(e.right)
        if isinstance(e, ast.UnaryOp):
            return self.tainted(e.operand)
        if isinstance(e, ast.Compare):
            return False     # a comparison result is a branch condition, reported as a use; the boolean itself is not a value flow
        if isinstance(e, ast.BoolOp):
            return any(self.tainted(v) for v in e.values)
        if isinstance(e, (ast.ListComp, ast.GeneratorExp)):
            return self.tainted(e.elt) or any(self.tainted(g.iter) for g in e.generators)
        return False

    def call_taint(self, c):
        d = eff.dotted(c.func) or ""
        last = d.split(".")[-1]
        if last in SOURCE_CALLS:
            return True
        if last in ("len", "isinstance", "callable", "type", "hasattr"):
            return False      # shape / type information does not carry the values
        if last in ("get_current", "get_history", "get_last_history") and c.args and isinstance(c.args[0], ast.Constant):
            return c.args[0].value in STATE_KEYS
        if last == "get_current" and not c.args:
            return True          # whole current dict contains logl/logz
        if last == "compute_logw_and_logz":
            return True          # tuple (logw, logz): element-wise handling in assignment below
        r = self.summary_for(c)
        if r is not None:
            return any(r) if isinstance(r, tuple) else bool(r)
        if last in self.PKG and not (isinstance(c.func, ast.Attribute) and self.tainted(c.func.value)):
            return False     # package function with an untainted result summary
        # methods on tainted receivers (x.mean(), x.copy(), x[idx]...) and pure functions of tainted args propagate
        if isinstance(c.func, ast.Attribute) and self.tainted(c.func.value):
            return True
        return any(self.tainted(a) for a in c.args) or any(self.tainted(k.value) for k in c.keywords)

    # ---- statements
    def bind(self, target, tainted, value=None):
        if isinstance(target, (ast.Tuple, ast.List)):
            # tuple unpacking of compute_logw_and_logz / likelihood results
            if isinstance(value, ast.Call):
                last = (eff.dotted(value.func) or "").split(".")[-1]
                if last == "compute_logw_and_logz":
                    norm = True
                    for k in value.keywords:
                        if k.arg == "normalize" and isinstance(k.value, ast.Constant):
                            norm = bool(k.value.value)
                    if len(value.args) > 1 and isinstance(value.args[1], ast.Constant):
                        norm = bool(value.args[1].value)
                    flags = [not norm, True]
                    for t, f in zip(target.elts, flags):
                        self.bind(t, f)
                    return
                sm = self.summary_for(value)
                if isinstance(sm, tuple) and len(sm) == len(target.elts):
                    for t, f in zip(target.elts, sm):
                        self.bind(t, f)
                    return
            if isinstance(value, (ast.Tuple, ast.List)) and len(value.elts) == len(target.elts):
                for t, v in zip(target.elts, value.elts):
                    self.bind(t, self.tainted(v), v)
                return
            for t in target.elts:
                self.bind(t, tainted)
            return
        if isinstance(target, ast.Name):
            if target.id in self.sanitized:
                return
            if tainted and target.id not in self.t and target.id != "_":
                self.t.add(target.id)
                self.changed = True
        elif isinstance(target, ast.Attribute):
            k = self.key(target)
            if tainted and k and k not in self.t:
                self.t.add(k)
                self.changed = True
        elif isinstance(target, ast.Subscript):
            # store into a container: the container becomes tainted
            self.bind(target.value, tainted)

    def note_use(self, node, what):
        self.uses.append((getattr(node, "lineno", 0), what))

    def scan_expr_uses(self, e, display=False):
        """report non-pass-through reads of tainted values inside expression e"""
        for n in ast.walk(e):
            if isinstance(n, ast.BinOp) and (self.tainted(n.left) or self.tainted(n.right)):
                self.note_use(n, "arithmetic: " + ast.unparse(n)[:80])
            elif isinstance(n, ast.UnaryOp) and self.tainted(n.operand):
                self.note_use(n, "arithmetic: " + ast.unparse(n)[:80])
            elif isinstance(n, ast.Compare) and (self.tainted(n.left) or any(self.tainted(c) for c in n.comparators)):
                if not all(isinstance(op, (ast.Is, ast.IsNot)) for op in n.ops):
                    self.note_use(n, "comparison: " + ast.unparse(n)[:80])
            elif isinstance(n, ast.Call):
                d = eff.dotted(n.func) or ""
                last = d.split(".")[-1] if d else (n.func.attr if isinstance(n.func, ast.Attribute) else "")
                recv_disp = any(p in DISPLAY_ATTRS for p in d.split("."))
                targs = [self.tainted(a) for a in n.args]
                tkw = {k.arg: self.tainted(k.value) for k in n.keywords if k.arg}
                any_t = any(targs) or any(tkw.values()) or (isinstance(n.func, ast.Attribute) and self.tainted(n.func.value))
                if not any_t:
                    continue
                self.calls_out.append((last, targs, tkw, n))
                if last in PASS_CALLS or recv_disp or last in SOURCE_CALLS:
                    continue
                if last in self.PKG or last in self.CLASSES or last in ("compute_logw_and_logz",):
                    continue       # package function / constructor: followed inter-procedurally
                self.note_use(n, "call: " + ast.unparse(n)[:80])

    def run(self):
        body = self.fdef.body
        for _ in range(6):
            self.changed = False
            for s in ast.walk(ast.Module(body=list(body), type_ignores=[])):
                if isinstance(s, ast.Assign):
                    tv = self.tainted(s.value)
                    for t in s.targets:
                        self.bind(t, tv, s.value)
                elif isinstance(s, ast.AugAssign):
                    if self.tainted(s.value) or self.tainted(s.target):
                        self.bind(s.target, True)
                elif isinstance(s, ast.AnnAssign) and s.value is not None:
                    self.bind(s.target, self.tainted(s.value), s.value)
                elif isinstance(s, ast.For):
                    if isinstance(s.iter, ast.Call) and isinstance(s.iter.func, ast.Attribute) and s.iter.func.attr == "items" \
                            and isinstance(s.target, ast.Tuple) and len(s.target.elts) == 2:
                        self.bind(s.target.elts[1], self.tainted(s.iter.func.value))     # keys are names, values carry the data
                    else:
                        self.bind(s.target, self.tainted(s.iter))
                elif isinstance(s, ast.Return) and s.value is not None:
                    if self.tainted(s.value):
                        self.returns_tainted = True
                elif isinstance(s, (ast.ListComp, ast.GeneratorExp)):
                    for g in s.generators:
                        self.bind(g.target, self.tainted(g.iter))
            if not self.changed:
                break
        self.uses, self.calls_out = [], []
        for s in ast.walk(ast.Module(body=list(body), type_ignores=[])):
            if isinstance(s, ast.Assign):
                self.scan_expr_uses(s.value)
            elif isinstance(s, ast.AugAssign):
                if self.tainted(s.value) or self.tainted(s.target):
                    self.note_use(s, "arithmetic: " + ast.unparse(s)[:80])
                self.scan_expr_uses(s.value)
            elif isinstance(s, (ast.Expr, ast.Return)) and s.value is not None:
                self.scan_expr_uses(s.value)
            elif isinstance(s, (ast.If, ast.While)):
                self.scan_expr_uses(s.test)
                if self.tainted(s.test):
                    self.note_use(s, "branch on: " + ast.unparse(s.test)[:80])
            elif isinstance(s, ast.For):
                self.scan_expr_uses(s.iter)
            elif isinstance(s, ast.Assert):
                self.scan_expr_uses(s.test)
        # de-duplicate
        self.uses = sorted(set(self.uses))
        return self

    def return_flags(self):
        """taint of each element when the function returns a tuple literal"""
        flags = None
        for s in ast.walk(self.fdef):
            f = None
            if isinstance(s, ast.Return) and isinstance(s.value, ast.Tuple):
                f = tuple(self.tainted(x) for x in s.value.elts)
            elif isinstance(s, ast.Return) and isinstance(s.value, ast.Call):
                sm = self.summary_for(s.value)
                if isinstance(sm, tuple):
                    f = sm
            if f is not None:
                flags = f if flags is None or len(flags) != len(f) else tuple(a or b for a, b in zip(flags, f))
        return flags if flags is not None else self.returns_tainted


def analyse(mods, seed_params=None, sanitize=None):
    """Whole-package fixpoint.  Returns {(module, qualname): FnTaint}."""
    idx = eff.qualname_index(mods)
    idx = {k: v for k, v in idx.items() if ".<locals>." not in k[1]}
    tainted_params = {k: set() for k in idx}
    for (m, q), names in (seed_params or {}).items():
        if (m, q) in tainted_params:
            tainted_params[(m, q)] |= set(names)
    # parameters whose *name* says they carry likelihood values
    for (m, q), f in idx.items():
        for a in f.args.args:
            if a.arg in ("logl", "logl_prime", "logz", "logz_new"):
                tainted_params[(m, q)].add(a.arg)
    by_last = {}
    for (m, q) in idx:
        by_last.setdefault(q.split(".")[-1], []).append((m, q))
    summaries = {}
    FnTaint.PKG = {q.split(".")[-1] for (m, q) in idx}
    FnTaint.CLASSES = {}
    for m, (tree, path, src) in mods.items():
        for n in tree.body:
            if isinstance(n, ast.ClassDef):
                FnTaint.CLASSES[n.name] = (m, [b.id for b in n.bases if isinstance(b, ast.Name)])
    # attributes tainted anywhere in a class are tainted in all its methods (self.logl)
    class_attrs = {}
    res = {}
    for it in range(8):
        changed = False
        for (m, q), f in idx.items():
            cls = q.split(".")[0] if "." in q else None
            tp = set(tainted_params[(m, q)]) | set(class_attrs.get((m, cls), ()))
            ft = FnTaint(m, q, f, tp, summaries, (sanitize or {}).get((m, q), ())).run()
            res[(m, q)] = ft
            if cls:
                attrs = {t for t in ft.t if t.startswith("self.")}
                if not attrs <= class_attrs.get((m, cls), set()):
                    class_attrs[(m, cls)] = class_attrs.get((m, cls), set()) | attrs
                    changed = True
            last = q.split(".")[-1]
            rf = ft.return_flags()
            if rf and summaries.get(q) != rf:
                summaries[q] = rf          # per-method summary (used when the receiver's class is known)
                changed = True
            if last not in ("run", "__init__", "__call__", "fit", "predict", "get", "update") and rf and summaries.get(last) != rf:
                # merge summaries of same-named functions conservatively
                old = summaries.get(last)
                if isinstance(old, tuple) and isinstance(rf, tuple) and len(old) == len(rf):
                    rf = tuple(a or b for a, b in zip(old, rf))
                if old != rf:
                    summaries[last] = rf
                    changed = True
            # parameters of callees
            for (lastc, targs, tkw, node) in ft.calls_out:
                tgts = list(by_last.get(lastc, []))
                if lastc in FnTaint.CLASSES:
                    cls_ = lastc
                    seen_ = set()
                    while cls_ and cls_ not in seen_:
                        seen_.add(cls_)
                        cm = FnTaint.CLASSES[cls_][0]
                        if (cm, f"{cls_}.__init__") in idx:
                            tgts.append((cm, f"{cls_}.__init__"))
                            break
                        bs = FnTaint.CLASSES[cls_][1]
                        cls_ = bs[0] if bs and bs[0] in FnTaint.CLASSES else None
                for tgt in tgts:
                    fd = idx[tgt]
                    params = [a.arg for a in fd.args.args]
                    if params and params[0] in ("self", "cls"):
                        params = params[1:]
                    for i, tflag in enumerate(targs):
                        if tflag and i < len(params) and params[i] not in tainted_params[tgt]:
                            tainted_params[tgt].add(params[i])
                            changed = True
                    for k, tflag in tkw.items():
                        if tflag and k in params and k not in tainted_params[tgt]:
                            tainted_params[tgt].add(k)
                            changed = True
        if not changed:
            break
    return res
