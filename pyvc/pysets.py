"""Mutable Python sets of integers for the interpreter (used as `extras`).

A set lives in the heap (aliasing and in-place `update` are modelled): cell {"__set__": frozenset}
when every element is concrete, otherwise {"__mem__": j -> z3 Bool} (characteristic predicate).
list(set) of a symbolic set is an enumeration array with the L-ENUM axioms (a bijection between
[0, m) and the members; the order is unspecified, as in CPython).
"""
import ast
import z3

from .values import Ref, Arr, Opaque, Unsupported, PyRaise, to_z3, fresh_scalar, fresh_name, is_conc, is_sym
from . import npmodel
from .npmodel import arr_of


def is_set(v):
    return isinstance(v, Ref) and v.kind == "set"


def mem_fn(st, s):
    c = st.cell(s)
    if "__mem__" in c:
        return c["__mem__"]
    items = sorted(c["__set__"])
    return lambda j: z3.Or(*[to_z3(j, "int") == it for it in items]) if items else z3.BoolVal(False)


def member_of_array(st, X):
    """InX(j) <=> j occurs in the 1-d int array X, with witness function (axioms, not definitions)."""
    key = ("member", X.uid)
    if key in st.ghost:
        return st.ghost[key]
    n = to_z3(X.shape[0], "int")
    InX = z3.Function(fresh_name("In"), z3.IntSort(), z3.BoolSort())
    wit = z3.Function(fresh_name("wit"), z3.IntSort(), z3.IntSort())
    k, j = z3.Int(fresh_name("k")), z3.Int(fresh_name("j"))
    st.assume(z3.ForAll([k], z3.Implies(z3.And(k >= 0, k < n), InX(X.at(k))), patterns=[X.at(k)]))
    st.assume(z3.ForAll([j], z3.Implies(InX(j), z3.And(wit(j) >= 0, wit(j) < n, X.at(wit(j)) == j)), patterns=[InX(j)]))
    st.ghost[key] = InX
    return InX


def elements_pred(st, v):
    """membership predicate of an iterable of ints (array, list, range, set)."""
    if is_set(v):
        return mem_fn(st, v)
    if isinstance(v, Ref) and v.kind == "arr":
        X = st.arr(v)
        if X.ndim != 1:
            raise Unsupported("set.update with n-d array")
        if isinstance(X.shape[0], int):
            items = [X.at(i) for i in range(X.shape[0])]
            return lambda j: z3.Or(*[to_z3(j, "int") == to_z3(it, "int") for it in items]) if items else z3.BoolVal(False)
        InX = member_of_array(st, X)
        return lambda j: InX(to_z3(j, "int"))
    if isinstance(v, Ref) and v.kind == "list":
        items = list(st.cell(v)["__list__"])
        return lambda j: z3.Or(*[to_z3(j, "int") == to_z3(it, "int") for it in items]) if items else z3.BoolVal(False)
    if isinstance(v, (tuple, frozenset, range)):
        items = sorted(v)
        return lambda j: z3.Or(*[to_z3(j, "int") == it for it in items]) if items else z3.BoolVal(False)
    if isinstance(v, Opaque) and v.tag == "range":
        lo, hi = to_z3(v.info["lo"], "int"), to_z3(v.info["hi"], "int")
        return lambda j: z3.And(to_z3(j, "int") >= lo, to_z3(j, "int") < hi)
    raise Unsupported(f"set from {v!r}")


def concrete_items(st, v):
    if v is None:
        return frozenset()
    if is_set(v):
        c = st.cell(v)
        return c.get("__set__")
    if isinstance(v, (tuple, frozenset, range)):
        return frozenset(v) if all(is_conc(x) for x in v) else None
    if isinstance(v, Ref) and v.kind == "list":
        items = st.cell(v)["__list__"]
        return frozenset(items) if all(is_conc(x) for x in items) else None
    if isinstance(v, Ref) and v.kind == "arr":
        X = st.arr(v)
        if X.ndim == 1 and isinstance(X.shape[0], int):
            items = [X.at(i) for i in range(X.shape[0])]
            if all(is_conc(x) for x in items):
                return frozenset(items)
    return None


def b_set(I, st, args, kw, node):
    if not args:
        return st.alloc("set", {"__set__": frozenset()})
    v = args[0]
    if v is None:
        raise PyRaise("TypeError", "'NoneType' object is not iterable")
    conc = concrete_items(st, v)
    if conc is not None:
        return st.alloc("set", {"__set__": conc})
    return st.alloc("set", {"__mem__": elements_pred(st, v)})


def set_update(I, st, args, kw, node):
    s, v = args[0], args[1]
    if v is None:
        raise PyRaise("TypeError", "'NoneType' object is not iterable")
    c = st.cell(s)
    conc = concrete_items(st, v)
    if "__set__" in c and conc is not None:
        c["__set__"] = c["__set__"] | conc
        return None
    a, b = mem_fn(st, s), elements_pred(st, v)
    c.pop("__set__", None)
    c["__mem__"] = lambda j: z3.Or(a(j), b(j))
    return None


def set_add(I, st, args, kw, node):
    return set_update(I, st, [args[0], (args[1],)], kw, node)


def set_binop(I, st, op, l, r):
    cl, cr = st.cell(l), st.cell(r)
    if "__set__" in cl and "__set__" in cr:
        f = {ast.Sub: lambda a, b: a - b, ast.BitOr: lambda a, b: a | b, ast.BitAnd: lambda a, b: a & b}.get(type(op))
        if f is None:
            raise Unsupported("set operator")
        return st.alloc("set", {"__set__": f(cl["__set__"], cr["__set__"])})
    a, b = mem_fn(st, l), mem_fn(st, r)
    if isinstance(op, ast.Sub):
        return st.alloc("set", {"__mem__": lambda j: z3.And(a(j), z3.Not(b(j)))})
    if isinstance(op, ast.BitOr):
        return st.alloc("set", {"__mem__": lambda j: z3.Or(a(j), b(j))})
    if isinstance(op, ast.BitAnd):
        return st.alloc("set", {"__mem__": lambda j: z3.And(a(j), b(j))})
    raise Unsupported("set operator")


def set_method_binop(op):
    def h(I, st, args, kw, node):
        other = args[1]
        if not is_set(other):
            other = b_set(I, st, [other], {}, node)
        return set_binop(I, st, op, args[0], other)
    return h


def enumerate_set(I, st, s):
    """list(s): enumeration array of the members (L-ENUM axioms)."""
    c = st.cell(s)
    if "__set__" in c:
        return st.new_list(sorted(c["__set__"]))
    mem = c["__mem__"]
    m = fresh_scalar("int", "m")
    L = z3.Function(fresh_name("enum"), z3.IntSort(), z3.IntSort())
    pos = z3.Function(fresh_name("pos"), z3.IntSort(), z3.IntSort())
    k, j = z3.Int(fresh_name("k")), z3.Int(fresh_name("j"))
    st.assume(m >= 0)
    st.assume(z3.ForAll([k], z3.Implies(z3.And(k >= 0, k < m), z3.And(mem(L(k)), pos(L(k)) == k)), patterns=[L(k)]))
    st.assume(z3.ForAll([j], z3.Implies(mem(j), z3.And(pos(j) >= 0, pos(j) < m, L(pos(j)) == j)), patterns=[pos(j)]))
    arr = Arr((m,), lambda i: L(to_z3(i, "int")), "int", prov=("enum", s.oid, mem, pos))
    r = st.new_arr(arr)
    st.ghost[("enum", arr.uid)] = (mem, pos, m)
    return r


def b_list(I, st, args, kw, node):
    if args and is_set(args[0]):
        return enumerate_set(I, st, args[0])
    return npmodel.b_list(I, st, args, kw, node)


def b_len(I, st, args, kw, node):
    if is_set(args[0]):
        c = st.cell(args[0])
        if "__set__" in c:
            return len(c["__set__"])
        raise Unsupported("len of symbolic set")
    return npmodel.b_len(I, st, args, kw, node)


def wrap_binop(inner):
    def binop(I, st, op, l, r, node):
        if is_set(l) and is_set(r):
            return set_binop(I, st, op, l, r)
        return inner(I, st, op, l, r, node)
    return binop


def extras(base_binop=None):
    return {
        "builtins.set": b_set,
        "builtins.list": b_list,
        "builtins.len": b_len,
        ("method", "set", "update"): set_update,
        ("method", "set", "add"): set_add,
        ("method", "set", "intersection"): set_method_binop(ast.BitAnd()),
        ("method", "set", "union"): set_method_binop(ast.BitOr()),
        ("method", "set", "difference"): set_method_binop(ast.Sub()),
        "__binop__": wrap_binop(base_binop or npmodel.binop),
    }
