from . import real, sums  # noqa
