"""T-REAL: exp / log / sqrt / pow as uninterpreted functions over the reals (assumption A1).

Axioms are *ground-instantiated* by `axioms_for(formulas)` on the terms that actually occur,
so queries stay quantifier-free wherever possible.  Every axiom is a true statement about the
real functions (listed in the evidence under trusted_base as 'T-REAL axioms').
"""
import itertools
import z3

R = z3.RealSort()
EXP = z3.Function("exp", R, R)
LOG = z3.Function("log", R, R)
SQRT = z3.Function("sqrt", R, R)
POW = z3.Function("pow", R, R, R)


def exp(x):
    return EXP(x)


def log(x):
    return LOG(x)


def sqrt(x):
    return SQRT(x)


def upow(x, y):
    return POW(x, y)


def _collect(fs, decl):
    seen, out, todo = set(), [], list(fs)
    while todo:
        t = todo.pop()
        if not z3.is_expr(t):
            continue
        k = t.get_id()
        if k in seen:
            continue
        seen.add(k)
        if z3.is_quantifier(t):
            todo.append(t.body())
            continue
        if z3.is_app(t):
            if t.decl().eq(decl) and not _has_var(t):
                out.append(t)
            todo.extend(t.children())
    return out


def _has_var(t):
    todo = [t]
    while todo:
        x = todo.pop()
        if z3.is_var(x):
            return True
        if z3.is_app(x):
            todo.extend(x.children())
    return False


def axioms_for(formulas, pairwise=True, sumsplit=True):
    """Ground instances of the exp/log/sqrt axioms for the terms occurring in `formulas`."""
    ax = []
    exps = _collect(formulas, EXP)
    logs = _collect(formulas, LOG)
    sqrts = _collect(formulas, SQRT)
    for e in exps:
        a = e.arg(0)
        ax.append(e > 0)
        ax.append(LOG(e) == a)
        ax.append(e >= 1 + a)             # convexity bound
        # exp(a+b) = exp a * exp b for syntactic sums/differences
        if sumsplit and z3.is_app(a) and a.decl().kind() in (z3.Z3_OP_ADD, z3.Z3_OP_SUB) and a.num_args() == 2:
            x, y = a.arg(0), a.arg(1)
            if a.decl().kind() == z3.Z3_OP_ADD:
                ax.append(e == EXP(x) * EXP(y))
                ax += [EXP(x) > 0, EXP(y) > 0]
            else:
                ax.append(e * EXP(y) == EXP(x))
                ax += [EXP(x) > 0, EXP(y) > 0]
    ax.append(EXP(z3.RealVal(0)) == 1)
    ax.append(LOG(z3.RealVal(1)) == 0)
    for l in logs:
        y = l.arg(0)
        ax.append(z3.Implies(y > 0, EXP(l) == y))
        ax.append(z3.Implies(y > 0, l <= y - 1))
        if z3.is_app(y) and y.decl().kind() == z3.Z3_OP_DIV:
            p, q = y.arg(0), y.arg(1)
            ax.append(z3.Implies(z3.And(p > 0, q > 0), l == LOG(p) - LOG(q)))
        if z3.is_app(y) and y.decl().kind() == z3.Z3_OP_MUL and y.num_args() == 2:
            p, q = y.arg(0), y.arg(1)
            ax.append(z3.Implies(z3.And(p > 0, q > 0), l == LOG(p) + LOG(q)))
    if pairwise and len(exps) <= 8:
        for e1, e2 in itertools.combinations(exps, 2):
            a, b = e1.arg(0), e2.arg(0)
            ax.append(z3.And(z3.Implies(a < b, e1 < e2), z3.Implies(a == b, e1 == e2), z3.Implies(a > b, e1 > e2)))
        for l1, l2 in (itertools.combinations(logs, 2) if len(logs) <= 8 else []):
            a, b = l1.arg(0), l2.arg(0)
            ax.append(z3.Implies(z3.And(a > 0, b > 0),
                                 z3.And(z3.Implies(a < b, l1 < l2), z3.Implies(a == b, l1 == l2))))
    for s in sqrts:
        x = s.arg(0)
        ax.append(z3.Implies(x >= 0, z3.And(s >= 0, s * s == x)))
    return ax
