"""T-SUM: finite sums / maxima / log-sum-exp of symbolic arrays.

For each array value a (shape (n,)) a prefix-sum function P_a : Int -> Real is introduced with
  P_a(-1) = 0,  forall m. 0 <= m < n  ->  P_a(m) = P_a(m-1) + a(m)          (definition)
and  sum(a) = P_a(n-1).  The following *lemmas* about finite sums are added as axioms
(each is provable by induction on m; they are part of the trusted base, named L-SUM-*):
  L-SUM-nonneg : (forall i<n. a(i) >= 0) -> forall m. -1<=m<n -> 0 <= P_a(m) /\\ P_a(m-1) <= P_a(m)
  L-SUM-cong   : (forall i<n. a(i) = b(i)) -> P_a(m) = P_b(m)
  L-SUM-lin    : P_{c*a}(m) = c * P_a(m),  P_{a/c} = P_a/c,  P_{a+b} = P_a + P_b, P_{a-b} = P_a - P_b
  L-SUM-const  : a(i) = c for all i  ->  P_a(m) = (m+1)*c
  L-MAX        : n >= 1 -> (exists j<n. M = a(j)) /\\ forall i<n. a(i) <= M
  L-LSE        : lse(a) = log(sum_i exp(a(i)))   (definition of np.logaddexp.reduce)
"""
import z3
from ..values import Arr, to_z3, fresh_name, fresh_scalar
from . import real

_cache = {}   # arr uid -> prefix function


def _facts(st):
    return st.ghost.setdefault("sumfacts", [])


def prefix_fn(st, a):
    key = ("P", a.uid)
    if key in st.ghost:
        return st.ghost[key]
    P = z3.Function(fresh_name("P"), z3.IntSort(), z3.RealSort())
    st.ghost[key] = P
    n = to_z3(a.shape[0], "int")
    m = z3.Int(fresh_name("m"))
    st.assume(P(-1) == 0)
    st.assume(z3.ForAll([m], z3.Implies(z3.And(m >= 0, m < n), P(m) == P(m - 1) + to_z3(a.at(m), "real")),
                        patterns=[P(m)]))
    # L-SUM-nonneg
    i = z3.Int(fresh_name("i"))
    allnn = z3.ForAll([i], z3.Implies(z3.And(i >= 0, i < n), to_z3(a.at(i), "real") >= 0))
    st.assume(z3.Implies(allnn, z3.ForAll([m], z3.Implies(z3.And(m >= -1, m < n), P(m) >= 0), patterns=[P(m)])))
    m1, m2 = z3.Int(fresh_name("m1")), z3.Int(fresh_name("m2"))
    st.assume(z3.Implies(allnn, z3.ForAll([m1, m2], z3.Implies(z3.And(m1 >= -1, m1 <= m2, m2 < n), P(m1) <= P(m2)),
                                          patterns=[z3.MultiPattern(P(m1), P(m2))])))
    # linearity / provenance lemmas
    pv = a.prov
    if pv is not None:
        kind = pv[0]
        if kind in ("scale", "div") and isinstance(pv[2], Arr) and pv[2].ndim == 1 and not isinstance(pv[1], Arr):
            c = to_z3(pv[1], "real")
            Q = prefix_fn(st, pv[2])
            if kind == "scale":
                st.assume(z3.ForAll([m], z3.Implies(z3.And(m >= -1, m < n), P(m) == c * Q(m)), patterns=[P(m)]))
            else:
                st.assume(z3.ForAll([m], z3.Implies(z3.And(m >= -1, m < n), z3.And(P(m) == Q(m) / c, z3.Implies(c != 0, P(m) * c == Q(m)))), patterns=[P(m)]))
        elif kind in ("add", "sub") and all(isinstance(x, Arr) and x.ndim == 1 for x in pv[1:3]):
            Q1, Q2 = prefix_fn(st, pv[1]), prefix_fn(st, pv[2])
            if kind == "add":
                st.assume(z3.ForAll([m], z3.Implies(z3.And(m >= -1, m < n), P(m) == Q1(m) + Q2(m)), patterns=[P(m)]))
            else:
                st.assume(z3.ForAll([m], z3.Implies(z3.And(m >= -1, m < n), P(m) == Q1(m) - Q2(m)), patterns=[P(m)]))
        elif kind == "const":
            # L-SUM-const: a(i) = c for all i  =>  P(m) = (m+1) c
            st.assume(z3.ForAll([m], z3.Implies(z3.And(m >= -1, m < n), P(m) == z3.ToReal(m + 1) * to_z3(pv[1], "real")), patterns=[P(m)]))
        elif kind == "sq" and isinstance(pv[1], Arr) and pv[1].ndim == 1:
            # L-SUM-sq-pos: non-negative x with positive sum has positive sum of squares
            x = pv[1]
            Q = prefix_fn(st, x)
            xi = z3.Int(fresh_name("i"))
            xnn = z3.ForAll([xi], z3.Implies(z3.And(xi >= 0, xi < n), to_z3(x.at(xi), "real") >= 0))
            st.assume(z3.Implies(z3.And(xnn, Q(n - 1) > 0), P(n - 1) > 0))
        elif kind == "copy" and isinstance(pv[1], Arr) and pv[1].ndim == 1:
            Q = prefix_fn(st, pv[1])
            st.assume(z3.ForAll([m], z3.Implies(z3.And(m >= -1, m < n), P(m) == Q(m)), patterns=[P(m)]))
    lst = st.ghost.get("sumarrs", [])
    st.ghost["sumarrs"] = lst + [(a, P)]
    return P


def total(st, a):
    P = prefix_fn(st, a)
    n = to_z3(a.shape[0], "int")
    return P(n - 1)


def axis_sum(st, a, axis):
    return axis_total(st, a, axis)


def maximum(st, a):
    key = ("M", a.uid)
    if key in st.ghost:
        return st.ghost[key]
    M = z3.Real(fresh_name("max"))
    jm = z3.Int(fresh_name("argmax"))
    n = to_z3(a.shape[0], "int")
    i = z3.Int(fresh_name("i"))
    st.assume(z3.Implies(n >= 1, z3.And(jm >= 0, jm < n, M == to_z3(a.at(jm), "real"))))
    st.assume(z3.ForAll([i], z3.Implies(z3.And(i >= 0, i < n), to_z3(a.at(i), "real") <= M)))
    st.ghost[key] = M
    st.ghost[("argmax", a.uid)] = jm
    return M


def lse_rows(st, a):
    """np.logaddexp.reduce(a, axis=1): log of the row sums of exp(a)."""
    e = st.ghost.get(("expof", a.uid))
    if e is None:
        e = Arr(a.shape, lambda i, j: real.exp(to_z3(a.at(i, j), "real")), "real", prov=("exp", a))
        st.ghost[("expof", a.uid)] = e
    rows = axis_total(st, e, 1)
    out = Arr((a.shape[0],), lambda i: real.log(rows.at(i)), "real", prov=("lse_rows", a, e))
    st.ghost["lse_terms"] = st.ghost.get("lse_terms", []) + [(out, a, 1)]
    return out


def lse(st, a):
    e = Arr(a.shape, lambda i: real.exp(to_z3(a.at(i), "real")), "real", prov=("exp", a))
    out = real.log(total(st, e))
    st.ghost["lse_terms"] = st.ghost.get("lse_terms", []) + [(out, a, None)]
    return out


def cong_rule(st, a, b, label):
    """L-SUM-cong as a proof rule: returns (premise, conclusion).  Premise: a and b have the same
    length and are pointwise equal (checked as an obligation for a fresh index); conclusion (assumed
    once the premise is discharged): their prefix sums coincide."""
    Pa, Pb = prefix_fn(st, a), prefix_fn(st, b)
    na, nb = to_z3(a.shape[0], "int"), to_z3(b.shape[0], "int")
    i = z3.Int(fresh_name("ic"))
    premise = z3.And(na == nb, z3.Implies(z3.And(i >= 0, i < na), to_z3(a.at(i), "real") == to_z3(b.at(i), "real")))
    m = z3.Int(fresh_name("mc"))
    concl = z3.ForAll([m], z3.Implies(z3.And(m >= -1, m < na), Pa(m) == Pb(m)), patterns=[Pa(m)])
    concl2 = z3.ForAll([m], z3.Implies(z3.And(m >= -1, m < na), Pa(m) == Pb(m)), patterns=[Pb(m)])
    return premise, z3.And(concl, concl2, Pa(na - 1) == Pb(nb - 1))


# ----------------------------------------------------------------------------- row-wise sums of 2-d arrays
def prefix2_fn(st, a, axis=1):
    """P2(i, m) = sum_{j<=m} a(i, j)  (axis=1)  or sum_{j<=m} a(j, i) (axis=0); one function per array."""
    key = ("P2", a.uid, axis)
    if key in st.ghost:
        return st.ghost[key]
    P = z3.Function(fresh_name("P2"), z3.IntSort(), z3.IntSort(), z3.RealSort())
    nrows = to_z3(a.shape[0] if axis == 1 else a.shape[1], "int")
    ncols = to_z3(a.shape[1] if axis == 1 else a.shape[0], "int")
    el = (lambda i, j: a.at(i, j)) if axis == 1 else (lambda i, j: a.at(j, i))
    i, m = z3.Int(fresh_name("i")), z3.Int(fresh_name("m"))
    st.assume(z3.ForAll([i], P(i, -1) == 0, patterns=[P(i, -1)]))
    st.assume(z3.ForAll([i, m], z3.Implies(z3.And(i >= 0, i < nrows, m >= 0, m < ncols),
                                           P(i, m) == P(i, m - 1) + to_z3(el(i, m), "real")), patterns=[P(i, m)]))
    st.ghost[key] = P
    st.ghost["sumarrs2"] = st.ghost.get("sumarrs2", []) + [(a, axis, P)]
    return P


def axis_total(st, a, axis):
    P = prefix2_fn(st, a, axis)
    ncols = to_z3(a.shape[1] if axis == 1 else a.shape[0], "int")
    nrows = a.shape[0] if axis == 1 else a.shape[1]
    return Arr((nrows,), lambda i: P(to_z3(i, "int"), ncols - 1), "real", prov=("axissum", a, axis))


def cong2_rule(st, a, b, axis=1, axis_b=None):
    """Row-wise L-SUM-cong for 2-d arrays (premise for fresh (i, j), conclusion forall rows).  axis_b != axis compares the
    sums of a along `axis` with the sums of b along `axis_b` (e.g. row sums of a transpose with column sums of the array)."""
    axis_b = axis if axis_b is None else axis_b
    Pa, Pb = prefix2_fn(st, a, axis), prefix2_fn(st, b, axis_b)
    nr = to_z3(a.shape[0] if axis == 1 else a.shape[1], "int")
    nc = to_z3(a.shape[1] if axis == 1 else a.shape[0], "int")
    nrb = to_z3(b.shape[0] if axis_b == 1 else b.shape[1], "int")
    ncb = to_z3(b.shape[1] if axis_b == 1 else b.shape[0], "int")
    ela = (lambda i, j: a.at(i, j)) if axis == 1 else (lambda i, j: a.at(j, i))
    elb = (lambda i, j: b.at(i, j)) if axis_b == 1 else (lambda i, j: b.at(j, i))
    i, j = z3.Int(fresh_name("ic")), z3.Int(fresh_name("jc"))
    premise = z3.And(nr == nrb, nc == ncb,
                     z3.Implies(z3.And(i >= 0, i < nr, j >= 0, j < nc),
                                to_z3(ela(i, j), "real") == to_z3(elb(i, j), "real")))
    r, m = z3.Int(fresh_name("r")), z3.Int(fresh_name("m"))
    concl = z3.ForAll([r, m], z3.Implies(z3.And(r >= 0, r < nr, m >= -1, m < nc), Pa(r, m) == Pb(r, m)),
                      patterns=[Pa(r, m)])
    return premise, concl


def pos_rule(st, a):
    """L-SUM-pos as a rule: premise a(i) > 0 for a fresh i and n >= 1; conclusion sum(a) > 0."""
    P = prefix_fn(st, a)
    n = to_z3(a.shape[0], "int")
    i = z3.Int(fresh_name("ip"))
    return z3.And(n >= 1, z3.Implies(z3.And(i >= 0, i < n), to_z3(a.at(i), "real") > 0)), P(n - 1) > 0


def pos2_rule(st, a, axis=1):
    P = prefix2_fn(st, a, axis)
    nr = to_z3(a.shape[0] if axis == 1 else a.shape[1], "int")
    nc = to_z3(a.shape[1] if axis == 1 else a.shape[0], "int")
    el = (lambda i, j: a.at(i, j)) if axis == 1 else (lambda i, j: a.at(j, i))
    i, j, r = z3.Int(fresh_name("ip")), z3.Int(fresh_name("jp")), z3.Int(fresh_name("rp"))
    prem = z3.And(nc >= 1, z3.Implies(z3.And(i >= 0, i < nr, j >= 0, j < nc), to_z3(el(i, j), "real") > 0))
    concl = z3.ForAll([r], z3.Implies(z3.And(r >= 0, r < nr), P(r, nc - 1) > 0), patterns=[P(r, nc - 1)])
    return prem, concl


# ----------------------------------------------------------------------------- matrix products (np.dot of 2-d arrays)
def dot_fn(st, A, B):
    """P3(a, b, m) = sum_{i<=m} A(a, i) * B(i, b); np.dot(A, B)[a, b] = P3(a, b, n-1).  Definitional axioms only."""
    key = ("P3", A.uid, B.uid)
    if key in st.ghost:
        return st.ghost[key]
    P = z3.Function(fresh_name("P3"), z3.IntSort(), z3.IntSort(), z3.IntSort(), z3.RealSort())
    p, n, q = to_z3(A.shape[0], "int"), to_z3(A.shape[1], "int"), to_z3(B.shape[1], "int")
    a, b, m = z3.Int(fresh_name("a")), z3.Int(fresh_name("b")), z3.Int(fresh_name("m"))
    st.assume(z3.ForAll([a, b], P(a, b, -1) == 0, patterns=[P(a, b, -1)]))
    st.assume(z3.ForAll([a, b, m], z3.Implies(z3.And(a >= 0, a < p, b >= 0, b < q, m >= 0, m < n),
                                              P(a, b, m) == P(a, b, m - 1) + to_z3(A.at(a, m), "real") * to_z3(B.at(m, b), "real")),
                        patterns=[P(a, b, m)]))
    st.ghost[key] = P
    st.ghost["dots"] = st.ghost.get("dots", []) + [(A, B, P)]
    return P


def dot(st, A, B):
    P = dot_fn(st, A, B)
    n = to_z3(A.shape[1], "int")
    return Arr((A.shape[0], B.shape[1]), lambda a, b: P(to_z3(a, "int"), to_z3(b, "int"), n - 1), "real", prov=("dot", A, B))


def dot_cong_rule(st, A1, B1, A2, B2, imap=None):
    """L-SUM-cong for matrix products: if the summands of (A1.B1)[a,b] and (A2.B2)[imap(a,b)] agree for every i (premise, checked
    for fresh a, b, i) then the two products agree entry-wise (conclusion).  imap defaults to the identity; imap = swap gives symmetry."""
    P1, P2 = dot_fn(st, A1, B1), dot_fn(st, A2, B2)
    imap = imap or (lambda a, b: (a, b))
    p, n, q = to_z3(A1.shape[0], "int"), to_z3(A1.shape[1], "int"), to_z3(B1.shape[1], "int")
    a, b, i = z3.Int(fresh_name("ac")), z3.Int(fresh_name("bc")), z3.Int(fresh_name("ic"))
    a2, b2 = imap(a, b)
    prem = z3.And(to_z3(A2.shape[1], "int") == n,
                  z3.Implies(z3.And(a >= 0, a < p, b >= 0, b < q, i >= 0, i < n),
                             z3.And(a2 >= 0, a2 < to_z3(A2.shape[0], "int"), b2 >= 0, b2 < to_z3(B2.shape[1], "int"),
                                    to_z3(A1.at(a, i), "real") * to_z3(B1.at(i, b), "real") ==
                                    to_z3(A2.at(a2, i), "real") * to_z3(B2.at(i, b2), "real"))))
    x, y, m = z3.Int(fresh_name("x")), z3.Int(fresh_name("y")), z3.Int(fresh_name("m"))
    x2, y2 = imap(x, y)
    concl = z3.ForAll([x, y, m], z3.Implies(z3.And(x >= 0, x < p, y >= 0, y < q, m >= -1, m < n), P1(x, y, m) == P2(x2, y2, m)),
                      patterns=[P1(x, y, m)])
    return prem, concl


def dot_nonneg_rule(st, A, B, diag_only=False):
    """summands >= 0 (premise, fresh a, b, i; with diag_only only for a == b) => entries >= 0."""
    P = dot_fn(st, A, B)
    p, n, q = to_z3(A.shape[0], "int"), to_z3(A.shape[1], "int"), to_z3(B.shape[1], "int")
    a, b, i = z3.Int(fresh_name("an")), z3.Int(fresh_name("bn")), z3.Int(fresh_name("in"))
    rng = z3.And(a >= 0, a < p, b >= 0, b < q, i >= 0, i < n)
    if diag_only:
        rng = z3.And(rng, a == b)
    prem = z3.Implies(rng, to_z3(A.at(a, i), "real") * to_z3(B.at(i, b), "real") >= 0)
    x, y, m = z3.Int(fresh_name("x")), z3.Int(fresh_name("y")), z3.Int(fresh_name("m"))
    rng2 = z3.And(x >= 0, x < p, y >= 0, y < q, m >= -1, m < n)
    if diag_only:
        rng2 = z3.And(rng2, x == y)
    return prem, z3.ForAll([x, y, m], z3.Implies(rng2, P(x, y, m) >= 0), patterns=[P(x, y, m)])


def dot_bound_rule(st, A, B, lo, hi):
    """weighted-average bound: A(a,i) >= 0 and lo(b) <= B(i,b) <= hi(b) for all i (premise) =>
    lo(b) * rowsum_A(a) <= (A.B)[a,b] <= hi(b) * rowsum_A(a)  (conclusion; induction on the summation index)."""
    P = dot_fn(st, A, B)
    R = prefix2_fn(st, A, 1)
    p, n, q = to_z3(A.shape[0], "int"), to_z3(A.shape[1], "int"), to_z3(B.shape[1], "int")
    a, b, i = z3.Int(fresh_name("ab")), z3.Int(fresh_name("bb")), z3.Int(fresh_name("ib"))
    prem = z3.Implies(z3.And(a >= 0, a < p, b >= 0, b < q, i >= 0, i < n),
                      z3.And(to_z3(A.at(a, i), "real") >= 0, lo(b) <= to_z3(B.at(i, b), "real"), to_z3(B.at(i, b), "real") <= hi(b)))
    x, y = z3.Int(fresh_name("x")), z3.Int(fresh_name("y"))
    concl = z3.ForAll([x, y], z3.Implies(z3.And(x >= 0, x < p, y >= 0, y < q),
                                         z3.And(lo(y) * R(x, n - 1) <= P(x, y, n - 1), P(x, y, n - 1) <= hi(y) * R(x, n - 1))),
                      patterns=[P(x, y, n - 1)])
    return prem, concl


def nonneg2_rule(st, a, axis=1):
    """entries >= 0 (fresh i, j) => every partial row/column sum >= 0 and monotone."""
    P = prefix2_fn(st, a, axis)
    nr = to_z3(a.shape[0] if axis == 1 else a.shape[1], "int")
    nc = to_z3(a.shape[1] if axis == 1 else a.shape[0], "int")
    el = (lambda i, j: a.at(i, j)) if axis == 1 else (lambda i, j: a.at(j, i))
    i, j = z3.Int(fresh_name("in2")), z3.Int(fresh_name("jn2"))
    prem = z3.Implies(z3.And(i >= 0, i < nr, j >= 0, j < nc), to_z3(el(i, j), "real") >= 0)
    r, m = z3.Int(fresh_name("r")), z3.Int(fresh_name("m"))
    concl = z3.ForAll([r, m], z3.Implies(z3.And(r >= 0, r < nr, m >= -1, m < nc), P(r, m) >= 0), patterns=[P(r, m)])
    return prem, concl


def total_of_totals(st, a, axis):
    """sum over all entries both ways: sum_r rowsum(r) = sum_c colsum(c)  (finite Fubini; lemma L-SUM-fubini)."""
    rows = axis_total(st, a, 1)
    cols = axis_total(st, a, 0)
    return total(st, rows) == total(st, cols)


def elem_le_rowsum_rule(st, a):
    """entries >= 0 (premise, fresh i, j) => every entry is at most its row sum (conclusion; induction on the column index)."""
    P = prefix2_fn(st, a, 1)
    nr, nc = to_z3(a.shape[0], "int"), to_z3(a.shape[1], "int")
    i, j = z3.Int(fresh_name("ie")), z3.Int(fresh_name("je"))
    prem = z3.Implies(z3.And(i >= 0, i < nr, j >= 0, j < nc), to_z3(a.at(i, j), "real") >= 0)
    r, c = z3.Int(fresh_name("r")), z3.Int(fresh_name("c"))
    concl = z3.ForAll([r, c], z3.Implies(z3.And(r >= 0, r < nr, c >= 0, c < nc), to_z3(a.at(r, c), "real") <= P(r, nc - 1)))
    return prem, concl
