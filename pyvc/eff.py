"""T-EFF: effect summaries over the real AST (global-RNG effects, call graph, state writes).

These are static analyses written for this code base (DESIGN 1.3); they are exact for the
supported subset (no setattr/exec/reflection — `scan_reflection` rejects those) and their
verdicts are syntactic facts: a violated effect obligation is definitive.
"""
import ast


def qualname_index(mods):
    """(module, qualname) -> FunctionDef for every function/method in the package."""
    idx = {}
    for m, (tree, path, src) in mods.items():
        for n in tree.body:
            if isinstance(n, ast.FunctionDef):
                idx[(m, n.name)] = n
                for sub in ast.walk(n):
                    if isinstance(sub, ast.FunctionDef) and sub is not n:
                        idx[(m, f"{n.name}.<locals>.{sub.name}")] = sub
            elif isinstance(n, ast.ClassDef):
                for f in n.body:
                    if isinstance(f, ast.FunctionDef):
                        idx[(m, f"{n.name}.{f.name}")] = f
    return idx


def dotted(e):
    """a.b.c -> 'a.b.c' for Name/Attribute chains, else None."""
    parts = []
    while isinstance(e, ast.Attribute):
        parts.append(e.attr)
        e = e.value
    if isinstance(e, ast.Name):
        parts.append(e.id)
        return ".".join(reversed(parts))
    return None


def import_aliases(tree):
    al = {}
    for n in ast.walk(tree):
        if isinstance(n, ast.Import):
            for a in n.names:
                al[a.asname or a.name.split(".")[0]] = a.name if a.asname else a.name.split(".")[0]
        elif isinstance(n, ast.ImportFrom):
            for a in n.names:
                al[a.asname or a.name] = (n.module or "") + "." + a.name
    return al


def resolve(name, aliases):
    if name is None:
        return None
    head, _, rest = name.partition(".")
    if head in aliases:
        return aliases[head] + ("." + rest if rest else "")
    return name


RNG_RESEED = {"numpy.random.seed", "numpy.random.set_state", "random.seed", "numpy.random.mtrand.seed"}
RNG_DRAW_PREFIX = "numpy.random."
RNG_PRIVATE = {"numpy.random.RandomState", "numpy.random.default_rng", "numpy.random.Generator", "numpy.random.get_state"}
NONDET = {"time.time", "time.time_ns", "time.perf_counter", "os.urandom", "uuid.uuid4", "uuid.uuid1", "datetime.datetime.now",
          "random.random", "random.randint", "random.choice", "random.shuffle", "secrets.token_bytes", "os.getpid", "id", "hash"}


def calls_in(fdef, aliases):
    out = []
    for n in ast.walk(fdef):
        if isinstance(n, ast.Call):
            d = resolve(dotted(n.func), aliases)
            out.append((n, d))
    return out


def rng_sites(mods):
    """All global-RNG reseed/draw sites in the package: [(module, qualname, kind, call, resolved)]."""
    idx = qualname_index(mods)
    sites = []
    for (m, q), f in idx.items():
        if ".<locals>." in q:
            continue
        al = import_aliases(mods[m][0])
        for n, d in calls_in(f, al):
            if d is None:
                continue
            if d in RNG_RESEED:
                sites.append((m, q, "reseed", n, d))
            elif d.startswith(RNG_DRAW_PREFIX) and d not in RNG_PRIVATE:
                sites.append((m, q, "draw", n, d))
            elif d in NONDET:
                sites.append((m, q, "nondet", n, d))
    return sites


def class_init_assignments(mods, module, cls, attr):
    """RHS expressions assigned to self.<attr> anywhere in class `cls`."""
    tree = mods[module][0]
    out = []
    for n in tree.body:
        if isinstance(n, ast.ClassDef) and n.name == cls:
            for f in n.body:
                if isinstance(f, ast.FunctionDef):
                    for s in ast.walk(f):
                        if isinstance(s, ast.Assign):
                            for t in s.targets:
                                if isinstance(t, ast.Attribute) and isinstance(t.value, ast.Name) and t.value.id == "self" \
                                        and t.attr == attr:
                                    out.append((f, s.value))
    return out


def call_sites_of(mods, target_names):
    """Call sites in the package whose callee's last name component is in target_names."""
    idx = qualname_index(mods)
    out = []
    for (m, q), f in idx.items():
        if ".<locals>." in q:
            continue
        for n in ast.walk(f):
            if isinstance(n, ast.Call):
                d = dotted(n.func)
                if d and d.split(".")[-1] in target_names:
                    out.append((m, q, n))
    return out


def arg_for(call, fdef, pname, is_method):
    """The expression passed for parameter `pname` at `call` (None if omitted -> default)."""
    params = [a.arg for a in fdef.args.args]
    if is_method and params and params[0] in ("self", "cls"):
        params = params[1:]
    for kw in call.keywords:
        if kw.arg == pname:
            return kw.value
    if pname in params:
        i = params.index(pname)
        if i < len(call.args):
            return call.args[i]
    return None


def default_of(fdef, pname):
    params = [a.arg for a in fdef.args.args]
    if pname not in params:
        return None
    i = params.index(pname) - (len(params) - len(fdef.args.defaults))
    return fdef.args.defaults[i] if i >= 0 else None


def slice_seed(mods, module, qualname, expr, depth=0, seen=None):
    """Backward slice of a seed expression.  Returns a set of origins:
    'config' (config.random_state), 'caller' (argument of a public entry point),
    'none' (None), ('literal', value, where), 'loaded:<key>' (subscript of a loaded dict), 'unknown:<src>'."""
    seen = seen or set()
    idx = qualname_index(mods)
    key = (module, qualname, ast.dump(expr))
    if key in seen or depth > 6:
        return {"unknown:recursion"}
    seen = seen | {key}
    if isinstance(expr, ast.Constant):
        if expr.value is None:
            return {"none"}
        return {("literal", expr.value, f"{module}:{getattr(expr, 'lineno', '?')}")}
    d = dotted(expr)
    if d and d.endswith("config.random_state"):
        return {"config"}
    if isinstance(expr, ast.Subscript):
        b = dotted(expr.value)
        k = expr.slice.value if isinstance(expr.slice, ast.Constant) else "?"
        return {f"loaded:{k}"}
    if isinstance(expr, ast.Call):
        dd = dotted(expr.func)
        if dd and dd.endswith(".get") and expr.args and isinstance(expr.args[0], ast.Constant):
            return {f"loaded:{expr.args[0].value}"}
        return {f"unknown:call {dd}"}
    fdef = idx.get((module, qualname))
    if isinstance(expr, ast.Name) and fdef is not None:
        params = [a.arg for a in fdef.args.args]
        if expr.id in params:
            # parameter: union over the package's call sites (+ the default when omitted)
            is_method = "." in qualname
            cls = qualname.split(".")[0] if is_method else None
            fname = qualname.split(".")[-1]
            targets = {fname} if fname != "__init__" else {cls}
            out = set()
            sites = call_sites_of(mods, targets)
            public = not fname.startswith("_") or fname == "__init__"
            for (m2, q2, call) in sites:
                a = arg_for(call, fdef, expr.id, is_method)
                if a is None:
                    dv = default_of(fdef, expr.id)
                    out |= slice_seed(mods, module, qualname, dv, depth + 1, seen) if dv is not None else {"unknown:nodefault"}
                else:
                    out |= slice_seed(mods, m2, q2, a, depth + 1, seen)
            if public:
                out.add("caller")
            return out or {"caller"}
        # local variable: slice its assignments in this function
        out = set()
        for s in ast.walk(fdef):
            if isinstance(s, ast.Assign) and any(isinstance(t, ast.Name) and t.id == expr.id for t in s.targets):
                out |= slice_seed(mods, module, qualname, s.value, depth + 1, seen)
        return out or {f"unknown:name {expr.id}"}
    if isinstance(expr, ast.Attribute) and isinstance(expr.value, ast.Name) and expr.value.id == "self" and "." in qualname:
        cls = qualname.split(".")[0]
        out = set()
        for (f, rhs) in class_init_assignments(mods, module, cls, expr.attr):
            out |= slice_seed(mods, module, f"{cls}.{f.name}", rhs, depth + 1, seen)
        return out or {f"unknown:self.{expr.attr}"}
    return {f"unknown:{ast.unparse(expr)[:40]}"}


def scan_reflection(mods):
    bad = []
    for m, (tree, path, src) in mods.items():
        for n in ast.walk(tree):
            if isinstance(n, ast.Call):
                d = dotted(n.func)
                if d in ("exec", "eval", "setattr", "globals", "__import__"):
                    bad.append((m, n.lineno, d))
    return bad


def transitive_callees(mods, module, qualname, max_depth=8):
    """Over-approximate call graph by name: set of (module, qualname) reachable."""
    idx = qualname_index(mods)
    by_name = {}
    for (m, q) in idx:
        by_name.setdefault(q.split(".")[-1], []).append((m, q))
        if q.endswith(".__init__"):
            by_name.setdefault(q.split(".")[0], []).append((m, q))
    seen, todo = set(), [(module, qualname, 0)]
    while todo:
        m, q, d = todo.pop()
        if (m, q) in seen or d > max_depth or (m, q) not in idx:
            continue
        seen.add((m, q))
        for n in ast.walk(idx[(m, q)]):
            if isinstance(n, ast.Call):
                dd = dotted(n.func)
                if dd:
                    for tgt in by_name.get(dd.split(".")[-1], []):
                        todo.append((tgt[0], tgt[1], d + 1))
    return seen
