"""Symbolic-length Python lists (history lists of the StateManager).

A symbolic list is a heap cell {'__list__': [], '__symlen__': T, '__symelem__': f} where f(k) is the
k-th element: a scalar term, or an Arr (per-iteration batch) built from an uninterpreted function.
numpy contracts used on them (assumed, A2):
  np.array(list of scalars)         -> 1-d array of the elements
  np.concatenate(list of arrays)    -> flat array of length sum_t len(batch_t); flat[s] = batch_{tt(s)}[off(s)]
                                       with (tt, off) the same maps for every list with the same batch lengths
"""
import ast
import z3

from .values import Ref, Arr, Opaque, Unsupported, PyRaise, to_z3, fresh_scalar, fresh_arr, fresh_name, is_sym
from .npmodel import ext, EXT, norm_index
from .theories import sums


def new_symlist(st, T, elem, lens=None, kind="scalar"):
    r = st.new_list([])
    c = st.cell(r)
    c["__symlen__"] = T
    c["__symelem__"] = elem
    c["__lens__"] = lens      # z3 function t -> length of batch t (arrays only)
    c["__kind__"] = kind
    return r


def length(st, v):
    """len of a list reference, concrete or symbolic."""
    c = st.cell(v)
    return c["__symlen__"] if "__symlen__" in c else len(c["__list__"])


def element(st, v, k):
    c = st.cell(v)
    if "__symlen__" in c:
        return c["__symelem__"](k)
    return c["__list__"][k]


def is_symlist(st, v):
    return isinstance(v, Ref) and v.kind == "list" and "__symlen__" in st.cell(v)


@ext("__symlist_getitem__")
def symlist_getitem(I, st, base, idx, node):
    c = st.cell(base)
    if "__symlen__" not in c:
        raise Unsupported("symbolic index into concrete list")
    k = norm_index(I, st, idx, c["__symlen__"], node, what="list-index")
    v = c["__symelem__"](k)
    if isinstance(v, Arr):
        return st.new_arr(v)
    return v


@ext("__symlist_append__")
def symlist_append(I, st, lst, value, node):
    c = st.cell(lst)
    T = c["__symlen__"]
    old = c["__symelem__"]
    Tz = to_z3(T, "int")
    if isinstance(value, Ref) and value.kind == "arr":
        V = st.arr(value)
        c["__symelem__"] = lambda k, old=old, V=V, Tz=Tz: _ite_arr(to_z3(k, "int") == Tz, V, old(k))
        if c.get("__lens__") is not None:
            ol = c["__lens__"]
            c["__lens__"] = lambda t, ol=ol, V=V, Tz=Tz: z3.If(to_z3(t, "int") == Tz, to_z3(V.shape[0], "int"), ol(t))
    else:
        c["__symelem__"] = lambda k, old=old, value=value, Tz=Tz: z3.If(to_z3(k, "int") == Tz, to_z3(value), to_z3(old(k)))
    c["__symlen__"] = Tz + 1
    st.ghost["appends"] = st.ghost.get("appends", []) + [(lst.oid, value)]
    return None


def _ite_arr(c, A, B):
    if not isinstance(B, Arr):
        raise Unsupported("append of array to scalar list")
    shape = tuple(z3.If(c, to_z3(x, "int"), to_z3(y, "int")) if not (x is y) else x for x, y in zip(A.shape, B.shape))
    return Arr(shape, lambda *i: z3.If(c, to_z3(A.at(*i)), to_z3(B.at(*i))), A.sort)


@ext("__symcomp__")
def symcomp(I, st, e, it, mod):
    """[elt for v in range(n)] / [elt for v in symlist] / [elt for v in array]: a symbolic list whose k-th
    element is elt evaluated with v bound to the k-th item (elt must be pure)."""
    g = e.generators[0]
    if g.ifs:
        raise Unsupported("filtered symbolic comprehension")
    if isinstance(it, Opaque) and it.tag == "range":
        lo, hi = it.info["lo"], it.info["hi"]
        n = to_z3(hi, "int") - to_z3(lo, "int") if not (isinstance(lo, int) and lo == 0) else to_z3(hi, "int")
        item = (lambda k: k if (isinstance(lo, int) and lo == 0) else to_z3(k, "int") + to_z3(lo, "int"))
    elif is_symlist(st, it):
        c = st.cell(it)
        n, base = c["__symlen__"], c["__symelem__"]
        item = lambda k: (st.new_arr(base(k)) if isinstance(base(k), Arr) else base(k))
    elif isinstance(it, Ref) and it.kind == "arr":
        a = st.arr(it)
        n = a.shape[0]
        item = (lambda k: a.at(k)) if a.ndim == 1 else (lambda k: st.new_arr(Arr(a.shape[1:], lambda *r: a.at(k, *r), a.sort)))
    else:
        raise Unsupported(f"comprehension over {it!r}")
    env0 = dict(st.env)
    tau = fresh_scalar("int", "tau")
    nz = to_z3(n, "int")

    def elem(k, cache={}):
        saved = st.env
        st.env = dict(env0)
        npc = len(st.pc)
        kz = to_z3(k, "int") if not isinstance(k, int) else k
        st.pc.append(z3.And(to_z3(k, "int") >= 0, to_z3(k, "int") < nz))
        try:
            I.assign(g.target, item(kz), st, mod)
            return I.eval(e.elt, st, mod)
        finally:
            del st.pc[npc:]
            st.env = saved
    probe = elem(tau)          # evaluates once symbolically: emits the element's obligations for all k
    if isinstance(probe, Ref) and probe.kind == "arr":
        kind = "array"
    elif isinstance(probe, tuple):
        kind = "tuple"
    else:
        kind = "scalar"
    if kind == "scalar":
        pz = to_z3(probe)
        f = lambda k: z3.substitute(pz, (tau, to_z3(k, "int")))
    elif kind == "array":
        P = st.arr(probe)
        f = lambda k, P=P: Arr(P.shape, lambda *r: z3.substitute(to_z3(P.at(*r)), (tau, to_z3(k, "int"))), P.sort)
    else:
        f = lambda k: tuple(z3.substitute(to_z3(x), (tau, to_z3(k, "int"))) if is_sym(x) else x for x in probe)
    r = new_symlist(st, n, f, kind=kind)
    if kind == "array":
        P = st.arr(probe)
        deps = any(is_sym(x) and tau.get_id() in _term_ids(x) for x in P.shape)
        if not deps:
            st.cell(r)["__uniform_shape__"] = tuple(P.shape)     # every element has the same shape: np.array(list) is rectangular
    return r


def _term_ids(e):
    seen, todo = set(), [e]
    while todo:
        x = todo.pop()
        if x.get_id() in seen:
            continue
        seen.add(x.get_id())
        todo.extend(x.children())
    return seen


@ext("__map__", "map(f, xs) / pool.map(f, xs): [f(x) for x in xs] in input order (A7)")
def sym_map(I, st, args, kw, node):
    fn, xs = args[0], args[1]
    if isinstance(xs, Ref) and xs.kind == "arr":
        a = st.arr(xs)
        n = a.shape[0]
        item = (lambda k: a.at(k)) if a.ndim == 1 else (lambda k: st.new_arr(Arr(a.shape[1:], lambda *r: a.at(k, *r), a.sort)))
    elif is_symlist(st, xs):
        c = st.cell(xs)
        n, item = c["__symlen__"], c["__symelem__"]
    else:
        raise Unsupported("map over concrete iterable")
    tau = fresh_scalar("int", "tau")
    r = I.call_value(fn, [item(tau)], {}, st, None, node)
    if hasattr(r, "outs"):
        if len(r.outs) != 1 or r.outs[0].kind != "return":
            raise Unsupported("mapped function forks")
        I._adopt(st, r.outs[0].state)
        r = r.outs[0].value
    st.ghost["mapped"] = st.ghost.get("mapped", []) + [(fn, n)]
    if isinstance(r, tuple):
        f = lambda k: tuple(z3.substitute(to_z3(x), (tau, to_z3(k, "int"))) if is_sym(x) else x for x in r)
        kind = "tuple"
    else:
        rz = to_z3(r)
        f = lambda k: z3.substitute(rz, (tau, to_z3(k, "int")))
        kind = "scalar"
    return new_symlist(st, n, f, kind=kind)


_np_array = EXT["numpy.array"]


@ext("numpy.array")
def np_array(I, st, args, kw, node):
    v = args[0]
    if is_symlist(st, v):
        c = st.cell(v)
        if c["__kind__"] == "array":
            shp = c.get("__uniform_shape__")
            if shp is None:
                raise Unsupported("np.array of a list of batches (ragged)")
            el0 = c["__symelem__"]
            return st.new_arr(Arr((c["__symlen__"],) + tuple(shp), lambda k, *r, el0=el0: el0(k).at(*r), el0(0).sort))
        el = c["__symelem__"]
        if c["__kind__"] == "tuple":
            p0 = el(0)
            w = len(p0)
            srt = to_z3(p0[0]).sort()

            def at2(i, j, el=el, w=w):
                t = el(i)
                if isinstance(j, int):
                    return t[j]
                e = t[-1]
                for q in range(w - 2, -1, -1):
                    e = z3.If(j == q, t[q], e)
                return e
            return st.new_arr(Arr((c["__symlen__"], w), at2, srt))
        e0 = to_z3(el(0))
        srt = "int" if z3.is_int(e0) else ("real" if z3.is_real(e0) else ("bool" if z3.is_bool(e0) else e0.sort()))
        return st.new_arr(Arr((c["__symlen__"],), lambda k: el(k), srt))
    return _np_array(I, st, args, kw, node)


def flat_maps(st, lens_key, T, lens):
    key = ("flat", lens_key)
    if key in st.ghost:
        return st.ghost[key]
    N = fresh_scalar("int", "Nflat")
    tt = z3.Function(fresh_name("tt"), z3.IntSort(), z3.IntSort())
    off = z3.Function(fresh_name("off"), z3.IntSort(), z3.IntSort())
    s = z3.Int(fresh_name("s"))
    Tz = to_z3(T, "int")
    st.assume(N >= 0)
    st.assume(z3.ForAll([s], z3.Implies(z3.And(s >= 0, s < N),
                                        z3.And(tt(s) >= 0, tt(s) < Tz, off(s) >= 0, off(s) < lens(tt(s)))),
                        patterns=[tt(s)]))
    la = Arr((T,), lambda t: lens(to_z3(t, "int")), "int")
    st.assume(sums.total(st, la) == z3.ToReal(N))      # len(concatenate) = sum of the batch lengths
    st.ghost[key] = (N, tt, off, la)
    return st.ghost[key]


@ext("numpy.concatenate", "np.concatenate(list of batches): flat array, length = sum of batch lengths, order preserved")
def np_concatenate(I, st, args, kw, node):
    v = args[0]
    if not is_symlist(st, v):
        raise Unsupported("np.concatenate of a concrete list")
    c = st.cell(v)
    if c["__kind__"] != "array" or c.get("__lens__") is None:
        raise Unsupported("np.concatenate of scalars")
    T = c["__symlen__"]
    I.oblige(f"concatenate-nonempty@{node.lineno}", st, to_z3(T, "int") >= 1, node,
             note="np.concatenate raises ValueError on an empty list")
    N, tt, off, la = flat_maps(st, c["__lenskey__"], T, c["__lens__"])
    el = c["__symelem__"]
    proto = el(0)
    rest = proto.shape[1:]
    return st.new_arr(Arr((N,) + tuple(rest), lambda s_, *r: el(tt(to_z3(s_, "int"))).at(off(to_z3(s_, "int")), *r),
                          proto.sort, prov=("flat", c.get("__key__"), v.oid)))


def make_history(st, T, scalar_keys, array_keys, n_dim=None, lens=None):
    """History dict of a well-formed StateManager (wf_history): every list has length T; batch t has
    lens(t) >= 1 rows under every array key."""
    lens = lens or z3.Function(fresh_name("n_t"), z3.IntSort(), z3.IntSort())
    t = z3.Int(fresh_name("t"))
    st.assume(z3.ForAll([t], z3.Implies(z3.And(t >= 0, t < to_z3(T, "int")), lens(t) >= 1), patterns=[lens(t)]))
    d = {}
    fns = {}
    for k in scalar_keys:
        f = z3.Function(fresh_name("H" + k), z3.IntSort(), z3.RealSort() if k not in ("iter", "calls", "steps") else z3.IntSort())
        fns[k] = f
        d[k] = new_symlist(st, T, (lambda kk, f=f: f(to_z3(kk, "int"))))
    for k in array_keys:
        two_d = k in ("u", "x")
        f = z3.Function(fresh_name("H" + k), *([z3.IntSort()] * (3 if two_d else 2)), z3.RealSort())
        fns[k] = f
        if two_d:
            el = lambda kk, f=f: Arr((lens(to_z3(kk, "int")), n_dim), lambda j, c, kk=kk: f(to_z3(kk, "int"), to_z3(j, "int"), to_z3(c, "int")), "real")
        else:
            el = lambda kk, f=f: Arr((lens(to_z3(kk, "int")),), lambda j, kk=kk: f(to_z3(kk, "int"), to_z3(j, "int")), "real")
        r = new_symlist(st, T, el, lens=lens, kind="array")
        st.cell(r)["__lenskey__"] = str(lens)
        st.cell(r)["__key__"] = k
        d[k] = r
    return st.new_dict(d), fns, lens
