"""Re-reads the real tempest source on every run (DESIGN 1.1)."""
import ast
import hashlib
import os

MODULES = {
    "tempest.tools": "tempest/tools.py",
    "tempest.state_manager": "tempest/state_manager.py",
    "tempest.core": "tempest/core.py",
    "tempest.config": "tempest/config.py",
    "tempest.sampler": "tempest/sampler.py",
    "tempest.mcmc": "tempest/mcmc.py",
    "tempest.modes": "tempest/modes.py",
    "tempest.student": "tempest/student.py",
    "tempest.cluster": "tempest/cluster.py",
    "tempest.steps.reweight": "tempest/steps/reweight.py",
    "tempest.steps.resample": "tempest/steps/resample.py",
    "tempest.steps.mutate": "tempest/steps/mutate.py",
    "tempest.steps.train": "tempest/steps/train.py",
}


def repo_root():
    return os.environ.get("VERIF_REPO", "/repo")


def load():
    mods = {}
    root = repo_root()
    for name, rel in MODULES.items():
        path = os.path.join(root, rel)
        src = open(path).read()
        mods[name] = (ast.parse(src, filename=path), path, src)
    return mods


def strip(node):
    """AST with docstrings / annotations removed (what extraction drops), for fingerprints."""
    import copy
    node = copy.deepcopy(node)
    for n in ast.walk(node):
        if isinstance(n, (ast.FunctionDef, ast.ClassDef)) and n.body and isinstance(n.body[0], ast.Expr) \
                and isinstance(n.body[0].value, ast.Constant) and isinstance(n.body[0].value.value, str):
            n.body = n.body[1:] or [ast.Pass()]
        if isinstance(n, ast.FunctionDef):
            n.returns = None
            for a in n.args.args + n.args.kwonlyargs:
                a.annotation = None
    return node


def fingerprint(fdef):
    return hashlib.sha256(ast.dump(strip(fdef)).encode()).hexdigest()[:16]


def func_info(mods, module, qualname):
    tree, path, src = mods[module]
    body = tree.body
    node = None
    for p in qualname.split("."):
        node = next((n for n in body if isinstance(n, (ast.FunctionDef, ast.ClassDef)) and n.name == p), None)
        if node is None:
            return None
        body = node.body
    return {"qualname": f"{module}.{qualname}", "file": os.path.relpath(path, repo_root()),
            "lines": [node.lineno, node.end_lineno], "ast_sha": fingerprint(node)}
