"""Assumed contracts for Python builtins and numpy primitives (assumption A2), as symbolic
transfer functions.  Every entry is part of the trusted base and is listed in the evidence.

T-REAL: exp/log/sqrt are uninterpreted with instantiated axioms (theories.real).
T-SUM : np.sum & co. are prefix-sum functions with definitional axioms (theories.sums).
"""
import ast
import z3

from .values import (Opt, Ref, Arr, Closure, BoundMethod, ModuleV, Opaque, Unsupported, PyRaise,
                     is_sym, is_conc, to_z3, fresh_scalar, fresh_arr, kind_of, is_int_like,
                     is_real_like, is_bool_like, fresh_name)
from . import theories as T

EXT = {}
TRUSTED = {}  # dotted name -> one-line statement of the assumed contract


def ext(name, doc=None):
    def deco(f):
        EXT[name] = f
        if doc:
            TRUSTED[name if isinstance(name, str) else ".".join(map(str, name))] = doc
        return f
    return deco


def arr_of(st, v):
    if isinstance(v, Ref) and v.kind == "arr":
        return st.arr(v)
    if isinstance(v, Arr):
        return v
    return None


def is_arr(v):
    return isinstance(v, Arr) or (isinstance(v, Ref) and v.kind == "arr")


def elem_kind(*vals):
    ks = []
    for v in vals:
        if isinstance(v, Arr):
            ks.append(v.sort)
        else:
            ks.append(kind_of(v))
    if any(k == "real" for k in ks):
        return "real"
    if any(k == "int" for k in ks):
        return "int"
    if all(k == "bool" for k in ks):
        return "bool"
    return ks[0]


def bshape(a, b):
    """numpy broadcasting of shapes restricted to the cases used: equal rank same shape,
    scalar vs array, (n,1)x(1,m), trailing-dim match."""
    if a is None:
        return b
    if b is None:
        return a
    if len(a) == len(b):
        out = []
        for x, y in zip(a, b):
            if isinstance(x, int) and x == 1:
                out.append(y)
            else:
                out.append(x)
        return tuple(out)
    if len(a) < len(b):
        return b
    return a


def bidx(arr, shape, idx):
    """index arr (possibly of lower rank / with size-1 dims) by a full index of `shape`."""
    if arr.ndim == 0:
        return arr.at()
    off = len(shape) - arr.ndim
    sub = []
    for d in range(arr.ndim):
        if isinstance(arr.shape[d], int) and arr.shape[d] == 1 and not (isinstance(shape[off + d], int) and shape[off + d] == 1):
            sub.append(0)
        else:
            sub.append(idx[off + d])
    return arr.at(*sub)


def lift2(I, st, f, l, r, kind=None, prov=None):
    A, B = arr_of(st, l), arr_of(st, r)
    if A is None and B is None:
        return f(l, r)
    shape = bshape(A.shape if A is not None else None, B.shape if B is not None else None)
    k = kind or elem_kind(A if A is not None else l, B if B is not None else r)

    def fn(*idx):
        x = bidx(A, shape, idx) if A is not None else l
        y = bidx(B, shape, idx) if B is not None else r
        return f(x, y)
    return st.new_arr(Arr(shape, fn, k, prov=prov))


def lift1(I, st, f, v, kind=None, prov=None):
    A = arr_of(st, v)
    if A is None:
        return f(v)
    return st.new_arr(Arr(A.shape, lambda *i: f(A.at(*i)), kind or A.sort, prov=prov))


# ---------------------------------------------------------------------------- scalar arithmetic
def s_add(a, b):
    if is_conc(a) and is_conc(b):
        return a + b
    w = "real" if (is_real_like(a) or is_real_like(b)) else None
    return to_z3(a, w) + to_z3(b, w)


def s_sub(a, b):
    if is_conc(a) and is_conc(b):
        return a - b
    w = "real" if (is_real_like(a) or is_real_like(b)) else None
    return to_z3(a, w) - to_z3(b, w)


def s_mul(a, b):
    if is_conc(a) and is_conc(b):
        return a * b
    w = "real" if (is_real_like(a) or is_real_like(b)) else None
    return to_z3(a, w) * to_z3(b, w)


def s_div(a, b):
    if is_conc(a) and is_conc(b):
        if b == 0:
            raise PyRaise("ZeroDivisionError", "division by zero")
        return a / b
    return to_z3(a, "real") / to_z3(b, "real")


def s_floordiv(a, b):
    if is_conc(a) and is_conc(b):
        return a // b
    if is_int_like(a) and is_int_like(b):
        return to_z3(a, "int") / to_z3(b, "int")
    raise Unsupported("real floor division")


def s_mod(a, b):
    if is_conc(a) and is_conc(b):
        return a % b
    if is_int_like(a) and is_int_like(b):
        return to_z3(a, "int") % to_z3(b, "int")
    if is_conc(b) and not isinstance(b, bool) and b > 0 and (is_real_like(a) or is_int_like(a)):
        # numpy/Python floor modulo over the reals (A1): a - b*floor(a/b)
        x = to_z3(a, "real")
        return x - real_const_of(b) * z3.ToReal(z3.ToInt(x / real_const_of(b)))
    raise Unsupported("real modulo with a symbolic or non-positive modulus")


def real_const_of(b):
    return to_z3(float(b), "real")


def s_pow(a, b):
    if is_conc(a) and is_conc(b):
        return a ** b
    if is_conc(b) and float(b) == 2.0:
        x = to_z3(a, "real" if is_real_like(a) or isinstance(b, float) else None)
        return x * x
    if is_conc(b) and float(b) == 1.0:
        return to_z3(a, "real") if isinstance(b, float) else a
    return T.real.upow(to_z3(a, "real"), to_z3(b, "real"))


BIN = {ast.Add: s_add, ast.Sub: s_sub, ast.Mult: s_mul, ast.Div: s_div,
       ast.FloorDiv: s_floordiv, ast.Mod: s_mod, ast.Pow: s_pow}


@ext("__binop__")
def binop(I, st, op, l, r, node):
    if isinstance(op, (ast.BitAnd, ast.BitOr)):
        f = (lambda a, b: _band(a, b)) if isinstance(op, ast.BitAnd) else (lambda a, b: _bor(a, b))
        return lift2(I, st, f, l, r, kind="bool")
    if isinstance(op, ast.MatMult):
        h = I.ext.get("numpy.matmul")
        if h is None:
            raise Unsupported("matrix product `@` has no assumed contract here")
        return h(I, st, [l, r], {}, node)
    f = BIN.get(type(op))
    if f is None:
        raise Unsupported(f"binary operator {type(op).__name__}")
    if isinstance(l, Opaque) and l.tag == "path" and isinstance(op, ast.Div):
        return Opaque("path", parent=l, name=r)
    if isinstance(l, str) or isinstance(r, str):
        if isinstance(op, (ast.Add, ast.Mod)):
            return "<str>"
        raise Unsupported("string operator")
    if isinstance(l, Opt) or isinstance(r, Opt):
        # None-or-value operand: the None case is a TypeError (obligation), then the value is used
        for o in (l, r):
            if isinstance(o, Opt):
                I.oblige(f"operand-is-not-None@{getattr(node, 'lineno', '?')}", st, o.flag, node, note="None used in arithmetic")
                st.assume(o.flag)
        l = l.value if isinstance(l, Opt) else l
        r = r.value if isinstance(r, Opt) else r
    if l is None or r is None:
        raise PyRaise("TypeError", "unsupported operand type(s): NoneType")
    if isinstance(l, tuple) and isinstance(r, tuple) and isinstance(op, ast.Add):
        return l + r
    if isinstance(l, Ref) and l.kind == "list" and isinstance(r, Ref) and r.kind == "list" and isinstance(op, ast.Add):
        return st.new_list(st.cell(l)["__list__"] + st.cell(r)["__list__"])
    A, B = arr_of(st, l), arr_of(st, r)
    prov = None
    if isinstance(op, ast.Mult):
        if A is not None and B is None:
            prov = ("scale", r, A)
        elif B is not None and A is None:
            prov = ("scale", l, B)
    elif isinstance(op, ast.Div) and A is not None and B is None:
        prov = ("div", r, A)
    elif isinstance(op, ast.Add) and A is not None and B is not None:
        prov = ("add", A, B)
    elif isinstance(op, ast.Sub) and A is not None and B is not None:
        prov = ("sub", A, B)
    elif isinstance(op, (ast.Add, ast.Sub)) and A is not None and B is None:
        prov = ("shift", r if isinstance(op, ast.Add) else s_sub(0, r), A)
    if isinstance(op, ast.Pow) and A is not None and B is None and is_conc(r) and float(r) == 2.0:
        prov = ("sq", A)
    kind = "real" if isinstance(op, ast.Div) else None
    if isinstance(op, ast.Pow):
        kind = "real" if (A is not None and A.sort == "real") or is_real_like(r) or isinstance(r, float) else None
    if isinstance(op, ast.Div) and I.check_div and B is None and A is None:
        I.oblige(f"div-nonzero@{node.lineno}", st, to_z3(r, "real") != 0, node)
    return lift2(I, st, f, l, r, kind=kind, prov=prov)


def _band(a, b):
    if isinstance(a, bool) and isinstance(b, bool):
        return a and b
    return z3.And(to_z3(a), to_z3(b))


def _bor(a, b):
    if isinstance(a, bool) and isinstance(b, bool):
        return a or b
    return z3.Or(to_z3(a), to_z3(b))


def s_cmp(op, a, b):
    if isinstance(op, (ast.Is, ast.IsNot)) and (isinstance(a, Opt) or isinstance(b, Opt)):
        o, other = (a, b) if isinstance(a, Opt) else (b, a)
        if other is not None:
            raise Unsupported("`is` between an optional value and a non-None value")
        isnone = z3.Not(o.flag)
        return isnone if isinstance(op, ast.Is) else o.flag
    if isinstance(op, (ast.Is, ast.IsNot)):
        if a is None or b is None:
            same = (a is None and b is None)
        elif is_conc(a) and is_conc(b):
            same = a is b or a == b
        elif is_sym(a) or is_sym(b):
            same = False if (a is None or b is None) else None
            if same is None:
                raise Unsupported("`is` between symbolic values")
        else:
            same = a is b or (isinstance(a, Ref) and isinstance(b, Ref) and a.oid == b.oid)
        return same if isinstance(op, ast.Is) else not same
    if a is None or b is None:
        if isinstance(op, ast.Eq):
            return a is None and b is None
        if isinstance(op, ast.NotEq):
            return not (a is None and b is None)
        raise PyRaise("TypeError", "ordering comparison with None")
    if isinstance(a, str) or isinstance(b, str):
        if isinstance(a, str) and isinstance(b, str):
            return {ast.Eq: a == b, ast.NotEq: a != b}.get(type(op), None) if type(op) in (ast.Eq, ast.NotEq) \
                else _pycmp(op, a, b)
        if isinstance(op, ast.Eq):
            return False
        if isinstance(op, ast.NotEq):
            return True
        raise PyRaise("TypeError", "ordering comparison between str and number")
    if is_conc(a) and is_conc(b):
        return _pycmp(op, a, b)
    if isinstance(a, (tuple, Opaque)) or isinstance(b, (tuple, Opaque)):
        if isinstance(a, tuple) and isinstance(b, tuple) and isinstance(op, (ast.Eq, ast.NotEq)):
            if len(a) != len(b):
                return isinstance(op, ast.NotEq)
            cs = [s_cmp(ast.Eq(), x, y) for x, y in zip(a, b)]
            if all(isinstance(c, bool) for c in cs):
                r = all(cs)
            else:
                r = z3.And(*[to_z3(c) for c in cs])
            return r if isinstance(op, ast.Eq) else (not r if isinstance(r, bool) else z3.Not(r))
        raise Unsupported("comparison of opaque values")
    if is_bool_like(a) and is_bool_like(b):
        x, y = to_z3(a), to_z3(b)
    else:
        w = "real" if (is_real_like(a) or is_real_like(b)) else None
        x, y = to_z3(a, w or ("int" if is_bool_like(a) or is_bool_like(b) else None)), \
            to_z3(b, w or ("int" if is_bool_like(a) or is_bool_like(b) else None))
        if z3.is_bool(x):
            x = z3.If(x, 1, 0)
        if z3.is_bool(y):
            y = z3.If(y, 1, 0)
    return {ast.Eq: lambda: x == y, ast.NotEq: lambda: x != y, ast.Lt: lambda: x < y,
            ast.LtE: lambda: x <= y, ast.Gt: lambda: x > y, ast.GtE: lambda: x >= y}[type(op)]()


def _pycmp(op, a, b):
    return {ast.Eq: lambda: a == b, ast.NotEq: lambda: a != b, ast.Lt: lambda: a < b,
            ast.LtE: lambda: a <= b, ast.Gt: lambda: a > b, ast.GtE: lambda: a >= b}[type(op)]()


@ext("__compare__")
def compare(I, st, op, l, r, node):
    if isinstance(op, (ast.In, ast.NotIn)):
        if isinstance(r, Ref) and r.kind == "list":
            r = tuple(st.cell(r)["__list__"])
        if isinstance(r, Ref) and r.kind == "dict":
            r = tuple(st.cell(r)["__dict__"].keys())
        if isinstance(r, (tuple, frozenset, set, str, list)):
            if is_conc(l) and all(is_conc(x) for x in r):
                res = l in r
            else:
                cs = [s_cmp(ast.Eq(), l, x) for x in r]
                if any(c is True for c in cs):
                    res = True
                else:
                    cs = [c for c in cs if c is not False]
                    res = z3.Or(*[to_z3(c) for c in cs]) if cs else False
            if isinstance(op, ast.In):
                return res
            return (not res) if isinstance(res, bool) else z3.Not(res)
        raise Unsupported("`in` on symbolic container")
    if isinstance(op, (ast.Is, ast.IsNot)):
        return s_cmp(op, l, r)
    if is_arr(l) or is_arr(r):
        return lift2(I, st, lambda a, b: s_cmp(op, a, b), l, r, kind="bool")
    return s_cmp(op, l, r)


# ---------------------------------------------------------------------------- subscripts
def norm_index(I, st, i, n, node, what="index"):
    """Python index semantics: -n <= i < n else IndexError; negative wraps."""
    if isinstance(i, int) and isinstance(n, int):
        if not (-n <= i < n):
            raise PyRaise("IndexError", f"index {i} out of range {n}")
        return i if i >= 0 else i + n
    iz, nz = to_z3(i, "int"), to_z3(n, "int")
    I.oblige(f"{what}-in-range@{getattr(node, 'lineno', '?')}", st, z3.And(iz >= -nz, iz < nz), node)
    if isinstance(i, int):
        return i if i >= 0 else iz + nz
    return z3.If(iz >= 0, iz, iz + nz)


def eval_slice(I, st, sl, mod):
    if isinstance(sl, ast.Slice):
        f = lambda x: None if x is None else I.eval(x, st, mod)
        return ("slice", f(sl.lower), f(sl.upper), f(sl.step))
    if isinstance(sl, ast.Tuple):
        return tuple(eval_slice(I, st, x, mod) for x in sl.elts)
    v = I.eval(sl, st, mod)
    if v is Ellipsis:
        return ("ellipsis",)
    return v


def _is_slice(x):
    return isinstance(x, tuple) and bool(x) and isinstance(x[0], str) and x[0] == "slice"


def _full_slice(x):
    return _is_slice(x) and x[1] is None and x[2] is None and x[3] is None


@ext("__getitem__")
def getitem(I, st, base, sl, mod, node):
    idx = eval_slice(I, st, sl, mod)
    if isinstance(base, tuple):
        if isinstance(idx, int):
            return base[idx]
        if _is_slice(idx) and all(x is None or isinstance(x, int) for x in idx[1:]):
            return base[slice(idx[1], idx[2], idx[3])]
        raise Unsupported("symbolic tuple index")
    if isinstance(base, Ref) and base.kind == "list":
        if "__symlen__" in st.cell(base):
            return I.ext["__symlist_getitem__"](I, st, base, idx, node)
        lst = st.cell(base)["__list__"]
        if isinstance(idx, int):
            if not (-len(lst) <= idx < len(lst)):
                raise PyRaise("IndexError", "list index out of range")
            return lst[idx]
        if _is_slice(idx):
            return st.new_list(lst[slice(idx[1], idx[2], idx[3])])
        h = I.ext.get("__symlist_getitem__")
        if h:
            return h(I, st, base, idx, node)
        raise Unsupported("symbolic list index")
    if isinstance(base, Ref) and base.kind == "dict":
        d = st.cell(base)["__dict__"]
        if is_conc(idx):
            if idx not in d:
                raise PyRaise("KeyError", repr(idx))
            return d[idx]
        raise Unsupported("symbolic dict key")
    if isinstance(base, Opaque):
        h = I.ext.get(("getitem", base.tag))
        if h:
            return h(I, st, base, idx, node)
    A = arr_of(st, base)
    if A is None:
        raise Unsupported(f"subscript on {base!r} (line {node.lineno})")
    return arr_getitem(I, st, A, idx, node)


def arr_getitem(I, st, A, idx, node):
    if not isinstance(idx, tuple) or _is_slice(idx):
        idx = (idx,)
    if idx and isinstance(idx[0], tuple) and idx[0] == ("ellipsis",):
        idx = tuple([("slice", None, None, None)] * (A.ndim - (len(idx) - 1))) + idx[1:]
    # np.newaxis handling: a[:, None] / a[None, :] / a[:, k, None]
    if any(x is None for x in idx if not is_sym(x)):
        shape, pos = [], []      # pos[k]: ('new',) | ('free', src) ; fixed source dims are recorded separately
        fixedn = {}
        src = 0
        for x in idx:
            if not is_sym(x) and x is None:
                shape.append(1)
                pos.append(None)
            elif _full_slice(x):
                shape.append(A.shape[src])
                pos.append(src)
                src += 1
            elif _is_slice(x) or is_arr(x) or isinstance(x, Ref):
                raise Unsupported("newaxis mixed with partial slices / fancy indices")
            else:
                fixedn[src] = norm_index(I, st, x, A.shape[src], node)
                src += 1
        while src < A.ndim:
            shape.append(A.shape[src])
            pos.append(src)
            src += 1

        def fn_na(*i, pos=pos, fixedn=fixedn):
            full = [None] * A.ndim
            for k, p_ in enumerate(pos):
                if p_ is not None:
                    full[p_] = i[k]
            for d_, v_ in fixedn.items():
                full[d_] = v_
            return A.at(*full)
        return st.new_arr(Arr(tuple(shape), fn_na, A.sort))
    if len(idx) > A.ndim:
        raise PyRaise("IndexError", "too many indices for array")
    idx = tuple(idx) + tuple([("slice", None, None, None)] * (A.ndim - len(idx)))
    # classify
    fixed, newshape, mapping = {}, [], []
    for d, x in enumerate(idx):
        if _is_slice(x):
            lo, hi, step = x[1], x[2], x[3]
            if step is not None:
                raise Unsupported("slice step")
            n = A.shape[d]
            if lo is None and hi is None:
                newshape.append(n)
                mapping.append((d, 0))
            else:
                lo = 0 if lo is None else lo
                hi = n if hi is None else hi
                if isinstance(lo, int) and lo < 0 or isinstance(hi, int) and hi < 0:
                    raise Unsupported("negative slice bound")
                # python clamps; we require 0 <= lo <= hi <= n as an obligation (stronger, reported)
                I.oblige(f"slice-in-range@{node.lineno}", st,
                         z3.And(to_z3(lo, "int") >= 0, to_z3(lo, "int") <= to_z3(hi, "int"),
                                to_z3(hi, "int") <= to_z3(n, "int")), node)
                newshape.append(s_sub(hi, lo))
                mapping.append((d, lo))
        elif is_arr(x):
            X = arr_of(st, x)
            if X.ndim != 1 and not (X.ndim == 0):
                raise Unsupported("n-d fancy index")
            if X.sort == "bool":
                if len(idx) != 1 and not all(_full_slice(y) for y in idx[1:]):
                    raise Unsupported("boolean mask with other indices")
                return I.ext["__maskselect__"](I, st, A, X, node)
            if d != 0 or not all(_full_slice(y) for y in idx[1:]):
                if d == A.ndim - 1 and all(_full_slice(y) for y in idx[:-1]):
                    # a[..., list]: gather along last axis
                    n = A.shape[d]
                    kq = fresh_scalar("int", "q")
                    I.oblige(f"gather-in-range@{node.lineno}", st,
                             z3.ForAll([kq], z3.Implies(z3.And(kq >= 0, kq < to_z3(X.shape[0], "int")),
                                                        z3.And(X.at(kq) >= 0, X.at(kq) < to_z3(n, "int")))), node)
                    shp = tuple(A.shape[:-1]) + (X.shape[0],)
                    return st.new_arr(Arr(shp, lambda *i: A.at(*i[:-1], X.at(i[-1])), A.sort))
                raise Unsupported("fancy index on non-leading axis")
            n = A.shape[0]
            kq = fresh_scalar("int", "q")
            I.oblige(f"gather-in-range@{node.lineno}", st,
                     z3.ForAll([kq], z3.Implies(z3.And(kq >= 0, kq < to_z3(X.shape[0], "int")),
                                                z3.And(X.at(kq) >= -to_z3(n, "int"), X.at(kq) < to_z3(n, "int")))), node,
                     note="every gathered index is a valid index")
            shp = (X.shape[0],) + tuple(A.shape[1:])
            return st.new_arr(Arr(shp, lambda *i: A.at(X.at(i[0]), *i[1:]), A.sort, prov=("gather", A, X)))
        elif isinstance(x, Ref) and x.kind == "list":
            items = st.cell(x)["__list__"]
            if d == A.ndim - 1 and all(_full_slice(y) for y in idx[:-1]):
                for it in items:
                    norm_index(I, st, it, A.shape[d], node)
                shp = tuple(A.shape[:-1]) + (len(items),)

                def fn(*i, items=items):
                    j = i[-1]
                    if isinstance(j, int):
                        return A.at(*i[:-1], items[j])
                    e = A.at(*i[:-1], items[-1])
                    for q in range(len(items) - 2, -1, -1):
                        e = z3.If(j == q, A.at(*i[:-1], items[q]), e)
                    return e
                return st.new_arr(Arr(shp, fn, A.sort))
            raise Unsupported("list index")
        else:
            fixed[d] = norm_index(I, st, x, A.shape[d], node)
    if len(fixed) == A.ndim:
        return A.at(*[fixed[d] for d in range(A.ndim)])

    def fn(*i):
        full, k = [], 0
        for d in range(A.ndim):
            if d in fixed:
                full.append(fixed[d])
            else:
                dd, lo = mapping[k]
                full.append(s_add(i[k], lo) if not (isinstance(lo, int) and lo == 0) else i[k])
                k += 1
        return A.at(*full)
    return st.new_arr(Arr(tuple(newshape), fn, A.sort))


@ext("__setitem__")
def setitem(I, st, base, sl, value, mod, node):
    idx = eval_slice(I, st, sl, mod)
    if isinstance(base, Ref) and base.kind == "dict":
        if not is_conc(idx):
            raise Unsupported("symbolic dict key store")
        st.cell(base)["__dict__"][idx] = value
        return
    if isinstance(base, Ref) and base.kind == "list":
        if isinstance(idx, int):
            st.cell(base)["__list__"][idx] = value
            return
        raise Unsupported("symbolic list store")
    if isinstance(base, Opaque):
        h = I.ext.get(("setitem", base.tag))
        if h:
            return h(I, st, base, idx, value, node)
    if not (isinstance(base, Ref) and base.kind == "arr"):
        raise Unsupported(f"store into {base!r}")
    A = st.arr(base)
    V = arr_of(st, value)
    if not isinstance(idx, tuple) or _is_slice(idx):
        idx = (idx,)
    if idx and isinstance(idx[0], tuple) and idx[0] == ("ellipsis",):
        idx = tuple([("slice", None, None, None)] * (A.ndim - (len(idx) - 1))) + idx[1:]
    idx = tuple(idx) + tuple([("slice", None, None, None)] * (A.ndim - len(idx)))
    # a[mask] = v  /  a[mask] = b[mask']  (rows)
    if is_arr(idx[0]) and all(_full_slice(y) for y in idx[1:]):
        X = arr_of(st, idx[0])
        if X.sort == "bool":
            return I.ext["__maskstore__"](I, st, base, A, X, value, node)
        return I.ext["__scatter__"](I, st, base, A, X, value, node)
    # a[..., j] = v   or a[i] = v  or a[:, k] = col
    fixed = {}
    for d, x in enumerate(idx):
        if _full_slice(x):
            continue
        if _is_slice(x) or is_arr(x):
            raise Unsupported("partial-slice store")
        fixed[d] = norm_index(I, st, x, A.shape[d], node, what="store-index")
    free = [d for d in range(A.ndim) if d not in fixed]

    def fn(*i):
        cond = None
        for d, v in fixed.items():
            c = (i[d] == v) if not (isinstance(i[d], int) and isinstance(v, int)) else (i[d] == v)
            if c is False:
                return A.at(*i)
            if c is True:
                continue
            cond = c if cond is None else z3.And(cond, c)
        sub = [i[d] for d in free]
        if V is not None:
            newv = bidx(V, tuple(A.shape[d] for d in free), sub) if V.ndim != len(free) or True else V.at(*sub)
        else:
            newv = value
        if cond is None:
            return newv
        want = "real" if A.sort == "real" else None
        return z3.If(cond, to_z3(newv, want), to_z3(A.at(*i), want))
    st.set_arr(base, Arr(A.shape, fn, A.sort))


# ---------------------------------------------------------------------------- builtins
@ext("builtins.len")
def b_len(I, st, args, kw, node):
    v = args[0]
    if isinstance(v, (tuple, str, frozenset)):
        return len(v)
    if isinstance(v, Ref):
        if v.kind == "list":
            c = st.cell(v)
            if "__symlen__" in c:
                return c["__symlen__"]
            if c.get("__condapp__"):
                raise Unsupported("len of a list with conditional appends")
            return len(c["__list__"])
        if v.kind == "dict":
            return len(st.cell(v)["__dict__"])
        if v.kind == "arr":
            a = st.arr(v)
            if a.ndim == 0:
                raise PyRaise("TypeError", "len() of unsized object")
            return a.shape[0]
    if isinstance(v, Opaque) and "len" in v.info:
        return v.info["len"]
    raise Unsupported(f"len of {v!r}")


@ext("builtins.range")
def b_range(I, st, args, kw, node):
    if all(isinstance(a, int) for a in args):
        return range(*args)
    if len(args) == 1:
        return Opaque("range", lo=0, hi=args[0])
    if len(args) == 2:
        return Opaque("range", lo=args[0], hi=args[1])
    raise Unsupported("range with step")


@ext("builtins.super", "super(): method lookup continues in the (single) base class of the class whose method is executing")
def b_super(I, st, args, kw, node):
    if args:
        raise Unsupported("super(cls, obj)")
    mod, qn = I.cur[-1]
    if "." not in qn or "self" not in st.env:
        raise Unsupported("super() outside a method")
    return Opaque("super", obj=st.env["self"], module=mod, cls=qn.rsplit(".", 1)[0])


@ext("__instantiate__")
def _instantiate_ext(module, cls):
    return instantiate(module, cls)


def instantiate(module, cls, frozen=False):
    """Generic constructor contract: a new object of class `cls` whose real __init__ (resolved through the base classes)
    runs inline."""
    def h(I, st, args, kw, node):
        from .interp import _Outcomes
        obj = st.new_obj(cls, __module__=module)
        dcls, fdef = I.class_of_method(module, cls, "__init__")
        if fdef is None:
            return obj
        I.inlined.add((module, f"{dcls}.__init__"))
        outs = I.call_function(module, f"{dcls}.__init__", st, list(args), dict(kw), self_val=obj, fdef=fdef)
        for o in outs:
            if o.kind == "return":
                o.value = obj
        return _Outcomes(outs)
    return h


@ext("builtins.int")
def b_int(I, st, args, kw, node):
    v = args[0]
    if is_conc(v):
        return int(v)
    if is_int_like(v):
        return v
    if is_bool_like(v):
        return z3.If(v, 1, 0)
    # truncation toward zero
    r = to_z3(v, "real")
    return z3.If(r >= 0, z3.ToInt(r), -z3.ToInt(-r))


@ext("builtins.float")
def b_float(I, st, args, kw, node):
    v = args[0]
    if is_conc(v):
        return float(v)
    return to_z3(v, "real")


@ext("builtins.bool")
def b_bool(I, st, args, kw, node):
    return I.truth(args[0], st)


@ext("builtins.abs")
def b_abs(I, st, args, kw, node):
    v = args[0]
    if is_conc(v):
        return abs(v)
    return z3.If(v >= 0, v, -v)


def _minmax(I, st, args, ismin):
    if len(args) == 1:
        v = args[0]
        if isinstance(v, Ref) and v.kind == "list":
            args = st.cell(v)["__list__"]
        elif isinstance(v, tuple):
            args = list(v)
        else:
            raise Unsupported("min/max of array via builtin")
    if all(is_conc(a) for a in args):
        return min(args) if ismin else max(args)
    acc = args[0]
    for b in args[1:]:
        w = "real" if (is_real_like(acc) or is_real_like(b)) else None
        x, y = to_z3(acc, w), to_z3(b, w)
        acc = z3.If(x <= y, x, y) if ismin else z3.If(x >= y, x, y)
    return acc


@ext("builtins.min")
def b_min(I, st, args, kw, node):
    return _minmax(I, st, args, True)


@ext("builtins.max")
def b_max(I, st, args, kw, node):
    return _minmax(I, st, args, False)


@ext("builtins.isinstance")
def b_isinstance(I, st, args, kw, node):
    v, t = args
    types = t if isinstance(t, tuple) else (t,)
    names = []
    for x in types:
        if isinstance(x, Opaque) and x.tag == "builtin":
            names.append(x.info["name"])
        elif isinstance(x, ModuleV):
            names.append(x.dotted)
        elif isinstance(x, tuple) and x and isinstance(x[0], str) and x[0] == "class":
            names.append(x[2])
        else:
            raise Unsupported(f"isinstance against {x!r}")
    res = False
    for n in names:
        if n in ("numpy.ndarray", "np.ndarray"):
            res = res or is_arr(v)
        elif n == "int":
            res = res or is_int_like(v) or is_bool_like(v)
        elif n == "float":
            res = res or is_real_like(v)
        elif n == "bool":
            res = res or is_bool_like(v)
        elif n == "str":
            res = res or isinstance(v, str)
        elif n in ("tuple",):
            res = res or isinstance(v, tuple)
        elif n in ("list",):
            res = res or (isinstance(v, Ref) and v.kind == "list")
        elif n in ("dict",):
            res = res or (isinstance(v, Ref) and v.kind == "dict")
        elif n in ("pathlib.Path", "Path"):
            res = res or (isinstance(v, Opaque) and v.tag == "path")
        else:
            if isinstance(v, Ref) and v.kind == "obj":
                res = res or st.cls(v) == n
            elif isinstance(v, Opaque) and v.tag == "typed":
                res = res or (n in v.info.get("types", ()))
    if isinstance(v, Opaque) and v.tag == "typed":
        return any(n in v.info.get("types", ()) for n in names)
    return res


@ext("builtins.callable")
def b_callable(I, st, args, kw, node):
    v = args[0]
    if isinstance(v, (Closure, BoundMethod)):
        return True
    if isinstance(v, Opaque):
        return v.tag in ("callable", "builtin") or bool(v.info.get("callable"))
    return False


@ext("builtins.getattr")
def b_getattr(I, st, args, kw, node):
    obj, name = args[0], args[1]
    if isinstance(obj, Ref) and obj.kind == "obj":
        c = st.cell(obj)
        if name in c:
            return c[name]
        if len(args) == 3:
            if ("prop", c.get("__class__"), name) in I.ext or c.get("__module__") in I.mods and \
                    I.class_of_method(c.get("__module__"), c.get("__class__"), name)[0]:
                return I.getattr_value(st, obj, name)
            return args[2]
    return I.getattr_value(st, obj, name)


@ext("builtins.hasattr")
def b_hasattr(I, st, args, kw, node):
    obj, name = args
    if isinstance(obj, Ref) and obj.kind == "obj":
        c = st.cell(obj)
        if name in c:
            return True
        if c.get("__module__") in I.mods:
            return I.class_of_method(c["__module__"], c["__class__"], name)[0] is not None
        return False
    raise Unsupported("hasattr on non-object")


@ext("builtins.list")
def b_list(I, st, args, kw, node):
    if not args:
        return st.new_list([])
    v = args[0]
    if isinstance(v, (tuple, list, range)):
        return st.new_list(list(v))
    if isinstance(v, frozenset):
        return st.new_list(sorted(v))
    if isinstance(v, Ref) and v.kind == "list":
        c = st.cell(v)
        r = st.new_list(list(c["__list__"]))
        for k in c:
            if k.startswith("__") and k != "__list__":
                st.cell(r)[k] = c[k]
        return r
    if isinstance(v, Opaque) and v.tag in ("maplist", "symseq"):
        return v
    raise Unsupported(f"list({v!r})")


@ext("builtins.tuple")
def b_tuple(I, st, args, kw, node):
    v = args[0]
    if isinstance(v, tuple):
        return v
    if isinstance(v, Ref) and v.kind == "list":
        return tuple(st.cell(v)["__list__"])
    if isinstance(v, Ref) and v.kind == "arr":
        a = st.arr(v)
        if a.ndim == 1 and isinstance(a.shape[0], int):
            return tuple(a.at(i) for i in range(a.shape[0]))
    raise Unsupported("tuple()")


@ext("builtins.dict")
def b_dict(I, st, args, kw, node):
    d = {}
    if args:
        d.update(st.cell(args[0])["__dict__"])
    d.update(kw)
    return st.new_dict(d)


@ext("builtins.set")
def b_set(I, st, args, kw, node):
    if not args:
        return frozenset()
    v = args[0]
    if isinstance(v, (range, tuple, frozenset)):
        if all(is_conc(x) for x in v):
            return frozenset(v)
    if isinstance(v, Ref) and v.kind == "list":
        items = st.cell(v)["__list__"]
        if all(is_conc(x) for x in items):
            return frozenset(items)
    raise Unsupported("set() of symbolic contents")


@ext("builtins.frozenset")
def b_frozenset(I, st, args, kw, node):
    return b_set(I, st, args, kw, node)


@ext("builtins.sorted")
def b_sorted(I, st, args, kw, node):
    v = args[0]
    if isinstance(v, Ref) and v.kind == "list":
        v = st.cell(v)["__list__"]
    if all(is_conc(x) for x in v):
        return st.new_list(sorted(v))
    raise Unsupported("sorted symbolic")


@ext("builtins.str")
def b_str(I, st, args, kw, node):
    return "<str>" if not (args and isinstance(args[0], str)) else args[0]


@ext("builtins.type")
def b_type(I, st, args, kw, node):
    return Opaque("type")


@ext("builtins.print")
def b_print(I, st, args, kw, node):
    return None


@ext("builtins.sum")
def b_sum(I, st, args, kw, node):
    v = args[0]
    if is_arr(v):
        return EXT["numpy.sum"](I, st, [v], {}, node)
    if isinstance(v, Ref) and v.kind == "list":
        acc = 0
        for x in st.cell(v)["__list__"]:
            acc = s_add(acc, x)
        return acc
    raise Unsupported("sum()")


@ext("builtins.all")
def b_all(I, st, args, kw, node):
    v = args[0]
    if isinstance(v, Ref) and v.kind == "list":
        items = [I.truth(x, st) for x in st.cell(v)["__list__"]]
        if any(x is False for x in items):
            return False
        items = [x for x in items if x is not True]
        return z3.And(*items) if items else True
    if isinstance(v, Opaque) and v.tag == "forall":
        return v.info["formula"]
    raise Unsupported("all()")


@ext("builtins.any")
def b_any(I, st, args, kw, node):
    v = args[0]
    if isinstance(v, Ref) and v.kind == "list":
        items = [I.truth(x, st) for x in st.cell(v)["__list__"]]
        if any(x is True for x in items):
            return True
        items = [x for x in items if x is not False]
        return z3.Or(*items) if items else False
    raise Unsupported("any()")


@ext("builtins.map")
def b_map(I, st, args, kw, node):
    h = I.ext.get("__map__")
    if h is None:
        raise Unsupported("map()")
    return h(I, st, args, kw, node)


@ext("builtins.zip")
def b_zip(I, st, args, kw, node):
    seqs = []
    for v in args:
        if isinstance(v, Ref) and v.kind == "list":
            v = st.cell(v)["__list__"]
        if not isinstance(v, (list, tuple)):
            raise Unsupported("zip of symbolic")
        seqs.append(v)
    return tuple(zip(*seqs))


@ext("builtins.enumerate")
def b_enumerate(I, st, args, kw, node):
    v = args[0]
    if isinstance(v, Ref) and v.kind == "list":
        c = st.cell(v)
        if "__symlen__" in c:
            return Opaque("enumerate", seq=v)
        v = c["__list__"]
    if isinstance(v, (list, tuple)):
        return tuple(enumerate(v))
    raise Unsupported("enumerate symbolic")


# list comprehension over concrete iterables / dicts
@ext("__listcomp__")
def listcomp(I, st, e, mod):
    if len(e.generators) != 1:
        raise Unsupported("nested comprehension")
    g = e.generators[0]
    it = I.eval(g.iter, st, mod)
    h = I.ext.get("__symcomp__")
    items = None
    if isinstance(it, (tuple, list, range, frozenset)):
        items = sorted(it) if isinstance(it, frozenset) else list(it)
    elif isinstance(it, Ref) and it.kind == "list" and "__symlen__" not in st.cell(it):
        if st.cell(it).get("__condapp__"):
            raise Unsupported("comprehension over a list with conditional appends")
        items = list(st.cell(it)["__list__"])
    elif isinstance(it, Opaque) and it.tag == "dictitems":
        items = list(it.info["items"])
    if items is None:
        if h:
            return h(I, st, e, it, mod)
        raise Unsupported(f"comprehension over {it!r} (line {e.lineno})")
    out = []
    saved = dict(st.env)
    for item in items:
        I.assign(g.target, item, st, mod)
        ok = True
        for c in g.ifs:
            t = I.truth(I.eval(c, st, mod), st)
            if t is False:
                ok = False
            elif t is not True:
                raise Unsupported("symbolic comprehension filter")
        if ok:
            out.append(I.eval(e.elt, st, mod))
    st.env = saved
    return st.new_list(out)


@ext("__dictcomp__")
def dictcomp(I, st, e, mod):
    g = e.generators[0]
    it = I.eval(g.iter, st, mod)
    if isinstance(it, Opaque) and it.tag == "dictitems":
        items = list(it.info["items"])
    elif isinstance(it, Opaque) and it.tag == "dictkeys":
        items = list(it.info["keys"])
    elif isinstance(it, (tuple, frozenset)):
        items = sorted(it) if isinstance(it, frozenset) else list(it)
    else:
        raise Unsupported("dict comprehension over symbolic")
    out = {}
    saved = dict(st.env)
    for item in items:
        I.assign(g.target, item, st, mod)
        k = I.eval(e.key, st, mod)
        out[k] = I.eval(e.value, st, mod)
    st.env = saved
    return st.new_dict(out)


# ---------------------------------------------------------------------------- container methods
@ext(("method", "list", "append"))
def list_append(I, st, args, kw, node):
    c = st.cell(args[0])
    if "__symlen__" in c:
        h = I.ext["__symlist_append__"]
        return h(I, st, args[0], args[1], node)
    c["__list__"].append(args[1])
    return None


@ext(("method", "list", "extend"))
def list_extend(I, st, args, kw, node):
    v = args[1]
    if isinstance(v, Ref) and v.kind == "list":
        v = st.cell(v)["__list__"]
    st.cell(args[0])["__list__"].extend(list(v))
    return None


@ext(("method", "list", "pop"))
def list_pop(I, st, args, kw, node):
    lst = st.cell(args[0])["__list__"]
    i = args[1] if len(args) > 1 else -1
    if not isinstance(i, int):
        raise Unsupported("symbolic list.pop")
    return lst.pop(i)


@ext(("method", "dict", "items"))
def dict_items(I, st, args, kw, node):
    return Opaque("dictitems", items=list(st.cell(args[0])["__dict__"].items()))


@ext(("method", "dict", "keys"))
def dict_keys(I, st, args, kw, node):
    return tuple(st.cell(args[0])["__dict__"].keys())


@ext(("method", "dict", "values"))
def dict_values(I, st, args, kw, node):
    return tuple(st.cell(args[0])["__dict__"].values())


@ext(("method", "dict", "get"))
def dict_get(I, st, args, kw, node):
    d = st.cell(args[0])["__dict__"]
    k = args[1]
    if not is_conc(k):
        raise Unsupported("symbolic dict.get key")
    return d.get(k, args[2] if len(args) > 2 else None)


@ext(("method", "dict", "copy"))
def dict_copy(I, st, args, kw, node):
    return st.new_dict(dict(st.cell(args[0])["__dict__"]))


@ext(("method", "dict", "update"))
def dict_update(I, st, args, kw, node):
    d = st.cell(args[0])["__dict__"]
    if len(args) > 1:
        d.update(st.cell(args[1])["__dict__"])
    d.update(kw)
    return None


@ext(("method", "dict", "pop"))
def dict_pop(I, st, args, kw, node):
    d = st.cell(args[0])["__dict__"]
    if args[1] in d:
        return d.pop(args[1])
    if len(args) > 2:
        return args[2]
    raise PyRaise("KeyError", repr(args[1]))


@ext(("method", "str", "format"))
def str_format(I, st, args, kw, node):
    return "<str>"


@ext(("method", "str", "join"))
def str_join(I, st, args, kw, node):
    return "<str>"


@ext(("method", "frozenset", "intersection"))
def fs_inter(I, st, args, kw, node):
    return frozenset(args[0]) & frozenset(args[1])


# ---------------------------------------------------------------------------- numpy: creation
@ext("numpy.ndarray")
def np_ndarray(I, st, args, kw, node):
    raise Unsupported("np.ndarray()")


@ext(("method", "arr", "copy"), "ndarray.copy: fresh array, equal elements, no aliasing")
def arr_copy(I, st, args, kw, node):
    a = st.arr(args[0])
    return st.new_arr(Arr(a.shape, a.fn, a.sort, prov=("copy", a)))


@ext(("method", "arr", "astype"), "astype(int) on an integer-valued or real array: truncation toward zero (T-REAL only)")
def arr_astype(I, st, args, kw, node):
    a = st.arr(args[0])
    t = args[1]
    tn = t.info.get("name") if isinstance(t, Opaque) else str(t)
    if tn == "int":
        if a.sort == "int":
            return st.new_arr(Arr(a.shape, a.fn, "int"))
        return st.new_arr(Arr(a.shape, lambda *i: b_int(I, st, [a.at(*i)], {}, node), "int"))
    if tn in ("float",):
        return st.new_arr(Arr(a.shape, lambda *i: to_z3(a.at(*i), "real"), "real"))
    raise Unsupported(f"astype({tn})")


@ext(("method", "arr", "sum"))
def arr_sum(I, st, args, kw, node):
    return EXT["numpy.sum"](I, st, args, kw, node)


@ext(("method", "arr", "mean"))
def arr_mean(I, st, args, kw, node):
    return EXT["numpy.mean"](I, st, args, kw, node)


@ext(("method", "arr", "reshape"))
def arr_reshape(I, st, args, kw, node):
    a = st.arr(args[0])
    shp = args[1:] if not isinstance(args[1], tuple) else args[1]
    if a.ndim == 1 and len(shp) == 2 and shp[0] == 1 and shp[1] == -1:
        return st.new_arr(Arr((1, a.shape[0]), lambda i, j: a.at(j), a.sort))
    if a.ndim == 2 and len(shp) == 3 and shp[0] == 1:
        return st.new_arr(Arr((1,) + a.shape, lambda i, j, k: a.at(j, k), a.sort))
    raise Unsupported("reshape")


def _shape_arg(st, v):
    if isinstance(v, tuple):
        return v
    if isinstance(v, Ref) and v.kind == "list":
        return tuple(st.cell(v)["__list__"])
    return (v,)


@ext("numpy.zeros", "np.zeros/ones/empty/full: fresh array of the given shape (empty: arbitrary contents)")
def np_zeros(I, st, args, kw, node):
    shp = _shape_arg(st, args[0])
    dt = kw.get("dtype", args[1] if len(args) > 1 else None)
    tn = dt.info.get("name") if isinstance(dt, Opaque) else None
    if tn == "int":
        return st.new_arr(Arr(shp, lambda *i: 0, "int"))
    if tn == "bool":
        return st.new_arr(Arr(shp, lambda *i: False, "bool"))
    return st.new_arr(Arr(shp, lambda *i: z3.RealVal(0), "real"))


@ext("numpy.ones")
def np_ones(I, st, args, kw, node):
    shp = _shape_arg(st, args[0])
    dt = kw.get("dtype", args[1] if len(args) > 1 else None)
    tn = dt.info.get("name") if isinstance(dt, Opaque) else None
    if tn == "bool":
        return st.new_arr(Arr(shp, lambda *i: True, "bool"))
    if tn == "int":
        return st.new_arr(Arr(shp, lambda *i: 1, "int"))
    return st.new_arr(Arr(shp, lambda *i: z3.RealVal(1), "real", prov=("const", z3.RealVal(1))))


@ext("numpy.empty")
def np_empty(I, st, args, kw, node):
    shp = _shape_arg(st, args[0])
    dt = kw.get("dtype", args[1] if len(args) > 1 else None)
    tn = dt.info.get("name") if isinstance(dt, Opaque) else None
    return st.new_arr(fresh_arr(shp, "int" if tn == "int" else "real", "empty"))


@ext("numpy.empty_like")
def np_empty_like(I, st, args, kw, node):
    a = st.arr(args[0])
    return st.new_arr(fresh_arr(a.shape, a.sort, "empty"))


@ext("numpy.full")
def np_full(I, st, args, kw, node):
    shp = _shape_arg(st, args[0])
    v = args[1]
    return st.new_arr(Arr(shp, lambda *i: v, kind_of(v) or "real"))


@ext("numpy.arange", "np.arange(n): [0, 1, ..., n-1]")
def np_arange(I, st, args, kw, node):
    if len(args) == 1:
        return st.new_arr(Arr((args[0],), lambda i: i if not isinstance(i, int) else i, "int", prov=("arange",)))
    if len(args) == 2:
        lo = args[0]
        return st.new_arr(Arr((s_sub(args[1], lo),), lambda i: s_add(i, lo), "int"))
    raise Unsupported("arange with step")


@ext("numpy.array", "np.array / np.asarray of an array: (copy of) the same elements; of a list of scalars: 1-d array")
def np_array(I, st, args, kw, node):
    v = args[0]
    if isinstance(v, Ref) and v.kind == "arr":
        a = st.arr(v)
        return st.new_arr(Arr(a.shape, a.fn, a.sort, prov=("copy", a)))
    if isinstance(v, Ref) and v.kind == "list":
        c = st.cell(v)
        if "__symarr__" in c:
            return st.new_arr(c["__symarr__"])
        items = c["__list__"]
        if all(not isinstance(x, (Ref, tuple)) for x in items):
            kinds = [kind_of(x) for x in items]
            k = "real" if "real" in kinds else ("int" if "int" in kinds else ("bool" if kinds and all(q == "bool" for q in kinds) else "real"))
            n = len(items)

            def fn(i, items=items, k=k):
                if isinstance(i, int):
                    return items[i]
                if not items:
                    return z3.RealVal(0)
                want = "real" if k == "real" else None
                e = to_z3(items[-1], want)
                for q in range(n - 2, -1, -1):
                    e = z3.If(i == q, to_z3(items[q], want), e)
                return e
            return st.new_arr(Arr((n,), fn, k))
        if items and all(isinstance(x, Ref) and x.kind == "arr" for x in items):
            rows = [st.arr(x) for x in items]
            n = len(rows)

            def fn2(i, *rest, rows=rows):
                if isinstance(i, int):
                    return rows[i].at(*rest)
                e = rows[-1].at(*rest)
                for q in range(n - 2, -1, -1):
                    e = z3.If(i == q, rows[q].at(*rest), e)
                return e
            return st.new_arr(Arr((n,) + rows[0].shape, fn2, rows[0].sort))
    if isinstance(v, Opaque) and v.tag == "symseq":
        return st.new_arr(v.info["arr"])
    if isinstance(v, tuple) and all(is_conc(x) or is_sym(x) for x in v):
        return np_array(I, st, [st.new_list(list(v))], kw, node)
    if kind_of(v) is not None:
        return st.new_arr(Arr((), lambda: v, kind_of(v)))
    raise Unsupported(f"np.array({v!r}) at line {node.lineno}")


@ext("numpy.asarray")
def np_asarray(I, st, args, kw, node):
    v = args[0]
    if isinstance(v, Ref) and v.kind == "arr":
        return v  # no copy: aliasing preserved
    return np_array(I, st, args, kw, node)


@ext("numpy.atleast_1d")
def np_atleast1d(I, st, args, kw, node):
    v = args[0]
    if is_arr(v):
        return v
    return np_array(I, st, [st.new_list([v])], {}, node)


# ---------------------------------------------------------------------------- numpy: elementwise math
@ext("numpy.exp", "np.exp: real exponential (uninterpreted + axioms exp>0, monotone, exp(a+b)=exp a exp b, exp 0 = 1)")
def np_exp(I, st, args, kw, node):
    return lift1(I, st, lambda x: T.real.exp(to_z3(x, "real")), args[0], "real", prov=("exp", arr_of(st, args[0])))


@ext("numpy.log", "np.log: real logarithm on positives (uninterpreted + axioms log(exp x)=x, exp(log y)=y for y>0, monotone)")
def np_log(I, st, args, kw, node):
    def f(x):
        if is_conc(x) and x > 0:
            import math
            if x == 1:
                return z3.RealVal(0)
        return T.real.log(to_z3(x, "real"))
    return lift1(I, st, f, args[0], "real")


@ext("numpy.sqrt", "np.sqrt: real square root on non-negatives (sqrt x >= 0, sqrt(x)^2 = x)")
def np_sqrt(I, st, args, kw, node):
    if is_conc(args[0]):
        import math
        return math.sqrt(args[0])
    return lift1(I, st, lambda x: T.real.sqrt(to_z3(x, "real")), args[0], "real")


@ext("math.sqrt")
def math_sqrt(I, st, args, kw, node):
    return np_sqrt(I, st, args, kw, node)


@ext("numpy.floor", "np.floor over the reals (A1): the greatest integer not above x, as a float")
def np_floor(I, st, args, kw, node):
    def f(x):
        if is_conc(x):
            import math
            return float(math.floor(x))
        return z3.ToReal(z3.ToInt(to_z3(x, "real")))
    return lift1(I, st, f, args[0], "real")


@ext("numpy.abs")
def np_abs(I, st, args, kw, node):
    return lift1(I, st, lambda x: b_abs(I, st, [x], {}, node), args[0])


@ext("numpy.minimum")
def np_minimum(I, st, args, kw, node):
    return lift2(I, st, lambda a, b: _minmax(I, st, [a, b], True), args[0], args[1])


@ext("numpy.maximum")
def np_maximum(I, st, args, kw, node):
    return lift2(I, st, lambda a, b: _minmax(I, st, [a, b], False), args[0], args[1])


@ext("numpy.clip")
def np_clip(I, st, args, kw, node):
    lo, hi = args[1], args[2]
    return lift1(I, st, lambda x: _minmax(I, st, [_minmax(I, st, [x, lo], False), hi], True), args[0])


@ext("numpy.isfinite", "np.isfinite/isinf/isnan: under A1 (reals) every value is finite unless the contract tracks a separate finiteness flag")
def np_isfinite(I, st, args, kw, node):
    h = I.ext.get("__isfinite__")
    if h:
        return h(I, st, args[0], node)
    return lift1(I, st, lambda x: True, args[0], "bool")


@ext("numpy.isinf")
def np_isinf(I, st, args, kw, node):
    h = I.ext.get("__isinf__")
    if h:
        return h(I, st, args[0], node)
    return lift1(I, st, lambda x: False, args[0], "bool")


@ext("numpy.nan_to_num")
def np_nan_to_num(I, st, args, kw, node):
    return args[0]  # A1: no NaN among reals


@ext("numpy.where")
def np_where(I, st, args, kw, node):
    if len(args) == 1:
        raise Unsupported("np.where(cond) index form")
    c, a, b = args
    C = arr_of(st, c)
    A, B = arr_of(st, a), arr_of(st, b)
    if C is None:
        if A is not None or B is not None:
            raise Unsupported("np.where with scalar condition and array branches")
        cc = I.truth(c, st)
        if cc is True:
            return a
        if cc is False:
            return b
        w = "real" if (is_real_like(a) or is_real_like(b)) else None
        return z3.If(cc, to_z3(a, w), to_z3(b, w))
    shape = C.shape

    def fn(*i):
        x = bidx(A, shape, i) if A is not None else a
        y = bidx(B, shape, i) if B is not None else b
        cc = C.at(*i)
        if cc is True:
            return x
        if cc is False:
            return y
        w = "real" if (is_real_like(x) or is_real_like(y)) else None
        return z3.If(cc, to_z3(x, w), to_z3(y, w))
    return st.new_arr(Arr(shape, fn, elem_kind(A if A is not None else a, B if B is not None else b)))


# ---------------------------------------------------------------------------- numpy: reductions (T-SUM)
@ext("numpy.sum", "np.sum: finite sum; modelled by prefix-sum function with definitional axioms and linearity lemmas (T-SUM)")
def np_sum(I, st, args, kw, node):
    a = arr_of(st, args[0])
    axis = kw.get("axis", args[1] if len(args) > 1 else None)
    if a is None:
        return args[0]
    if a.ndim == 1 and axis in (None, 0):
        return T.sums.total(st, a)
    if a.ndim == 2 and axis in (0, 1, -1):
        axis = 1 if axis == -1 else axis
        r = T.sums.axis_sum(st, a, axis)
        if kw.get("keepdims"):
            shp = (r.shape[0], 1) if axis == 1 else (1, r.shape[0])
            return st.new_arr(Arr(shp, (lambda i, j, r=r: r.at(i)) if axis == 1 else (lambda i, j, r=r: r.at(j)), "real", prov=("keepdims", r, axis)))
        return st.new_arr(r)
    if a.ndim == 2 and axis is None:
        return T.sums.total(st, T.sums.axis_sum(st, a, 1))
    if a.ndim == 0:
        return a.at()
    raise Unsupported("np.sum of n-d array")


@ext("numpy.mean", "np.mean = sum / n")
def np_mean(I, st, args, kw, node):
    a = arr_of(st, args[0])
    if a.ndim != 1:
        raise Unsupported("mean of n-d")
    if a.sort == "bool":
        a = Arr(a.shape, lambda i, a=a: z3.If(to_z3(a.at(i)), z3.RealVal(1), z3.RealVal(0)), "real")
    return s_div(T.sums.total(st, a), a.shape[0])


@ext("numpy.max", "np.max: an element that bounds all others (requires n >= 1)")
def np_max(I, st, args, kw, node):
    a = arr_of(st, args[0])
    if a.ndim != 1:
        raise Unsupported("max of n-d")
    I.oblige(f"max-nonempty@{node.lineno}", st, to_z3(a.shape[0], "int") >= 1, node)
    return T.sums.maximum(st, a)


def _truthy(x):
    if isinstance(x, bool):
        return x
    if isinstance(x, (int, float)):
        return x != 0
    if z3.is_bool(x):
        return x
    return x != 0


@ext("numpy.any")
def np_any(I, st, args, kw, node):
    v = args[0]
    if isinstance(v, Ref) and v.kind == "list" and "__symlen__" not in st.cell(v):
        items = [_truthy(x) for x in st.cell(v)["__list__"]]
        if any(x is True for x in items):
            return True
        items = [x for x in items if x is not False]
        return z3.Or(*items) if items else False
    a = arr_of(st, v)
    if a is None:
        return I.truth(v, st)
    if a.ndim != 1:
        raise Unsupported("any of n-d")
    if isinstance(a.shape[0], int):
        items = [_truthy(a.at(i)) for i in range(a.shape[0])]
        if any(x is True for x in items):
            return True
        items = [x for x in items if x is not False]
        return z3.Or(*items) if items else False
    q = fresh_scalar("int", "q")
    return z3.Exists([q], z3.And(q >= 0, q < to_z3(a.shape[0], "int"), to_z3(_truthy(a.at(q)))))


@ext("numpy.all")
def np_all(I, st, args, kw, node):
    a = arr_of(st, args[0])
    axis = kw.get("axis")
    if a.ndim == 1:
        q = fresh_scalar("int", "q")
        return z3.ForAll([q], z3.Implies(z3.And(q >= 0, q < to_z3(a.shape[0], "int")), to_z3(a.at(q))))
    if a.ndim == 2 and axis in (-1, 1):
        def fn(i):
            q = fresh_scalar("int", "q")
            return z3.ForAll([q], z3.Implies(z3.And(q >= 0, q < to_z3(a.shape[1], "int")), to_z3(a.at(i, q))))
        return st.new_arr(Arr((a.shape[0],), fn, "bool"))
    raise Unsupported("np.all")


@ext("numpy.cumsum", "np.cumsum(a)[k] = a[0] + ... + a[k] (prefix sums, T-SUM)")
def np_cumsum(I, st, args, kw, node):
    a = arr_of(st, args[0])
    if a is None or a.ndim != 1:
        raise Unsupported("cumsum of a non-1-d array")
    P = T.sums.prefix_fn(st, a)
    return st.new_arr(Arr(a.shape, lambda k: P(to_z3(k, "int")), "real", prov=("cumsum", a)))


@ext("numpy.searchsorted", "np.searchsorted(a, v, side): insertion index in [0, len(a)] keeping a sorted; side='left': a[i-1] < v <= a[i], "
                           "side='right': a[i-1] <= v < a[i] (a non-decreasing)")
def np_searchsorted(I, st, args, kw, node):
    a = arr_of(st, args[0])
    v = args[1]
    side = kw.get("side", args[2] if len(args) > 2 else "left")
    if a is None or a.ndim != 1 or side not in ("left", "right"):
        raise Unsupported("searchsorted arguments")
    n = to_z3(a.shape[0], "int")

    def spec(idx, val):
        val = to_z3(val, "real")
        below = (lambda x: x < val) if side == "left" else (lambda x: x <= val)
        return z3.And(idx >= 0, idx <= n, z3.Implies(idx > 0, below(to_z3(a.at(idx - 1), "real"))),
                      z3.Implies(idx < n, z3.Not(below(to_z3(a.at(idx), "real")))))
    V = arr_of(st, v)
    if V is None:
        idx = fresh_scalar("int", "ss")
        st.assume(spec(idx, v))
        return idx
    if V.ndim != 1:
        raise Unsupported("searchsorted of n-d values")
    out = fresh_arr(V.shape, "int", "ss")
    q = z3.Int(fresh_name("q"))
    st.assume(z3.ForAll([q], z3.Implies(z3.And(q >= 0, q < to_z3(V.shape[0], "int")), spec(out.at(q), V.at(q))), patterns=[out.at(q)]))
    return st.new_arr(out)


@ext("numpy.dot", "np.dot of two 2-d arrays: (A.B)[a,b] = sum_i A[a,i] B[i,b] (T-SUM three-index prefix sums)")
def np_dot(I, st, args, kw, node):
    A, B = arr_of(st, args[0]), arr_of(st, args[1])
    if A is not None and B is not None and A.ndim == 1 and B.ndim == 1:
        # inner product of two vectors: the total of the element-wise product (T-SUM); lengths must agree (numpy raises otherwise)
        I.oblige(f"call:np.dot:same-length@{node.lineno}", st, to_z3(A.shape[0], "int") == to_z3(B.shape[0], "int"), node)
        prod = Arr(A.shape, lambda i: to_z3(A.at(i), "real") * to_z3(B.at(i), "real"), "real", prov=("mul", A, B))
        return T.sums.total(st, prod)
    if A is None or B is None or A.ndim != 2 or B.ndim != 2:
        h = I.ext.get("numpy.matmul")
        if h is not None:
            return h(I, st, args, kw, node)
        raise Unsupported("np.dot of non-2-d operands")
    I.oblige(f"dot-inner-dimensions-agree@{node.lineno}", st, to_z3(A.shape[1], "int") == to_z3(B.shape[0], "int"), node)
    return st.new_arr(T.sums.dot(st, A, B))


@ext("numpy.logaddexp.reduce", "np.logaddexp.reduce(v) = log(sum(exp(v)))")
def np_lse(I, st, args, kw, node):
    a = arr_of(st, args[0])
    axis = kw.get("axis")
    if a.ndim == 1:
        return T.sums.lse(st, a)
    if a.ndim == 2 and axis == 1:
        return st.new_arr(T.sums.lse_rows(st, a))
    raise Unsupported("logaddexp.reduce")


@ext("numpy.random.random", "np.random.random()/rand(): a value in [0,1) (ghost input; every value covered)")
def np_random(I, st, args, kw, node):
    if args:
        return np_rand(I, st, list(args[0]) if isinstance(args[0], tuple) else [args[0]], kw, node)
    u = fresh_scalar("real", "u0")
    st.assume(z3.And(u >= 0, u < 1))
    st.ghost.setdefault("draws", [])
    st.ghost["draws"] = st.ghost["draws"] + [("random", u)]
    st.ghost["rng"] = st.ghost.get("rng", []) + [("advance", node.lineno)]
    return u


@ext("numpy.random.rand")
def np_rand(I, st, args, kw, node):
    if not args:
        return np_random(I, st, [], {}, node)
    a = fresh_arr(tuple(args), "real", "rand")
    q = [fresh_scalar("int", "q") for _ in args]
    st.assume(z3.ForAll(q, z3.And(a.at(*q) >= 0, a.at(*q) < 1)))
    st.ghost["rng"] = st.ghost.get("rng", []) + [("advance", node.lineno)]
    r = st.new_arr(a)
    st.ghost["draws"] = st.ghost.get("draws", []) + [("rand", r)]
    return r


@ext("numpy.random.seed", "np.random.seed(e): reseeds the global generator (recorded as an effect)")
def np_seed(I, st, args, kw, node):
    st.ghost["rng"] = st.ghost.get("rng", []) + [("reseed", args[0] if args else None, node.lineno)]
    return None


@ext("numpy.squeeze", "np.squeeze(a, axes): drops the size-1 axes, element order preserved")
def np_squeeze(I, st, args, kw, node):
    a = st.arr(args[0])
    axes = args[1] if len(args) > 1 else kw.get("axis")
    if isinstance(axes, int):
        axes = (axes,)
    if a.ndim == 2 and tuple(axes) == (1,):
        I.oblige(f"squeeze-axis-has-size-1@{node.lineno}", st, to_z3(a.shape[1], "int") == 1, node)
        return st.new_arr(Arr((a.shape[0],), lambda i: a.at(i, 0), a.sort, prov=("squeeze", a)))
    raise Unsupported("np.squeeze shape")


@ext("numpy.dtype")
def np_dtype(I, st, args, kw, node):
    return Opaque("dtype", name=args[0])


@ext("numpy.finfo")
def np_finfo(I, st, args, kw, node):
    return Opaque("finfo")


@ext(("opaque", "finfo", "eps"))
def finfo_eps(I, st, obj):
    return 2.220446049250313e-16


@ext("numpy.float64")
def np_float64(I, st, args, kw, node):
    if args:
        return b_float(I, st, args, kw, node)
    return Opaque("builtin", name="float")


@ext(("const", "numpy.inf"))
def np_inf(I, st):
    return Opaque("inf", sign=1)


@ext(("const", "numpy.newaxis"))
def np_newaxis_c(I, st):
    return None


@ext("numpy.newaxis")
def np_newaxis(I, st, args, kw, node):
    raise Unsupported("call np.newaxis")


# ---------------------------------------------------------------------------- boolean-mask selection (T-ARR)
def mask_selection(I, st, X):
    """Selection (m, sel) of a boolean mask X of length n: sel enumerates the True positions in
    increasing order.  L-MASK axioms (true facts about numpy boolean indexing):
      0<=m<=n; sel increasing into [0,n) hitting exactly the True positions; all-True => identity."""
    key = ("sel", X.uid)
    if key in st.ghost:
        return st.ghost[key]
    n = to_z3(X.shape[0], "int")
    # a mask that is provably pointwise equal to an earlier one denotes the same selection
    for (Y, val) in st.ghost.get("masks", []):
        qi = z3.Int(fresh_name("qe"))
        chk = z3.Solver()
        chk.set("timeout", 2000)
        chk.add(*st.pc)
        chk.add(z3.Or(n != to_z3(Y.shape[0], "int"),
                      z3.And(qi >= 0, qi < n, to_z3(X.at(qi)) != to_z3(Y.at(qi)))))
        if chk.check() == z3.unsat:
            st.ghost[key] = val
            return val
    m = fresh_scalar("int", "m")
    sel = z3.Function(fresh_name("sel"), z3.IntSort(), z3.IntSort())
    inv = z3.Function(fresh_name("selinv"), z3.IntSort(), z3.IntSort())
    k, k2, i = z3.Int(fresh_name("k")), z3.Int(fresh_name("k2")), z3.Int(fresh_name("i"))
    st.assume(z3.And(m >= 0, m <= n))
    st.assume(z3.ForAll([k], z3.Implies(z3.And(k >= 0, k < m),
                                        z3.And(sel(k) >= 0, sel(k) < n, to_z3(X.at(sel(k))), inv(sel(k)) == k)),
                        patterns=[sel(k)]))
    st.assume(z3.ForAll([k, k2], z3.Implies(z3.And(k >= 0, k < k2, k2 < m), sel(k) < sel(k2)),
                        patterns=[z3.MultiPattern(sel(k), sel(k2))]))
    st.assume(z3.ForAll([i], z3.Implies(z3.And(i >= 0, i < n, to_z3(X.at(i))),
                                        z3.And(inv(i) >= 0, inv(i) < m, sel(inv(i)) == i)), patterns=[inv(i)]))
    allt = z3.ForAll([i], z3.Implies(z3.And(i >= 0, i < n), to_z3(X.at(i))))
    st.assume(z3.Implies(allt, z3.And(m == n, z3.ForAll([k], z3.Implies(z3.And(k >= 0, k < n), sel(k) == k),
                                                        patterns=[sel(k)]))))
    st.ghost[key] = (m, sel, inv)
    st.ghost["masks"] = st.ghost.get("masks", []) + [(X, st.ghost[key])]
    return st.ghost[key]


@ext("__maskselect__", "a[mask]: rows at the True positions of mask, in order (L-MASK axioms)")
def maskselect(I, st, A, X, node):
    I.oblige(f"mask-length@{getattr(node, 'lineno', '?')}", st, to_z3(X.shape[0], "int") == to_z3(A.shape[0], "int"), node)
    n = to_z3(X.shape[0], "int")
    qi = z3.Int(fresh_name("qa"))
    chk = z3.Solver()
    chk.set("timeout", 3000)
    chk.add(*st.pc)
    chk.add(qi >= 0, qi < n, z3.Not(to_z3(X.at(qi))))
    if chk.check() == z3.unsat:
        # the mask is provably all-True here: the selection is the whole array (L-MASK-all applied)
        st.ghost[("sel", X.uid)] = (n, (lambda k: k), (lambda k: k))
        return st.new_arr(Arr(A.shape, A.fn, A.sort, prov=("copy", A)))
    m, sel, inv = mask_selection(I, st, X)
    return st.new_arr(Arr((m,) + tuple(A.shape[1:]), lambda k, *r: A.at(sel(to_z3(k, "int")), *r), A.sort,
                          prov=("select", A, X, sel, m)))


@ext("numpy.linspace", "np.linspace(a, b, n)[i] = a + i*(b-a)/(n-1) (n>=2), [a] for n=1")
def np_linspace(I, st, args, kw, node):
    a, b, n = args[0], args[1], args[2]
    nz = to_z3(n, "int")

    def fn(i):
        iz = to_z3(i, "int")
        return z3.If(z3.Or(nz == 1, iz == 0), to_z3(a, "real"),
                     to_z3(a, "real") + z3.ToReal(iz) * (to_z3(b, "real") - to_z3(a, "real")) / z3.ToReal(nz - 1))
    return st.new_arr(Arr((n,), fn, "real"))


@ext("numpy.percentile", "np.percentile(w, p): some value in [min w, max w]; equals min w for p = 0 (requires len(w) >= 1)")
def np_percentile(I, st, args, kw, node):
    w, p = st.arr(args[0]), to_z3(args[1], "real")
    n = to_z3(w.shape[0], "int")
    I.oblige(f"percentile-nonempty@{node.lineno}", st, n >= 1, node)
    t = fresh_scalar("real", "pct")
    i = z3.Int(fresh_name("i"))
    j = fresh_scalar("int", "jmin")
    # t >= min and t <= max ; p == 0 -> t is the minimum
    st.assume(z3.And(j >= 0, j < n, z3.ForAll([i], z3.Implies(z3.And(i >= 0, i < n), w.at(j) <= w.at(i)))))
    st.assume(t >= w.at(j))
    st.assume(z3.Implies(p == 0, t == w.at(j)))
    return t


# ---------------------------------------------------------------------------- masked / scattered stores (T-ARR)
def _same_mask(I, st, X, Y):
    if X is Y or X.uid == Y.uid:
        return True
    n = to_z3(X.shape[0], "int")
    qi = z3.Int(fresh_name("qm"))
    chk = z3.Solver()
    chk.set("timeout", 2000)
    chk.add(*st.pc)
    chk.add(z3.Or(n != to_z3(Y.shape[0], "int"), z3.And(qi >= 0, qi < n, to_z3(X.at(qi)) != to_z3(Y.at(qi)))))
    return chk.check() == z3.unsat


@ext("__maskstore__", "a[mask] = b[mask] / a[mask] = scalar: rows where mask holds are replaced, all others kept")
def maskstore(I, st, base, A, X, value, node):
    I.oblige(f"mask-length@{getattr(node, 'lineno', '?')}", st, to_z3(X.shape[0], "int") == to_z3(A.shape[0], "int"), node)
    V = arr_of(st, value)
    if V is None:
        def fn(i, *r):
            c = to_z3(X.at(i))
            want = "real" if A.sort == "real" else None
            return z3.If(c, to_z3(value, want), to_z3(A.at(i, *r), want))
        st.set_arr(base, Arr(A.shape, fn, A.sort))
        return
    pv = V.prov
    if pv is not None and pv[0] == "select" and _same_mask(I, st, pv[2], X):
        B = pv[1]
        st.set_arr(base, Arr(A.shape, lambda i, *r: z3.If(to_z3(X.at(i)), to_z3(B.at(i, *r)), to_z3(A.at(i, *r))), A.sort,
                             prov=("maskstore", A, X, B)))
        return
    if pv is not None and pv[0] == "copy" and ("sel", X.uid) in st.ghost and not z3.is_expr(st.ghost[("sel", X.uid)][1]):
        B = pv[1]     # all-True mask: whole-array assignment
        st.set_arr(base, Arr(A.shape, B.fn, A.sort))
        return
    raise Unsupported(f"masked store of a value that is not a selection by the same mask (line {getattr(node, 'lineno', '?')})")


@ext("__scatter__", "a[sel_idx] = v where sel_idx = arange(n)[mask]: row sel_idx[k] receives v[k]; rows outside mask are kept")
def scatter(I, st, base, A, X, value, node):
    pv = X.prov
    V = arr_of(st, value)
    if not (pv is not None and pv[0] == "select" and pv[1].prov == ("arange",)):
        raise Unsupported(f"scatter through an index array that is not arange(n)[mask] (line {getattr(node, 'lineno', '?')})")
    mask = pv[2]
    m, sel, inv = st.ghost[("sel", mask.uid)]
    I.oblige(f"scatter-index-in-range@{getattr(node, 'lineno', '?')}", st,
             to_z3(mask.shape[0], "int") <= to_z3(A.shape[0], "int"), node)
    if V is None:
        st.set_arr(base, Arr(A.shape, lambda i, *r: z3.If(z3.And(to_z3(i, "int") < to_z3(mask.shape[0], "int"), to_z3(mask.at(i))),
                                                          to_z3(value), to_z3(A.at(i, *r))), A.sort))
        return
    I.oblige(f"scatter-shapes-match@{getattr(node, 'lineno', '?')}", st, to_z3(V.shape[0], "int") == to_z3(m, "int"), node)
    invf = inv if callable(inv) else None
    st.set_arr(base, Arr(A.shape, lambda i, *r: z3.If(z3.And(to_z3(i, "int") < to_z3(mask.shape[0], "int"), to_z3(mask.at(i))),
                                                      to_z3(V.at(inv(to_z3(i, "int")), *r)), to_z3(A.at(i, *r))), A.sort,
                         prov=("scatter", A, mask, V)))


# ----------------------------------------------------------------------------- further equivalent-primitive models
@ext("numpy.take", "np.take(a, idx, axis=0): the same gather as a[idx]")
def np_take(I, st, args, kw, node):
    axis = kw.get("axis", args[2] if len(args) > 2 else None)
    A = arr_of(st, args[0])
    if A is None or axis not in (0, None) or (axis is None and A.ndim != 1):
        raise Unsupported("np.take axis")
    return arr_getitem(I, st, A, args[1], node)


def _method_via(name):
    def h(I, st, args, kw, node):
        return EXT[name](I, st, args, kw, node)
    return h


for _m, _f in (("max", "numpy.max"), ("any", "numpy.any"), ("all", "numpy.all"), ("cumsum", "numpy.cumsum"), ("dot", "numpy.dot")):
    if ("method", "arr", _m) not in EXT and _f in EXT:
        EXT[("method", "arr", _m)] = _method_via(_f)


@ext("numpy.count_nonzero", "np.count_nonzero(mask): the number of True entries (the m of the L-MASK selection)")
def np_count_nonzero(I, st, args, kw, node):
    A = arr_of(st, args[0])
    if A is None or A.ndim != 1 or A.sort != "bool":
        raise Unsupported("count_nonzero of a non-mask")
    m, sel, inv = mask_selection(I, st, A)
    return m


@ext("numpy.flatnonzero", "np.flatnonzero(mask): the increasing indices of the True entries (L-MASK)")
def np_flatnonzero(I, st, args, kw, node):
    A = arr_of(st, args[0])
    if A is None or A.ndim != 1 or A.sort != "bool":
        raise Unsupported("flatnonzero of a non-mask")
    m, sel, inv = mask_selection(I, st, A)
    return st.new_arr(Arr((m,), lambda k: sel(to_z3(k, "int")), "int", prov=("where", A, sel, m)))


@ext("numpy.subtract", "np.subtract / np.add / np.multiply / np.divide without out=: the binary operators")
def np_subtract(I, st, args, kw, node):
    if kw.get("out") is not None:
        raise Unsupported("ufunc with out=")
    return binop(I, st, ast.Sub(), args[0], args[1], node)


@ext("numpy.add")
def np_add(I, st, args, kw, node):
    if kw.get("out") is not None:
        raise Unsupported("ufunc with out=")
    return binop(I, st, ast.Add(), args[0], args[1], node)


@ext("numpy.multiply")
def np_multiply(I, st, args, kw, node):
    if kw.get("out") is not None:
        raise Unsupported("ufunc with out=")
    return binop(I, st, ast.Mult(), args[0], args[1], node)


@ext("numpy.divide")
def np_divide(I, st, args, kw, node):
    if kw.get("out") is not None:
        raise Unsupported("ufunc with out=")
    return binop(I, st, ast.Div(), args[0], args[1], node)
