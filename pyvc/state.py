"""Symbolic state: environment, heap, path condition; obligations collected along paths."""
import itertools
import z3

from .values import Ref, Arr, Unsupported

_oid = itertools.count(1)


class State:
    def __init__(self):
        self.env = {}
        self.heap = {}      # oid -> dict (cell)
        self.pc = []        # list of z3 Bool (path condition + assumed facts)
        self.ghost = {}     # ghost variables (counters, effect traces)
        self.trace = []     # line numbers of branch decisions (for reporting)

    def clone(self):
        s = State.__new__(State)
        s.env = dict(self.env)
        s.heap = {k: dict(v) for k, v in self.heap.items()}
        for c in s.heap.values():
            if "__list__" in c:
                c["__list__"] = list(c["__list__"])
            if "__dict__" in c:
                c["__dict__"] = dict(c["__dict__"])
        s.pc = list(self.pc)
        s.ghost = dict(self.ghost)
        s.trace = list(self.trace)
        return s

    def assume(self, b):
        if b is True:
            return
        if b is False:
            self.pc.append(z3.BoolVal(False))
            return
        self.pc.append(b)

    # ---- heap helpers
    def alloc(self, kind, cell):
        oid = next(_oid)
        self.heap[oid] = cell
        return Ref(oid, kind)

    def new_arr(self, arr):
        assert isinstance(arr, Arr)
        return self.alloc("arr", {"val": arr})

    def new_list(self, items):
        return self.alloc("list", {"__list__": list(items)})

    def new_dict(self, d):
        return self.alloc("dict", {"__dict__": dict(d)})

    def new_obj(self, cls, **attrs):
        c = {"__class__": cls}
        c.update(attrs)
        return self.alloc("obj", c)

    def cell(self, ref):
        return self.heap[ref.oid]

    def arr(self, ref):
        if isinstance(ref, Arr):
            return ref
        if isinstance(ref, Ref) and ref.kind == "arr":
            return self.heap[ref.oid]["val"]
        raise Unsupported(f"array expected, got {ref!r}")

    def set_arr(self, ref, arr):
        self.heap[ref.oid]["val"] = arr

    def cls(self, ref):
        return self.heap[ref.oid].get("__class__")


class Outcome:
    __slots__ = ("kind", "state", "value", "locals")

    def __init__(self, kind, state, value=None):
        self.kind = kind    # 'fall' | 'return' | 'break' | 'continue' | 'raise'
        self.state = state
        self.value = value
        self.locals = None  # callee environment at exit (for postconditions over locals)


class Obligation:
    def __init__(self, label, pc, goal, line=None, note=""):
        self.label = label
        self.pc = list(pc)
        self.goal = goal
        self.line = line
        self.note = note
        self.status = None   # 'discharged' | 'violated' | 'unknown'
        self.model = None
        self.time = 0.0
        self.backend = None

    def formula(self):
        g = self.goal
        if g is True:
            g = z3.BoolVal(True)
        elif g is False:
            g = z3.BoolVal(False)
        return self.pc + [z3.Not(g)]
