"""pyvc value domain: symbolic values the AST interpreter computes with.

Scalars are either concrete Python values (int/float/bool/str/None) or z3 expressions
(Int / Real / Bool / uninterpreted sorts).  Floats are mathematical reals (assumption A1).
Containers (numpy arrays, lists, dicts, objects) live in the State heap and are referred to
through Ref so that Python aliasing is modelled.
"""
import fractions
import itertools
import z3

_fresh = itertools.count()


def fresh_name(base):
    return f"{base}!{next(_fresh)}"


class Unsupported(Exception):
    """Construct outside the supported subset (A4): the obligation is undecided, never passed."""


class PyRaise(Exception):
    """Internal signal: the interpreted code raises a Python exception."""

    def __init__(self, exc, msg=""):
        self.exc = exc
        self.msg = msg


def engine_errors():
    """Everything a symbolic run of code outside the supported subset can end in: each is reported as *undecided*, never a pass."""
    import z3
    return (Unsupported, PyRaise, AttributeError, TypeError, KeyError, IndexError, ValueError, NameError, AssertionError, z3.Z3Exception)


class Ref:
    """Reference to a heap cell (numpy array, list, dict, object)."""
    __slots__ = ("oid", "kind")

    def __init__(self, oid, kind):
        self.oid = oid
        self.kind = kind  # 'arr' | 'list' | 'dict' | 'obj'

    def __repr__(self):
        return f"Ref({self.kind}#{self.oid})"


class ZS:
    """Wrapper for an uninterpreted z3 sort used as an array element sort (safe to compare with strings)."""
    __slots__ = ("z3",)

    def __init__(self, srt):
        self.z3 = srt

    def __eq__(self, other):
        return isinstance(other, ZS) and self.z3.eq(other.z3)

    def __ne__(self, other):
        return not self.__eq__(other)

    def __hash__(self):
        return hash(str(self.z3))

    def __repr__(self):
        return f"ZS({self.z3})"


class Arr:
    """Immutable symbolic n-d array value: shape (tuple of int/z3 Int) and element function."""
    __slots__ = ("shape", "fn", "sort", "prov", "uid")

    def __init__(self, shape, fn, sort="real", prov=None):
        self.shape = tuple(shape)
        self.fn = fn
        if isinstance(sort, z3.SortRef):
            sort = ZS(sort)
        self.sort = sort  # 'real' | 'int' | 'bool' | ZS(uninterpreted sort)
        self.prov = prov  # provenance for T-SUM linearity lemmas
        self.uid = next(_fresh)

    @property
    def ndim(self):
        return len(self.shape)

    def at(self, *idx):
        return self.fn(*idx)


class Closure:
    def __init__(self, fdef, env, module):
        self.fdef = fdef
        self.env = env
        self.module = module


class BoundMethod:
    def __init__(self, recv, name):
        self.recv = recv
        self.name = name


class ModuleV:
    def __init__(self, dotted):
        self.dotted = dotted

    def __repr__(self):
        return f"<module {self.dotted}>"


class Opaque:
    """A value the engine does not interpret (callable, Path, ...)."""

    def __init__(self, tag, **kw):
        self.tag = tag
        self.info = kw

    def __repr__(self):
        return f"<opaque {self.tag}>"


class Opt:
    """None-or-value with a symbolic presence flag (loop-carried variables such as `best = None` ... `best = (a, b)`)."""
    __slots__ = ("flag", "value")

    def __init__(self, flag, value):
        self.flag = flag        # z3 Bool: True <=> the variable holds `value`, False <=> it is None
        self.value = value

    def __repr__(self):
        return f"Opt({self.flag}, {self.value!r})"


def is_sym(v):
    return isinstance(v, z3.ExprRef)


def is_conc(v):
    return v is None or isinstance(v, (bool, int, float, str))


def real_const(x):
    if isinstance(x, bool):
        raise Unsupported("bool used as real")
    if isinstance(x, int):
        return z3.RealVal(x)
    if x != x or x in (float("inf"), float("-inf")):
        raise Unsupported("non-finite float constant in real arithmetic")
    fr = fractions.Fraction(repr(x))  # decimal reading of the literal (A1)
    return z3.RealVal(f"{fr.numerator}/{fr.denominator}")


def to_z3(v, want=None):
    """Lift a scalar to z3. want in {None,'real','int','bool'}."""
    if isinstance(v, z3.ExprRef):
        if want == "real" and z3.is_int(v):
            return z3.ToReal(v)
        if want == "int" and z3.is_real(v) and not z3.is_int(v):
            raise Unsupported("real where int expected")
        return v
    if isinstance(v, bool):
        if want in ("real", "int"):
            return z3.RealVal(int(v)) if want == "real" else z3.IntVal(int(v))
        return z3.BoolVal(v)
    if isinstance(v, int):
        return z3.RealVal(v) if want == "real" else z3.IntVal(v)
    if isinstance(v, float):
        return real_const(v)
    raise Unsupported(f"cannot lift {type(v).__name__} to z3")


def is_int_like(v):
    return (isinstance(v, int) and not isinstance(v, bool)) or (is_sym(v) and z3.is_int(v))


def is_real_like(v):
    return isinstance(v, float) or (is_sym(v) and z3.is_real(v) and not z3.is_int(v))


def is_bool_like(v):
    return isinstance(v, bool) or (is_sym(v) and z3.is_bool(v))


def fresh_scalar(kind, base="v"):
    n = fresh_name(base)
    if isinstance(kind, (ZS, z3.SortRef)):
        return z3.Const(n, kind.z3 if isinstance(kind, ZS) else kind)
    if kind == "real":
        return z3.Real(n)
    if kind == "int":
        return z3.Int(n)
    if kind == "bool":
        return z3.Bool(n)
    if isinstance(kind, ZS):
        return z3.Const(n, kind.z3)
    if isinstance(kind, z3.SortRef):
        return z3.Const(n, kind)
    raise Unsupported(f"fresh scalar of kind {kind}")


def z3sort(kind):
    if isinstance(kind, ZS):
        return kind.z3
    if isinstance(kind, z3.SortRef):
        return kind
    if kind == "real":
        return z3.RealSort()
    if kind == "int":
        return z3.IntSort()
    if kind == "bool":
        return z3.BoolSort()
    return kind


def fresh_arr(shape, sort="real", base="a"):
    f = z3.Function(fresh_name(base), *([z3.IntSort()] * len(shape)), z3sort(sort))
    return Arr(shape, lambda *idx: f(*[to_z3(i, "int") for i in idx]), sort)


def kind_of(v):
    if is_bool_like(v):
        return "bool"
    if is_int_like(v):
        return "int"
    if is_real_like(v):
        return "real"
    if is_sym(v):
        return ZS(v.sort())
    return None
