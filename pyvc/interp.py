"""pyvc AST interpreter: symbolic execution of the real tempest source (re-read on every run).

Produces obligations (path condition => goal) that discharge.py hands to z3 / cvc5.
Semantics assumed (A4): see DESIGN.md 1.2.  Anything outside the subset raises Unsupported,
which the driver reports as undecided (never as a pass).
"""
import ast
import z3

from .values import (Opt, Ref, Arr, Closure, BoundMethod, ModuleV, Opaque, Unsupported, PyRaise,
                     is_sym, is_conc, to_z3, fresh_scalar, fresh_arr, kind_of, is_int_like,
                     is_real_like, is_bool_like, fresh_name, z3sort)
from .state import State, Outcome, Obligation

DROPPED = {"print"}  # statements the extraction drops (DESIGN 1.1)


class LoopSpec:
    """Inductive invariant for loop #ordinal of a function.

    inv(view) -> z3 Bool (or list of alternatives: the loop verifies if any alternative does).
    view gives access to variables: view['name'], view.attr('self.x'), view.k (iteration count
    for `for` loops), view.state.
    fresh: optional dict name -> kind for variables first bound inside the loop but needed
    by the invariant.
    """

    def __init__(self, inv, fresh=None, label=None, unroll=False, shapes=None, hints=None, modifies=(), variant=None, reads_env=False, covers=()):
        # variant(view) -> ("int", t)            : t is an integer term, >= 0 whenever the body is entered, and every path back to
        #                                           the loop head decreases it by at least 1            (termination: well-founded)
        #                  ("halving", g, tol)   : g is a real term with g >= tol > 0 whenever the loop continues and every path
        #                                           back to the head at least halves it                  (termination: Lean
        #                                           lemma halving_terminates in lemmas/Term.lean)
        self.variant = variant
        self.reads_env = reads_env    # the invariant reads locals through state.env (not tracked by the annotation-coverage check)
        self.covers = tuple(covers)   # further locals the invariant accounts for
        self.modifies = tuple(modifies)   # attribute paths written by callees inside the loop (checked by the frame check)
        self.hints = hints    # hints(view) -> [(label, premise, conclusion)]: prove premise, then assume conclusion
        self.inv = inv
        self.fresh = fresh or {}
        self.label = label
        self.unroll = unroll
        self.shapes = shapes or {}


class View:
    def __init__(self, interp, state, k=None, pre=None):
        self.I = interp
        self.state = state
        self.k = k
        self.pre = pre  # View of the state at loop entry (for frame conditions)
        self.read = set()   # local names the annotation looked at (annotation-coverage check)

    def __getitem__(self, name):
        self.read.add(name)
        v = self.state.env[name]
        if isinstance(v, Ref) and v.kind == "arr":
            return self.state.arr(v)
        return v

    def has(self, name):
        return name in self.state.env

    def attr(self, path):
        parts = path.split(".")
        v = self.state.env[parts[0]]
        for p in parts[1:]:
            v = self.I.getattr_value(self.state, v, p)
        if isinstance(v, Ref) and v.kind == "arr":
            return self.state.arr(v)
        return v


class Interp:
    def __init__(self, repo_modules, externals, registry):
        self.mods = repo_modules      # name -> (ast.Module, path, source)
        self.ext = externals          # dotted name -> handler(I, state, args, kwargs, node)
        self.reg = registry           # (module, qualname) -> handler or 'inline'
        self.obligations = []
        self.loopspecs = {}           # (module, qualname) -> {ordinal: LoopSpec}
        self.cur = []                 # stack of (module, qualname)
        self.terminating = set()      # ((module, qualname), loop ordinal, kind) of while loops with a checked variant
        self.annotation_gaps = {}     # ((module, qualname), loop line) -> loop-carried locals the invariant never reads
        self.solver_timeout = 10000
        self.prune = True
        self.check_div = False
        self.stats = {"paths": 0, "prune_checks": 0}
        self.fn_hash = {}
        self.inlined = set()

    # ------------------------------------------------------------------ utilities
    def oblige(self, label, state, goal, node=None, note="", structural=False):
        if goal is True and not structural:
            return
        concrete = isinstance(goal, bool)
        if goal is True:
            goal = z3.BoolVal(True)
        fn = ".".join(self.cur[-1]) if self.cur else "?"
        ob = Obligation(f"{fn}/{label}", state.pc, goal,
                        line=getattr(node, "lineno", None), note=note)
        ob.concrete = concrete
        self.obligations.append(ob)

    def feasible(self, state, cond=None):
        if not self.prune:
            return True
        self.stats["prune_checks"] += 1
        s = z3.Solver()
        s.set("timeout", 2000)
        s.add(*state.pc)
        if cond is not None:
            s.add(cond)
        return s.check() != z3.unsat

    def find_function(self, module, qualname):
        tree = self.mods[module][0]
        parts = qualname.split(".")
        body = tree.body
        node = None
        for p in parts:
            node = None
            for n in body:
                if isinstance(n, (ast.FunctionDef, ast.ClassDef)) and n.name == p:
                    node = n
                    break
            if node is None:
                raise Unsupported(f"{module}.{qualname} not found in the repository source")
            body = node.body
        return node

    def class_of_method(self, module, cls, name):
        """Resolve method through the (single-inheritance, same-module) MRO."""
        tree = self.mods[module][0]
        classes = {n.name: n for n in tree.body if isinstance(n, ast.ClassDef)}
        c = cls
        while c in classes:
            for n in classes[c].body:
                if isinstance(n, ast.FunctionDef) and n.name == name:
                    return c, n
            bases = [b.id for b in classes[c].bases if isinstance(b, ast.Name)]
            c = bases[0] if bases else None
        return None, None

    def module_env(self, module):
        """Names bound at module level: imports, constants, functions, classes."""
        cache = getattr(self, "_menv", None)
        if cache is None:
            cache = self._menv = {}
        if module in cache:
            return cache[module]
        env = {}
        tree = self.mods[module][0]
        for n in tree.body:
            if isinstance(n, ast.Import):
                for a in n.names:
                    env[a.asname or a.name.split(".")[0]] = ModuleV(a.name if a.asname else a.name.split(".")[0])
            elif isinstance(n, ast.ImportFrom):
                src = n.module or ""
                if n.level:  # relative import inside tempest
                    base = module.split(".")[:-n.level] if "." in module else []
                    src = ".".join(["tempest"] + ([src] if src else [])) if not base else ".".join(base + [src])
                for a in n.names:
                    env[a.asname or a.name] = ("from", src, a.name)
            elif isinstance(n, ast.FunctionDef):
                env[n.name] = ("func", module, n.name)
            elif isinstance(n, ast.ClassDef):
                env[n.name] = ("class", module, n.name)
            elif isinstance(n, (ast.Assign, ast.AnnAssign)):
                tg = n.targets[0] if isinstance(n, ast.Assign) else n.target
                if isinstance(tg, ast.Name) and n.value is not None:
                    env[tg.id] = ("const", module, n.value)
        cache[module] = env
        return env

    # ------------------------------------------------------------------ function entry
    def call_function(self, module, qualname, state, args, kwargs=None, self_val=None,
                      fdef=None, closure_env=None):
        """Symbolically execute a function body. Returns list of Outcome (return/raise)."""
        fdef = fdef or self.find_function(module, qualname)
        fdef = self._degenerate(fdef)
        st = state
        saved_env = st.env
        env = dict(closure_env) if closure_env else {}
        params = [a.arg for a in fdef.args.args]
        defaults = fdef.args.defaults
        kwargs = dict(kwargs or {})
        pos = list(args)
        if self_val is not None:
            pos = [self_val] + pos
        extra_pos = ()
        if len(pos) > len(params):
            if fdef.args.vararg is None:
                raise Unsupported(f"too many positional args for {qualname}")
            extra_pos = tuple(pos[len(params):])
            pos = pos[:len(params)]
        if fdef.args.vararg is not None:
            env[fdef.args.vararg.arg] = extra_pos
        for i, p in enumerate(params):
            if i < len(pos):
                env[p] = pos[i]
            elif p in kwargs:
                env[p] = kwargs.pop(p)
            else:
                di = i - (len(params) - len(defaults))
                if di < 0:
                    raise Unsupported(f"missing argument {p} for {qualname}")
                st.env = {}
                env[p] = self.eval(defaults[di], st, module)
        for a_, d_ in zip(fdef.args.kwonlyargs, fdef.args.kw_defaults):
            if a_.arg in kwargs:
                env[a_.arg] = kwargs.pop(a_.arg)
            elif d_ is not None:
                st.env = {}
                env[a_.arg] = self.eval(d_, st, module)
            else:
                raise Unsupported(f"missing keyword-only argument {a_.arg} for {qualname}")
        if fdef.args.kwarg is not None:
            env[fdef.args.kwarg.arg] = st.new_dict(dict(kwargs))
            kwargs = {}
        if kwargs:
            raise Unsupported(f"unexpected kwargs {list(kwargs)} for {qualname}")
        st.env = env
        self.cur.append((module, qualname))
        prev_frames = st.ghost.get("__frames__", ())
        st.ghost["__frames__"] = prev_frames + ((self.cur[-2] if len(self.cur) > 1 else None, saved_env),)
        try:
            outs = self.exec_block(fdef.body, st, module)
        finally:
            self.cur.pop()
        res = []
        for o in outs:
            if o.kind == "fall":
                o = Outcome("return", o.state, None)
            elif o.kind in ("break", "continue"):
                raise Unsupported("break/continue outside loop")
            o.locals = o.state.env
            o.state.env = saved_env if len(outs) == 1 else dict(saved_env)
            o.state.ghost["__frames__"] = prev_frames
            res.append(o)
        return res

    @staticmethod
    def frame_lookup(st, name, default=None):
        """value of local `name` in the innermost active frame that binds it (current frame first, then the callers')"""
        if name in st.env:
            return st.env[name]
        for _, env in reversed(st.ghost.get("__frames__", ())):
            if env is not None and name in env:
                return env[name]
        return default

    def _degenerate(self, fdef):
        """A generator function (plain `yield <expr>` statements, no send/return value) is executed eagerly: the yielded values
        are collected, in order, into the list the call returns.  Callers iterate it or wrap it in list(...): same elements, same
        order; only laziness differs, which is unobservable for side-effect-free bodies (assumed: stated in A4)."""
        if not any(isinstance(n, (ast.Yield, ast.YieldFrom)) for n in ast.walk(fdef)):
            return fdef
        cache = self.__dict__.setdefault("_gen_cache", {})
        if id(fdef) in cache:
            return cache[id(fdef)]
        import copy

        class T(ast.NodeTransformer):
            ok = True

            def visit_Expr(self, node):
                if isinstance(node.value, ast.Yield) and node.value.value is not None:
                    call = ast.Call(func=ast.Attribute(value=ast.Name(id="__gen__", ctx=ast.Load()), attr="append", ctx=ast.Load()),
                                    args=[node.value.value], keywords=[])
                    return ast.copy_location(ast.Expr(value=ast.copy_location(call, node)), node)
                if isinstance(node.value, (ast.Yield, ast.YieldFrom)):
                    T.ok = False
                return node

            def visit_FunctionDef(self, node):
                if node is not new:
                    return node            # nested definitions keep their own yields
                self.generic_visit(node)
                return node
        new = copy.deepcopy(fdef)
        T.ok = True
        T().visit(new)
        if not T.ok or any(isinstance(n, (ast.Yield, ast.YieldFrom)) for n in ast.walk(new)) or \
                any(isinstance(n, ast.Return) and n.value is not None for n in ast.walk(new)):
            cache[id(fdef)] = fdef
            return fdef
        init = ast.Assign(targets=[ast.Name(id="__gen__", ctx=ast.Store())], value=ast.List(elts=[], ctx=ast.Load()))
        ret = ast.Return(value=ast.Name(id="__gen__", ctx=ast.Load()))
        for n in (init, ret):
            ast.copy_location(n, fdef.body[0])
            ast.fix_missing_locations(n)
        # bare `return` inside a generator ends it: return what was collected so far
        for n in ast.walk(new):
            if isinstance(n, ast.Return) and n.value is None:
                n.value = ast.copy_location(ast.Name(id="__gen__", ctx=ast.Load()), n)
        new.body = [init] + new.body + [ret]
        ast.fix_missing_locations(new)
        cache[id(fdef)] = new
        return new

    # ------------------------------------------------------------------ statements
    def exec_block(self, stmts, state, module):
        frontier = [state]
        done = []
        for s in stmts:
            nxt = []
            for st in frontier:
                for o in self.exec_stmt(s, st, module):
                    if o.kind == "fall":
                        nxt.append(o.state)
                    else:
                        done.append(o)
            frontier = nxt
            if not frontier:
                break
        return done + [Outcome("fall", st) for st in frontier]

    def exec_stmt(self, s, state, module):
        try:
            return self._exec_stmt(s, state, module)
        except PyRaise as e:
            return [Outcome("raise", state, (e.exc, e.msg, getattr(s, "lineno", None)))]

    def _exec_stmt(self, s, state, module):
        if isinstance(s, ast.Expr):
            if isinstance(s.value, ast.Constant):
                return [Outcome("fall", state)]  # docstring (dropped)
            if isinstance(s.value, ast.Call) and isinstance(s.value.func, ast.Name) \
                    and s.value.func.id in DROPPED:
                return [Outcome("fall", state)]
            return self.eval_forking(s.value, state, module, lambda st, v: [Outcome("fall", st)])
        if isinstance(s, ast.Assign):
            def k(st, v):
                for t in s.targets:
                    self.assign(t, v, st, module)
                return [Outcome("fall", st)]
            return self.eval_forking(s.value, state, module, k)
        if isinstance(s, ast.AnnAssign):
            if s.value is None:
                return [Outcome("fall", state)]
            def k(st, v):
                self.assign(s.target, v, st, module)
                return [Outcome("fall", st)]
            return self.eval_forking(s.value, state, module, k)
        if isinstance(s, ast.AugAssign):
            def k(st, rhs):
                cur = self.eval(s.target, st, module)
                if isinstance(s.target, ast.Subscript):
                    # a[idx] op= v : read, combine, store back through the subscript (the read yields a copy)
                    self.assign(s.target, self.binop(s.op, cur, rhs, st, s), st, module)
                elif isinstance(cur, Ref) and cur.kind == "arr":
                    # numpy in-place operator: the cell is updated, aliases see it
                    newv = self.binop(s.op, cur, rhs, st, s)
                    st.set_arr(cur, st.arr(newv))
                else:
                    self.assign(s.target, self.binop(s.op, cur, rhs, st, s), st, module)
                return [Outcome("fall", st)]
            return self.eval_forking(s.value, state, module, k)
        if isinstance(s, ast.Return):
            if s.value is None:
                return [Outcome("return", state, None)]
            return self.eval_forking(s.value, state, module,
                                     lambda st, v: [Outcome("return", st, v)])
        if isinstance(s, ast.If):
            return self.exec_if(s, state, module)
        if isinstance(s, ast.While):
            return self.exec_while(s, state, module)
        if isinstance(s, ast.For):
            return self.exec_for(s, state, module)
        if isinstance(s, ast.Break):
            return [Outcome("break", state)]
        if isinstance(s, ast.Continue):
            return [Outcome("continue", state)]
        if isinstance(s, ast.Pass):
            return [Outcome("fall", state)]
        if isinstance(s, ast.Raise):
            name = "Exception"
            if s.exc is None and state.ghost.get("__exc__") is not None:
                return [Outcome("raise", state, state.ghost["__exc__"])]   # bare `raise`: re-raise the caught exception
            if s.exc is not None:
                e = s.exc.func if isinstance(s.exc, ast.Call) else s.exc
                name = ast.unparse(e)
            return [Outcome("raise", state, (name, "explicit raise", s.lineno))]
        if isinstance(s, ast.FunctionDef):
            state.env[s.name] = Closure(s, dict(state.env), module)
            return [Outcome("fall", state)]
        if isinstance(s, (ast.Import, ast.ImportFrom)):
            # function-level import: bind statically (DESIGN 1.1)
            for a in s.names:
                if isinstance(s, ast.Import):
                    state.env[a.asname or a.name.split(".")[0]] = ModuleV(a.name)
                else:
                    src = s.module or ""
                    if s.level:
                        src = "tempest." + src if src else "tempest"
                    state.env[a.asname or a.name] = ("from", src, a.name)
            return [Outcome("fall", state)]
        if isinstance(s, ast.Try):
            return self.exec_try(s, state, module)
        if isinstance(s, ast.With):
            return self.exec_with(s, state, module)
        if isinstance(s, ast.Assert):
            return self.eval_forking(s.test, state, module, lambda st, v: self._assert(st, v, s))
        raise Unsupported(f"statement {type(s).__name__} at line {s.lineno}")

    def _assert(self, st, v, s):
        b = self.truth(v, st)
        self.oblige(f"assert@{s.lineno}", st, b, s)
        st.assume(b)
        return [Outcome("fall", st)]

    def _cond_append(self, s, state, module):
        """`if c: L.append(e)` (optionally chained with elif of the same shape) on a concrete list L that is only
        ever tested for emptiness afterwards: recorded as a conditional append instead of forking the path
        (2^n paths for n independent checks otherwise).  Every other use of such a list is rejected (Unsupported)."""
        chain, node = [], s
        while True:
            if not (len(node.body) == 1 and isinstance(node.body[0], ast.Expr) and isinstance(node.body[0].value, ast.Call)):
                return None
            call = node.body[0].value
            if not (isinstance(call.func, ast.Attribute) and call.func.attr == "append" and isinstance(call.func.value, ast.Name)
                    and len(call.args) == 1 and isinstance(call.args[0], (ast.JoinedStr, ast.Constant))):
                return None
            chain.append((node.test, call.func.value.id))
            if not node.orelse:
                break
            if len(node.orelse) == 1 and isinstance(node.orelse[0], ast.If):
                node = node.orelse[0]
                continue
            return None
        if len({nm for _, nm in chain}) != 1:
            return None
        lst = state.env.get(chain[0][1])
        if not (isinstance(lst, Ref) and lst.kind == "list" and "__symlen__" not in state.cell(lst)):
            return None
        npc = len(state.pc)
        conds, prior = [], []
        try:
            for test, _ in chain:
                v = self.eval(test, state, module)
                c = self.truth(v, state)
                eff_c = c if not prior else (z3.And(*[z3.Not(to_z3(p)) for p in prior], to_z3(c)) if not isinstance(c, bool) or c else False)
                conds.append(eff_c)
                prior.append(c)
                if c is True:
                    break      # later tests of the chain are not evaluated by Python either
                state.pc.append(z3.Not(to_z3(c)) if not isinstance(c, bool) else z3.BoolVal(not c))
        except _Fork:
            del state.pc[npc:]
            return None
        del state.pc[npc:]
        cell = state.cell(lst)
        for c in conds:
            if c is True:
                cell["__list__"].append("<message>")
            elif c is not False:
                cell["__condapp__"] = list(cell.get("__condapp__", [])) + [c]
        return [Outcome("fall", state)]

    def exec_if(self, s, state, module):
        r = self._cond_append(s, state, module)
        if r is not None:
            return r

        def k(st, v):
            c = self.truth(v, st)
            outs = []
            if c is True:
                return self.exec_block(s.body, st, module)
            if c is False:
                return self.exec_block(s.orelse, st, module)
            st2 = st.clone()
            if self.feasible(st, c):
                st.assume(c)
                st.trace.append(s.lineno)
                self.stats["paths"] += 1
                outs += self.exec_block(s.body, st, module)
            nc = z3.Not(c)
            if self.feasible(st2, nc):
                st2.assume(nc)
                st2.trace.append(-s.lineno)
                outs += self.exec_block(s.orelse, st2, module)
            return outs
        return self.eval_forking(s.test, state, module, k)

    def exec_try(self, s, state, module):
        outs = self.exec_block(s.body, state, module)
        res = []
        for o in outs:
            if o.kind == "raise":
                handled = False
                for h in s.handlers:
                    names = []
                    if h.type is None:
                        names = ["*"]
                    elif isinstance(h.type, ast.Tuple):
                        names = [ast.unparse(e) for e in h.type.elts]
                    else:
                        names = [ast.unparse(h.type)]
                    exc = o.value[0]
                    if "*" in names or "Exception" in names or exc in names or \
                            any(exc.split(".")[-1] == n.split(".")[-1] for n in names):
                        if h.name:
                            o.state.env[h.name] = Opaque("exception", exc=exc)
                        o.state.ghost["__exc__"] = o.value
                        hres = self.exec_block(h.body, o.state, module)
                        for ho in hres:
                            ho.state.ghost["__exc__"] = None
                        res += hres
                        handled = True
                        break
                if not handled:
                    res.append(o)
            else:
                res.append(o)
        if s.orelse:
            raise Unsupported("try/else")
        if s.finalbody:
            fin = []
            for o in res:
                for fo in self.exec_block(s.finalbody, o.state, module):
                    if fo.kind == "fall":
                        fin.append(Outcome(o.kind, fo.state, o.value))
                    else:
                        fin.append(fo)
            res = fin
        return res

    def exec_with(self, s, state, module):
        # only `with open(path, mode) as f:` (file effects are recorded as a ghost trace)
        if len(s.items) != 1:
            raise Unsupported("with: multiple items")
        it = s.items[0]
        def k(st, v):
            if it.optional_vars is not None:
                self.assign(it.optional_vars, v, st, module)
            outs = self.exec_block(s.body, st, module)
            for o in outs:
                tr = o.state.ghost.get("fs")
                if tr is not None and isinstance(v, Opaque) and v.tag == "file":
                    pth = v.info.get("path")
                    o.state.ghost["fs"] = tr + [("close", pth.info.get("pid") if isinstance(pth, Opaque) else pth)]
            return outs
        return self.eval_forking(it.context_expr, state, module, k)

    # ------------------------------------------------------------------ loops
    def assigned_names(self, body):
        rebound, inplace, attrs = set(), set(), set()
        for n in ast.walk(ast.Module(body=list(body), type_ignores=[])):
            tgts = []
            if isinstance(n, ast.Assign):
                tgts = n.targets
            elif isinstance(n, (ast.AugAssign, ast.AnnAssign)):
                tgts = [n.target]
            elif isinstance(n, ast.For):
                tgts = [n.target]
            elif isinstance(n, ast.FunctionDef):
                rebound.add(n.name)
            elif isinstance(n, (ast.With,)):
                for it in n.items:
                    if it.optional_vars is not None:
                        tgts.append(it.optional_vars)
            for t in tgts:
                for e in ([t] if not isinstance(t, (ast.Tuple, ast.List)) else ast.walk(t)):
                    if isinstance(e, ast.Name) and isinstance(e.ctx, ast.Store):
                        if isinstance(n, ast.AugAssign):
                            inplace.add(e.id)
                        rebound.add(e.id)
                    elif isinstance(e, ast.Subscript):
                        b = e.value
                        while isinstance(b, ast.Subscript):
                            b = b.value
                        if isinstance(b, ast.Name):
                            inplace.add(b.id)
                        elif isinstance(b, ast.Attribute):
                            attrs.add(ast.unparse(b))
                    elif isinstance(e, ast.Attribute):
                        attrs.add(ast.unparse(e))
                    elif isinstance(e, (ast.Tuple, ast.List)):
                        for x in ast.walk(e):
                            if isinstance(x, ast.Name) and isinstance(x.ctx, ast.Store):
                                rebound.add(x.id)
        return rebound, inplace, attrs

    def appended_names(self, body):
        out = set()
        for n in ast.walk(ast.Module(body=list(body), type_ignores=[])):
            if isinstance(n, ast.Call) and isinstance(n.func, ast.Attribute) and n.func.attr == "append" \
                    and isinstance(n.func.value, ast.Name):
                out.add(n.func.value.id)
        return out

    def havoc_value(self, state, v, name, spec):
        shp = spec.shapes.get(name) if spec else None
        if isinstance(v, Ref) and v.kind == "arr":
            a = state.arr(v)
            return state.new_arr(fresh_arr(a.shape if shp is None else shp, a.sort, name))
        k = kind_of(v)
        if k is not None:
            return fresh_scalar(k, name)
        if isinstance(v, Opt):
            return Opt(fresh_scalar("bool", name + "_present"), self.havoc_value(state, v.value, name, spec))
        if v is None or isinstance(v, (str, Opaque, Closure, tuple)):
            return v if not isinstance(v, tuple) else tuple(self.havoc_value(state, x, name, spec) for x in v)
        raise Unsupported(f"cannot havoc loop variable {name} of type {type(v).__name__}")

    def havoc_loop(self, state, body, spec, extra=()):
        rebound, inplace, attrs = self.assigned_names(body)
        forced = {k_ for k_, v_ in (spec.fresh.items() if spec and hasattr(spec.fresh, "items") else []) if callable(v_)}
        for nm in sorted(rebound | set(extra) | forced):
            if nm in (spec.fresh if spec else {}):
                kd = spec.fresh[nm]
                if callable(kd):
                    state.env[nm] = kd(state)
                    continue
                if isinstance(kd, tuple) and kd[0] == "list":
                    continue       # handled with the appended lists below
                if isinstance(kd, tuple) and kd[0] == "arr":
                    state.env[nm] = state.new_arr(fresh_arr(kd[2], kd[1], nm))
                else:
                    state.env[nm] = fresh_scalar(kd, nm)
            elif nm in state.env:
                v = state.env[nm]
                if isinstance(v, Ref) and v.kind == "arr" and nm in inplace and nm not in \
                        {t for t in rebound if self._plain_rebound(body, t)}:
                    state.set_arr(v, fresh_arr(state.arr(v).shape, state.arr(v).sort, nm))
                else:
                    state.env[nm] = self.havoc_value(state, v, nm, spec)
        for nm in sorted(self.appended_names(body)):
            v = state.env.get(nm)
            if isinstance(v, Ref) and v.kind == "list" and spec is not None and nm in spec.fresh:
                # a list that grows inside the loop: at the loop head it is an arbitrary list (length and elements
                # havocked, constrained by the invariant).  spec.fresh[nm] = ("list", "scalar", sort) |
                # ("list", "array", sort, shape)
                kd = spec.fresh[nm]
                c = state.cell(v)
                L = fresh_scalar("int", nm + "_len")
                state.assume(L >= 0)
                c["__list__"] = []
                c["__symlen__"] = L
                if kd[1] == "scalar":
                    f = z3.Function(fresh_name(nm + "_elem"), z3.IntSort(), z3sort(kd[2]))
                    c["__symelem__"] = lambda k, f=f: f(to_z3(k, "int"))
                    c["__kind__"] = "scalar"
                else:
                    shape = tuple(kd[3])
                    f = z3.Function(fresh_name(nm + "_elem"), *([z3.IntSort()] * (1 + len(shape))), z3sort(kd[2]))
                    c["__symelem__"] = lambda k, f=f, shape=shape, srt=kd[2]: Arr(shape, lambda *r: f(to_z3(k, "int"), *[to_z3(x, "int") for x in r]), srt)
                    c["__kind__"] = "array"
                    c["__uniform_shape__"] = shape
                c["__lens__"] = None
                state.ghost["__havoc_lists__"] = set(state.ghost.get("__havoc_lists__", ())) | {v.oid}
        for nm in sorted(inplace - rebound):
            if nm in state.env and isinstance(state.env[nm], Ref) and state.env[nm].kind == "arr":
                v = state.env[nm]
                state.set_arr(v, fresh_arr(state.arr(v).shape, state.arr(v).sort, nm))
        for path in sorted(p for p in (spec.modifies if spec else ()) if p.endswith("[*]")):
            # every entry of a concrete-key dict (e.g. the manager's current-state dictionary)
            parts = path[:-3].split(".")
            obj = state.env[parts[0]]
            for p_ in parts[1:]:
                obj = self.getattr_value(state, obj, p_)
            d = state.cell(obj)["__dict__"]
            for k_, v_ in list(d.items()):
                if v_ is not None and not isinstance(v_, (str, Opaque, Closure)):
                    d[k_] = self.havoc_value(state, v_, str(k_), spec)
            state.ghost.setdefault("__havoc_dicts__", set())
            state.ghost["__havoc_dicts__"] = set(state.ghost["__havoc_dicts__"]) | {obj.oid}
        for path in sorted(p for p in (attrs | set(spec.modifies if spec else ())) if not p.endswith("[*]")):
            parts = path.split(".")
            if parts[0] not in state.env:
                continue
            obj = state.env[parts[0]]
            try:
                for p in parts[1:-1]:
                    obj = self.getattr_value(state, obj, p)
                cur = self.getattr_value(state, obj, parts[-1])
            except (Unsupported, PyRaise):
                continue
            if isinstance(cur, Ref) and cur.kind == "arr":
                state.set_arr(cur, fresh_arr(state.arr(cur).shape, state.arr(cur).sort, parts[-1]))
            else:
                state.cell(obj)[parts[-1]] = self.havoc_value(state, cur, parts[-1], spec)

    def heap_snapshot(self, state):
        return {oid: dict(c) for oid, c in state.heap.items()}

    def frame_check(self, snap_head, state, body, spec, node):
        """Soundness of the loop rule: everything the body changed in the heap must have been havocked."""
        rebound, inplace, attrs = self.assigned_names(body)
        allowed_attr = {p.split(".")[-1] for p in (attrs | set(spec.modifies if spec else ()))}
        for oid, c in state.heap.items():
            old = snap_head.get(oid)
            if old is None:
                continue    # allocated inside the body
            for k, v in c.items():
                if k in old and old[k] is not v:
                    if k == "val":
                        continue   # array contents: covered through the owning variable/attribute below
                    if oid in state.ghost.get("__havoc_lists__", ()) and k.startswith("__"):
                        continue   # list grown by .append inside the loop: havocked at the head (spec.fresh)
                    if k in ("__list__", "__dict__"):
                        if oid in state.ghost.get("__havoc_dicts__", ()):
                            continue
                        if old[k] != v:
                            raise Unsupported(f"loop at line {node.lineno} mutates a container that the loop rule did not havoc")
                        continue
                    if k not in allowed_attr:
                        raise Unsupported(f"loop at line {node.lineno} modifies attribute '{k}' that is not in the loop's "
                                          f"modifies set (callee side effect): add it to LoopSpec.modifies")

    def _plain_rebound(self, body, name):
        for n in ast.walk(ast.Module(body=list(body), type_ignores=[])):
            if isinstance(n, ast.Assign):
                for t in n.targets:
                    for e in ast.walk(t):
                        if isinstance(e, ast.Name) and e.id == name and isinstance(e.ctx, ast.Store):
                            return True
        return False

    def loop_spec(self, node):
        key = self.cur[-1]
        fdef = self.find_function(*key) if key in self.loopspecs or True else None
        specs = self.loopspecs.get(key, {})
        # ordinal = index of this loop among loops of the function in source order
        loops = [n for n in ast.walk(self._cur_fdef(key)) if isinstance(n, (ast.While, ast.For))]
        loops.sort(key=lambda n: (n.lineno, n.col_offset))
        for i, n in enumerate(loops):
            if n.lineno == node.lineno and n.col_offset == node.col_offset:
                return specs.get(i), i
        return None, None

    def _cur_fdef(self, key):
        c = getattr(self, "_fdef_cache", None)
        if c is None:
            c = self._fdef_cache = {}
        if key not in c:
            mod, qn = key
            try:
                c[key] = self.find_function(mod, qn)
            except Unsupported:
                # inherited method: search MRO
                cls, name = qn.rsplit(".", 1)
                _, f = self.class_of_method(mod, cls, name)
                c[key] = f
        return c[key]

    @staticmethod
    def loop_carried(loop, fdef):
        """local names assigned in the loop body that carry a value from one pass to the next or out of the loop: read in the loop
        test, read in the body at a position before their first assignment there, or read after the loop."""
        stores, loads = {}, {}
        for n in ast.walk(ast.Module(body=list(loop.body), type_ignores=[])):
            if isinstance(n, ast.Name):
                pos = (n.lineno, n.col_offset)
                d = stores if isinstance(n.ctx, ast.Store) else loads
                if n.id not in d or pos < d[n.id]:
                    d[n.id] = pos
            elif isinstance(n, ast.AugAssign) and isinstance(n.target, ast.Name):
                loads.setdefault(n.target.id, (n.lineno, n.col_offset - 1))
        test_reads = {n.id for n in ast.walk(loop.test) if isinstance(n, ast.Name)} if isinstance(loop, ast.While) else set()
        after = set()
        end = getattr(loop, "end_lineno", loop.lineno)
        for n in ast.walk(fdef):
            if isinstance(n, ast.Name) and isinstance(n.ctx, ast.Load) and n.lineno > end:
                after.add(n.id)
        carried = set()
        for name, spos in stores.items():
            if name in test_reads or name in after or (name in loads and loads[name] < spos):
                carried.add(name)
        return carried

    def annotation_gap(self, spec, view, loop):
        """loop-carried locals the invariant never looked at (None when the annotation covers the loop)"""
        try:
            fdef = self._cur_fdef(self.cur[-1])
            carried = self.loop_carried(loop, fdef)
        except Exception:
            return None
        if isinstance(loop, ast.For):
            carried -= {n.id for n in ast.walk(loop.target) if isinstance(n, ast.Name)}
        covered = set(view.read) | set(getattr(spec, "covers", ()))
        if view.pre is not None:
            covered |= set(view.pre.read)
        # names reached through state.env directly in contract code cannot be tracked: treat `env[...]` users as covering everything
        if getattr(spec, "reads_env", False):
            return None
        gap = sorted(carried - covered)
        return gap or None

    def inv_check(self, spec, view, label, node):
        if spec.hints is not None and label.endswith("inv-preserved"):
            for (hl, prem, concl) in spec.hints(view):
                self.oblige(f"{label.rsplit('-inv-', 1)[0]}-hint:{hl}", view.state, prem, node)
                view.state.assume(concl)
        invs = spec.inv(view)
        if not isinstance(invs, (list, tuple)):
            invs = [invs]
        if isinstance(node, (ast.While, ast.For)):
            gap = self.annotation_gap(spec, view, node)
            if gap:
                self.annotation_gaps[(self.cur[-1], node.lineno)] = gap
        for j, g in enumerate(invs):
            self.oblige(f"{label}#{j}" if len(invs) > 1 else label, view.state, g, node)

    def inv_assume(self, spec, view):
        invs = spec.inv(view)
        if not isinstance(invs, (list, tuple)):
            invs = [invs]
        for g in invs:
            view.state.assume(g)

    def exec_while(self, s, state, module):
        spec, ordinal = self.loop_spec(s)
        if spec is None:
            raise Unsupported(f"while loop #{ordinal} at line {s.lineno} has no invariant")
        tag = spec.label or f"loop{ordinal}"
        pre = View(self, state.clone())
        self.inv_check(spec, View(self, state, pre=pre), f"{tag}-inv-entry", s)
        head = state.clone()
        self.havoc_loop(head, s.body, spec)
        self.inv_assume(spec, View(self, head, pre=pre))
        exits, others = [], []
        snap = self.heap_snapshot(head)

        def k(st, v):
            c = self.truth(v, st)
            res = []
            st_exit = st.clone()
            if c is not True:
                nc = z3.Not(c) if c is not False else True
                if nc is True or self.feasible(st_exit, nc):
                    st_exit.assume(nc)
                    exits.append(st_exit)
            if c is not False and (c is True or self.feasible(st, c)):
                st.assume(c)
                v0 = None
                if spec.variant is not None:
                    v0 = spec.variant(View(self, st, pre=pre))
                    self.terminating.add((self.cur[-1], ordinal, v0[0]))
                    if v0[0] == "int":
                        self.oblige(f"{tag}-variant-bounded-below", st, to_z3(v0[1], "int") >= 0, s,
                                    note="the integer variant is non-negative whenever the loop body is entered")
                for o in self.exec_block(s.body, st, module):
                    self.frame_check(snap, o.state, s.body, spec, s)
                    if o.kind in ("fall", "continue") and v0 is not None:
                        v1 = spec.variant(View(self, o.state, pre=pre))
                        if v0[0] == "int":
                            self.oblige(f"{tag}-variant-decreases", o.state, to_z3(v1[1], "int") <= to_z3(v0[1], "int") - 1, s,
                                        note="every path back to the loop head decreases the integer variant")
                        else:
                            g0, g1, tol = to_z3(v0[1], "real"), to_z3(v1[1], "real"), to_z3(v0[2], "real")
                            self.oblige(f"{tag}-variant-halves", o.state, z3.And(tol > 0, g0 >= tol, 2 * g1 <= g0), s,
                                        note="every path back to the loop head at least halves the gap, which is still >= tol > 0")
                    if o.kind in ("fall", "continue"):
                        self.inv_check(spec, View(self, o.state, pre=pre), f"{tag}-inv-preserved", s)
                    elif o.kind == "break":
                        exits.append(o.state)
                    else:
                        others.append(o)
            return res
        self.eval_forking(s.test, head, module, k)
        if s.orelse:
            raise Unsupported("while/else")
        return others + [Outcome("fall", e) for e in exits]

    def exec_for(self, s, state, module):
        def k(st, it):
            return self._exec_for(s, st, module, it)
        return self.eval_forking(s.iter, state, module, k)

    def _exec_for(self, s, state, module, it):
        # concrete iterables are unrolled
        items = None
        if isinstance(it, (list, tuple, frozenset, set, range)):
            items = sorted(it) if isinstance(it, (frozenset, set)) else list(it)
        elif isinstance(it, Ref) and it.kind == "list":
            if state.cell(it).get("__condapp__"):
                raise Unsupported("iteration over a list with conditional appends")
            items = list(state.cell(it)["__list__"])
        elif isinstance(it, Opaque) and it.tag == "dictitems":
            items = list(it.info["items"])
        if items is not None:
            frontier, done = [state], []
            for item in items:
                nxt = []
                for st in frontier:
                    self.assign(s.target, item, st, module)
                    for o in self.exec_block(s.body, st, module):
                        if o.kind in ("fall", "continue"):
                            nxt.append(o.state)
                        elif o.kind == "break":
                            done.append(Outcome("fall", o.state))
                        else:
                            done.append(o)
                frontier = nxt
            return done + [Outcome("fall", st) for st in frontier]
        # symbolic iteration: range(n) or array
        spec, ordinal = self.loop_spec(s)
        if spec is None:
            raise Unsupported(f"for loop #{ordinal} at line {s.lineno} has no invariant")
        tag = spec.label or f"loop{ordinal}"
        if isinstance(it, Opaque) and it.tag == "range":
            lo, n = it.info["lo"], it.info["hi"]
            elem = lambda kk: kk
        elif isinstance(it, Ref) and it.kind == "arr":
            a = state.arr(it)
            lo, n = 0, a.shape[0]
            elem = (lambda kk: a.at(kk)) if a.ndim == 1 else None
            if elem is None:
                raise Unsupported("iteration over n-d array")
        elif (isinstance(it, Opaque) and it.tag == "enumerate") or (isinstance(it, Ref) and it.kind == "list" and "__symlen__" in state.cell(it)):
            seq = it.info["seq"] if isinstance(it, Opaque) else it
            c = state.cell(seq)
            lo, n = 0, c["__symlen__"]
            sel = c["__symelem__"]
            with_index = isinstance(it, Opaque)

            def elem(kk, sel=sel, with_index=with_index):
                v = sel(kk)
                if isinstance(v, Arr):
                    v = None      # bound below on the body state (needs allocation)
                return (kk, v) if with_index else v
            state.ghost["__iter_seq__"] = (seq, with_index)
        else:
            raise Unsupported(f"for over {it!r}")
        lo_z, n_z = to_z3(lo, "int"), to_z3(n, "int")
        pre = View(self, state.clone())
        # entry: k = lo
        self.inv_check(spec, View(self, state, k=lo_z, pre=pre), f"{tag}-inv-entry", s)
        head = state.clone()
        names = [e.id for e in ast.walk(s.target) if isinstance(e, ast.Name)]
        self.havoc_loop(head, s.body, spec)
        kk = fresh_scalar("int", "k")
        head.assume(z3.And(kk >= lo_z, kk <= z3.If(n_z >= lo_z, n_z, lo_z)))
        self.inv_assume(spec, View(self, head, k=kk, pre=pre))
        # exit state: k == max(n, lo)
        ex = head.clone()
        ex.assume(kk == z3.If(n_z >= lo_z, n_z, lo_z))
        exits, others = [], []
        if self.feasible(ex):
            if isinstance(s.target, ast.Name) and isinstance(it, Opaque) and it.tag == "range":
                # after exhaustion the loop variable holds the last value (if the loop ran at all; otherwise it keeps its old binding)
                last = kk - 1
                old = state.env.get(s.target.id)
                if old is None or not (is_sym(old) or isinstance(old, int)):
                    ex.env[s.target.id] = last
                else:
                    ex.env[s.target.id] = z3.If(n_z > lo_z, last, to_z3(old, "int"))
            exits.append(ex)
        body_st = head
        body_st.assume(kk < n_z)
        if self.feasible(body_st):
            item = elem(kk)
            if "__iter_seq__" in state.ghost and ((isinstance(item, tuple) and item[1] is None) or item is None):
                seq, with_index = state.ghost["__iter_seq__"]
                ev = body_st.cell(seq)["__symelem__"](kk) if seq.oid in body_st.heap else state.cell(seq)["__symelem__"](kk)
                ref = body_st.new_arr(ev)
                body_st.ghost["__iter_elem__"] = (seq, kk, ref)
                item = (kk, ref) if with_index else ref
            self.assign(s.target, item, body_st, module)
            snap = self.heap_snapshot(body_st)
            for o in self.exec_block(s.body, body_st, module):
                self.frame_check(snap, o.state, s.body, spec, s)
                if o.kind in ("fall", "continue"):
                    self.inv_check(spec, View(self, o.state, k=kk + 1, pre=pre),
                                   f"{tag}-inv-preserved", s)
                elif o.kind == "break":
                    exits.append(o.state)
                else:
                    others.append(o)
        return others + [Outcome("fall", e) for e in exits]

    # ------------------------------------------------------------------ assignment
    def assign(self, target, value, state, module):
        if isinstance(target, ast.Name):
            state.env[target.id] = value
        elif isinstance(target, (ast.Tuple, ast.List)):
            if isinstance(value, Opt):
                # unpacking None raises TypeError: the value must be present
                self.oblige(f"unpacked-value-is-not-None@{target.lineno}", state, value.flag, target,
                            note="cannot unpack non-iterable NoneType object")
                state.assume(value.flag)
                value = value.value
            if isinstance(value, Ref) and value.kind == "list":
                value = tuple(state.cell(value)["__list__"])
            if isinstance(value, Ref) and value.kind == "arr":
                a = state.arr(value)
                if isinstance(a.shape[0], int):
                    value = tuple(a.at(i) if a.ndim == 1 else None for i in range(a.shape[0]))
            if not isinstance(value, tuple) or len(value) != len(target.elts):
                raise Unsupported(f"unpacking {value!r} at line {target.lineno}")
            for t, v in zip(target.elts, value):
                self.assign(t, v, state, module)
        elif isinstance(target, ast.Attribute):
            obj = self.eval(target.value, state, module)
            self.setattr_value(state, obj, target.attr, value, target)
        elif isinstance(target, ast.Subscript):
            base = self.eval(target.value, state, module)
            self.store_subscript(state, base, target.slice, value, module, target)
        else:
            raise Unsupported(f"assignment target {type(target).__name__}")

    def setattr_value(self, state, obj, attr, value, node=None):
        if isinstance(obj, Ref) and obj.kind == "obj":
            c = state.cell(obj)
            if c.get("__frozen__"):
                raise PyRaise("FrozenInstanceError", f"cannot assign to field '{attr}'")
            c[attr] = value
            return
        raise Unsupported(f"setattr on {obj!r}")

    def getattr_value(self, state, obj, attr, node=None):
        if isinstance(obj, Ref):
            if obj.kind == "obj":
                c = state.cell(obj)
                if attr in c:
                    return c[attr]
                cls = c.get("__class__")
                h = self.ext.get(("prop", cls, attr))
                if h:
                    return h(self, state, obj)
                return BoundMethod(obj, attr)
            if obj.kind == "arr":
                a = state.arr(obj)
                if attr == "shape":
                    return tuple(a.shape)
                if attr == "size":
                    n = a.shape[0]
                    for d in a.shape[1:]:
                        n = n * d
                    return n
                if attr == "ndim":
                    return a.ndim
                if attr == "T":
                    if a.ndim == 2:
                        return state.new_arr(Arr((a.shape[1], a.shape[0]), lambda i, j: a.at(j, i), a.sort))
                    return obj
                return BoundMethod(obj, attr)
            return BoundMethod(obj, attr)
        if isinstance(obj, ModuleV):
            dotted = obj.dotted + "." + attr
            dotted = dotted.replace("np.", "numpy.", 1) if dotted.startswith("np.") else dotted
            h = self.ext.get(("const", dotted))
            if h:
                return h(self, state)
            return ModuleV(dotted)
        if obj is None:
            raise PyRaise("AttributeError", f"'NoneType' object has no attribute '{attr}'")
        if isinstance(obj, (int, float)) or (is_sym(obj) and not isinstance(obj, Ref)):
            if attr in ("real",):
                return obj
            if attr in ("astype", "copy", "item") and (("method", "scalar", attr) in self.ext):
                return BoundMethod(obj, attr)     # numpy scalars (np.float64) have the array methods
            raise PyRaise("AttributeError", f"scalar has no attribute '{attr}'")
        if isinstance(obj, Opaque):
            h = self.ext.get(("opaque", obj.tag, attr))
            if h:
                return h(self, state, obj)
            return BoundMethod(obj, attr)
        if isinstance(obj, tuple) and len(obj) == 3 and obj[0] == "class" and obj[1] in self.mods:
            # class attribute (a constant assigned in the class body)
            tree = self.mods[obj[1]][0]
            for n in tree.body:
                if isinstance(n, ast.ClassDef) and n.name == obj[2]:
                    for b in n.body:
                        if isinstance(b, (ast.Assign, ast.AnnAssign)):
                            tg = b.targets[0] if isinstance(b, ast.Assign) else b.target
                            if isinstance(tg, ast.Name) and tg.id == attr and b.value is not None:
                                saved = state.env
                                state.env = {}
                                try:
                                    return self.eval(b.value, state, obj[1])
                                finally:
                                    state.env = saved
            return BoundMethod(obj, attr)
        if isinstance(obj, (str, tuple)):
            return BoundMethod(obj, attr)
        raise Unsupported(f"getattr {attr} on {obj!r}")

    # ------------------------------------------------------------------ expressions
    def eval_forking(self, expr, state, module, k):
        """Evaluate expr; calls to interpreted functions may fork into several outcomes."""
        self._forks = getattr(self, "_forks", [])
        try:
            v = self.eval(expr, state, module)
        except _Fork as f:
            res = []
            for o in f.outcomes:
                if o.kind == "raise":
                    res.append(o)
                else:
                    # re-evaluate the expression with the call's result substituted
                    o.state.ghost = dict(o.state.ghost)
                    memo = dict(getattr(o.state, "_memo", {}))
                    memo[f.key] = o.value
                    o.state._memo = memo
                    res += self.eval_forking(expr, o.state, module, k)
            return res
        if hasattr(state, "_memo"):
            state._memo = {}
        return k(state, v)

    def eval(self, e, state, module):
        m = getattr(self, "_ev_" + type(e).__name__, None)
        if m is None:
            raise Unsupported(f"expression {type(e).__name__} at line {getattr(e, 'lineno', '?')}")
        return m(e, state, module)

    def _ev_Constant(self, e, st, mod):
        return e.value

    def _ev_Name(self, e, st, mod):
        if e.id in st.env:
            return self.resolve_static(st.env[e.id], st, mod)
        menv = self.module_env(mod)
        if e.id in menv:
            return self.resolve_static(menv[e.id], st, mod)
        if e.id in ("True", "False", "None"):
            return {"True": True, "False": False, "None": None}[e.id]
        return Opaque("builtin", name=e.id)

    def resolve_static(self, v, st, mod):
        if isinstance(v, tuple) and v and isinstance(v[0], str) and v[0] == "const":
            saved = st.env
            st.env = {}
            try:
                return self.eval(v[2], st, v[1])
            finally:
                st.env = saved
        if isinstance(v, tuple) and v and isinstance(v[0], str) and v[0] == "from":
            src, name = v[1], v[2]
            if src in self.mods:
                menv = self.module_env(src)
                if name in menv:
                    return self.resolve_static(menv[name], st, src)
            return ModuleV(src + "." + name)
        return v

    def _ev_Attribute(self, e, st, mod):
        obj = self.eval(e.value, st, mod)
        return self.getattr_value(st, obj, e.attr, e)

    def _ev_Tuple(self, e, st, mod):
        return tuple(self.eval(x, st, mod) for x in e.elts)

    def _ev_List(self, e, st, mod):
        return st.new_list([self.eval(x, st, mod) for x in e.elts])

    def _ev_Dict(self, e, st, mod):
        d = {}
        for k, v in zip(e.keys, e.values):
            if k is None:
                src = self.eval(v, st, mod)
                d.update(st.cell(src)["__dict__"])
            else:
                kk = self.eval(k, st, mod)
                if not is_conc(kk):
                    raise Unsupported("symbolic dict key")
                d[kk] = self.eval(v, st, mod)
        return st.new_dict(d)

    def _ev_Set(self, e, st, mod):
        vals = [self.eval(x, st, mod) for x in e.elts]
        if all(is_conc(v) for v in vals):
            return frozenset(vals)
        raise Unsupported("symbolic set literal")

    def _ev_JoinedStr(self, e, st, mod):
        return "<fstring>"

    def _ev_UnaryOp(self, e, st, mod):
        v = self.eval(e.operand, st, mod)
        if isinstance(e.op, ast.Not):
            t = self.truth(v, st)
            return (not t) if isinstance(t, bool) else z3.Not(t)
        if isinstance(e.op, ast.USub):
            if isinstance(v, Opaque) and v.tag == "inf":
                return Opaque("inf", sign=-v.info["sign"])
            if isinstance(v, Ref):
                a = st.arr(v)
                return st.new_arr(Arr(a.shape, lambda *i: -a.at(*i), a.sort, prov=("scale", -1, a)))
            return -v
        if isinstance(e.op, ast.UAdd):
            return v
        if isinstance(e.op, ast.Invert):
            if isinstance(v, Ref):
                a = st.arr(v)
                if a.sort != "bool":
                    raise Unsupported("~ on non-bool array")
                return st.new_arr(Arr(a.shape, lambda *i: z3.Not(a.at(*i)), "bool"))
            t = self.truth(v, st)
            return (not t) if isinstance(t, bool) else z3.Not(t)
        raise Unsupported("unary op")

    def _ev_BoolOp(self, e, st, mod):
        is_and = isinstance(e.op, ast.And)
        acc = None
        saved_pc_len = len(st.pc)
        try:
            for i, x in enumerate(e.values):
                v = self.eval(x, st, mod)
                if i == len(e.values) - 1 and acc is None:
                    return v
                t = self.truth(v, st) if (is_sym(v) or isinstance(v, bool) or acc is not None
                                          or i < len(e.values) - 1) else v
                if isinstance(t, bool):
                    if is_and and not t:
                        return v if acc is None else False
                    if not is_and and t:
                        return v if acc is None else True
                    continue
                acc = t if acc is None else (z3.And(acc, t) if is_and else z3.Or(acc, t))
                # later operands are only evaluated when the earlier ones allow it
                st.pc.append(t if is_and else z3.Not(t))
        finally:
            del st.pc[saved_pc_len:]
        if acc is None:
            return True if is_and else False
        return acc

    def _ev_Compare(self, e, st, mod):
        left = self.eval(e.left, st, mod)
        acc = None
        for op, rx in zip(e.ops, e.comparators):
            right = self.eval(rx, st, mod)
            c = self.compare(op, left, right, st, e)
            if isinstance(c, bool):
                if not c:
                    return False
            elif isinstance(c, Ref):
                if len(e.ops) != 1:
                    raise Unsupported("chained array comparison")
                return c
            else:
                acc = c if acc is None else z3.And(acc, c)
            left = right
        return True if acc is None else acc

    def _ev_IfExp(self, e, st, mod):
        c = self.truth(self.eval(e.test, st, mod), st)
        if c is True:
            return self.eval(e.body, st, mod)
        if c is False:
            return self.eval(e.orelse, st, mod)
        n = len(st.pc)
        st.pc.append(c)
        a = self.eval(e.body, st, mod)
        st.pc[n] = z3.Not(c)
        b = self.eval(e.orelse, st, mod)
        del st.pc[n:]
        return self.ite(c, a, b, st)

    def ite(self, c, a, b, st):
        if a is b:
            return a
        if isinstance(a, tuple) and isinstance(b, tuple) and len(a) == len(b):
            return tuple(self.ite(c, x, y, st) for x, y in zip(a, b))
        if isinstance(a, Ref) and isinstance(b, Ref) and a.kind == b.kind == "arr":
            A, B = st.arr(a), st.arr(b)
            if len(A.shape) != len(B.shape):
                raise Unsupported("ite of arrays of different rank")
            shape = tuple(x if (x is y) else z3.If(c, to_z3(x, "int"), to_z3(y, "int"))
                          for x, y in zip(A.shape, B.shape))
            return st.new_arr(Arr(shape, lambda *i: z3.If(c, to_z3(A.at(*i)), to_z3(B.at(*i))), A.sort))
        if (is_sym(a) or is_conc(a)) and (is_sym(b) or is_conc(b)) and a is not None and b is not None \
                and not isinstance(a, str) and not isinstance(b, str):
            want = "real" if (is_real_like(a) or is_real_like(b)) else None
            return z3.If(c, to_z3(a, want), to_z3(b, want))
        raise Unsupported(f"conditional expression merging {a!r} / {b!r}")

    def _ev_BinOp(self, e, st, mod):
        l = self.eval(e.left, st, mod)
        r = self.eval(e.right, st, mod)
        hook = getattr(self, "value_hook", None)
        if hook is not None and isinstance(e.op, (ast.Div, ast.FloorDiv, ast.Mod)):
            hook(st, e.right, r, "denominator")
        v = self.binop(e.op, l, r, st, e)
        if hook is not None:
            hook(st, e, v, "value")
        return v

    def _ev_Subscript(self, e, st, mod):
        base = self.eval(e.value, st, mod)
        return self.load_subscript(st, base, e.slice, mod, e)

    def _ev_Lambda(self, e, st, mod):
        f = ast.FunctionDef(name="<lambda>", args=e.args, body=[ast.Return(value=e.body, lineno=e.lineno, col_offset=0)],
                            decorator_list=[], lineno=e.lineno, col_offset=e.col_offset)
        return Closure(f, dict(st.env), mod)

    def _ev_ListComp(self, e, st, mod):
        return self.ext["__listcomp__"](self, st, e, mod)

    def _ev_GeneratorExp(self, e, st, mod):
        return self.ext["__listcomp__"](self, st, e, mod)

    def _ev_DictComp(self, e, st, mod):
        return self.ext["__dictcomp__"](self, st, e, mod)

    def _ev_Starred(self, e, st, mod):
        raise Unsupported("starred expression")

    def _ev_Call(self, e, st, mod):
        key = (e.lineno, e.col_offset, e.end_lineno, e.end_col_offset)
        memo = getattr(st, "_memo", None)
        if memo and key in memo:
            return memo[key]
        fn = self.eval(e.func, st, mod)
        args = []
        for a in e.args:
            if isinstance(a, ast.Starred):
                v = self.eval(a.value, st, mod)
                if isinstance(v, Ref) and v.kind == "list":
                    v = tuple(st.cell(v)["__list__"])
                if not isinstance(v, tuple):
                    raise Unsupported("*args of non-tuple")
                args += list(v)
            else:
                args.append(self.eval(a, st, mod))
        kwargs = {}
        for kw in e.keywords:
            if kw.arg is None:
                d = self.eval(kw.value, st, mod)
                kwargs.update(st.cell(d)["__dict__"])
            else:
                kwargs[kw.arg] = self.eval(kw.value, st, mod)
        r = self.call_value(fn, args, kwargs, st, mod, e)
        if isinstance(r, _Outcomes):
            outs = r.outs
            if len(outs) == 1 and outs[0].kind == "return":
                # single path: continue in place
                self._adopt(st, outs[0].state)
                return outs[0].value
            raise _Fork(key, outs)
        hook = getattr(self, "value_hook", None)
        if hook is not None:
            hook(st, e, r, "value")
        return r

    def _adopt(self, st, other):
        if other is st:
            return
        st.env = other.env if other.env is not None else st.env
        st.heap = other.heap
        st.pc = other.pc
        st.ghost = other.ghost
        st.trace = other.trace

    # ------------------------------------------------------------------ calls
    def call_value(self, fn, args, kwargs, st, mod, node):
        if isinstance(fn, Closure):
            outs = self.call_function(fn.module, self.cur[-1][1] + ".<locals>." + fn.fdef.name, st,
                                      args, kwargs, fdef=fn.fdef, closure_env=fn.env) \
                if False else self._call_closure(fn, args, kwargs, st)
            return _Outcomes(outs)
        if isinstance(fn, tuple) and fn and isinstance(fn[0], str) and fn[0] == "func":
            return self.call_named(fn[1], fn[2], None, args, kwargs, st, node)
        if isinstance(fn, tuple) and fn and isinstance(fn[0], str) and fn[0] == "class":
            h = self.reg.get((fn[1], fn[2] + ".__new__"))
            if h is None and fn[1] in self.mods and len(self.cur) < 7:
                # a class of the package without a registered constructor contract: a new object whose real __init__ runs inline
                h = self.ext["__instantiate__"](fn[1], fn[2])
            if h is None:
                raise Unsupported(f"constructor {fn[1]}.{fn[2]} has no contract")
            return h(self, st, args, kwargs, node)
        if isinstance(fn, ModuleV):
            h = self.ext.get(fn.dotted)
            if h is None:
                raise Unsupported(f"external {fn.dotted} has no assumed contract (line {node.lineno})")
            return h(self, st, args, kwargs, node)
        if isinstance(fn, Opaque) and fn.tag == "builtin":
            h = self.ext.get("builtins." + fn.info["name"])
            if h is None:
                raise Unsupported(f"builtin {fn.info['name']} (line {node.lineno})")
            return h(self, st, args, kwargs, node)
        if isinstance(fn, BoundMethod):
            return self.call_method(fn.recv, fn.name, args, kwargs, st, node)
        if isinstance(fn, Opaque) and fn.tag == "callable":
            h = fn.info.get("handler")
            if h:
                return h(self, st, args, kwargs, node)
        raise Unsupported(f"call of {fn!r} at line {node.lineno}")

    def _call_closure(self, fn, args, kwargs, st):
        key = (fn.module, self.cur[-1][1] if self.cur else "?")
        # closures run in the verification context of the enclosing function
        fdef = fn.fdef
        saved = st.env
        # free variables resolve in the enclosing function's scope *at call time* (a closure sees later assignments of its
        # defining scope): the caller's current bindings are the fallback for names not captured at definition time
        env = dict(saved)
        env.update(fn.env)
        params = [a.arg for a in fdef.args.args]
        if len(args) > len(params):
            raise Unsupported("closure args")
        for i, p in enumerate(params):
            if i < len(args):
                env[p] = args[i]
            elif p in kwargs:
                env[p] = kwargs[p]
            else:
                di = i - (len(params) - len(fdef.args.defaults))
                if di < 0:
                    raise Unsupported(f"closure missing arg {p}")
                env[p] = self.eval(fdef.args.defaults[di], st, fn.module)
        st.env = env
        outs = self.exec_block(fdef.body, st, fn.module)
        res = []
        for o in outs:
            if o.kind == "fall":
                o = Outcome("return", o.state, None)
            o.state.env = saved if len(outs) == 1 else dict(saved)
            res.append(o)
        return res

    def call_named(self, module, qualname, self_val, args, kwargs, st, node):
        h = self.reg.get((module, qualname))
        if h is None and module in self.mods and len(self.cur) < 7:
            try:
                self.find_function(module, qualname)
                h = "inline"        # a helper without a contract of its own is executed as part of its caller (the real code)
            except Unsupported:
                h = None
        if h is None:
            raise Unsupported(f"call to {module}.{qualname} which has neither contract nor inline mark "
                              f"(line {getattr(node, 'lineno', '?')})")
        if h == "inline":
            self.inlined.add((module, qualname))
            fdef = None
            if self_val is not None:
                cls, name = qualname.rsplit(".", 1)
                _, fdef = self.class_of_method(module, cls, name)
            return _Outcomes(self.call_function(module, qualname, st, args, kwargs,
                                                self_val=self_val, fdef=fdef))
        return h(self, st, ([self_val] if self_val is not None else []) + list(args), kwargs, node)

    def call_method(self, recv, name, args, kwargs, st, node):
        if isinstance(recv, Ref) and recv.kind == "obj":
            cls = st.cls(recv)
            modname = st.cell(recv).get("__module__")
            # resolve through MRO to the defining class
            if modname in self.mods:
                dcls, fdef = self.class_of_method(modname, cls, name)
                if dcls is not None:
                    # most specific registration wins: (module, Class.method) for runtime class, then defining class
                    for c in (cls, dcls):
                        if (modname, f"{c}.{name}") in self.reg:
                            h = self.reg[(modname, f"{c}.{name}")]
                            if h == "inline":
                                self.inlined.add((modname, f"{dcls}.{name}"))
                                return _Outcomes(self.call_function(modname, f"{dcls}.{name}", st, args,
                                                                    kwargs, self_val=recv, fdef=fdef))
                            return h(self, st, [recv] + list(args), kwargs, node)
                    if len(self.cur) < 7:
                        self.inlined.add((modname, f"{dcls}.{name}"))
                        decos = {ast.unparse(d) for d in fdef.decorator_list}
                        if "staticmethod" in decos:        # obj.static(...): no receiver is passed
                            return _Outcomes(self.call_function(modname, f"{dcls}.{name}", st, list(args), kwargs, fdef=fdef))
                        if "classmethod" in decos:
                            return _Outcomes(self.call_function(modname, f"{dcls}.{name}", st, [("class", modname, cls)] + list(args), kwargs, fdef=fdef))
                        return _Outcomes(self.call_function(modname, f"{dcls}.{name}", st, args, kwargs, self_val=recv, fdef=fdef))
                    raise Unsupported(f"method {modname}.{cls}.{name} has neither contract nor inline mark "
                                      f"(line {getattr(node, 'lineno', '?')})")
            h = self.ext.get(("method", cls, name))
            if h:
                return h(self, st, [recv] + list(args), kwargs, node)
            raise Unsupported(f"method {cls}.{name} on abstract object (line {getattr(node, 'lineno', '?')})")
        kind = recv.kind if isinstance(recv, Ref) else type(recv).__name__
        if isinstance(recv, tuple) and len(recv) == 3 and recv[0] == "class" and recv[1] in self.mods \
                and ("method", "tuple", name) not in self.ext and len(self.cur) < 7:
            dcls, fdef = self.class_of_method(recv[1], recv[2], name)
            if fdef is not None:
                h = self.reg.get((recv[1], f"{dcls}.{name}"))
                if h is not None and h != "inline":
                    return h(self, st, [recv] + list(args), kwargs, node)
                decos = {ast.unparse(d) for d in fdef.decorator_list}
                self.inlined.add((recv[1], f"{dcls}.{name}"))
                if "staticmethod" in decos:
                    return _Outcomes(self.call_function(recv[1], f"{dcls}.{name}", st, list(args), kwargs, fdef=fdef))
                if "classmethod" in decos:
                    return _Outcomes(self.call_function(recv[1], f"{dcls}.{name}", st, [recv] + list(args), kwargs, fdef=fdef))
        if isinstance(recv, Opaque) and recv.tag == "super":
            tree = self.mods[recv.info["module"]][0]
            classes = {n.name: n for n in tree.body if isinstance(n, ast.ClassDef)}
            bases = [b.id for b in classes[recv.info["cls"]].bases if isinstance(b, ast.Name)]
            if not bases or bases[0] not in classes:
                if name == "__init__":
                    return None        # object.__init__
                raise Unsupported(f"super().{name} outside the module")
            dcls, fdef = self.class_of_method(recv.info["module"], bases[0], name)
            if fdef is None:
                if name == "__init__":
                    return None
                raise Unsupported(f"super().{name} not found")
            self.inlined.add((recv.info["module"], f"{dcls}.{name}"))
            return _Outcomes(self.call_function(recv.info["module"], f"{dcls}.{name}", st, args, kwargs,
                                                self_val=recv.info["obj"], fdef=fdef))
        if isinstance(recv, Opaque):
            kind = "opaque:" + recv.tag
        if (is_sym(recv) and not isinstance(recv, Ref)) or isinstance(recv, (int, float)) and not isinstance(recv, bool):
            kind = "scalar"
        h = self.ext.get(("method", kind, name))
        if h is None:
            raise Unsupported(f"method .{name} on {kind} (line {getattr(node, 'lineno', '?')})")
        return h(self, st, [recv] + list(args), kwargs, node)

    # ------------------------------------------------------------------ operators
    def truth(self, v, st):
        if isinstance(v, bool):
            return v
        if v is None:
            return False
        if isinstance(v, (int, float)):
            return v != 0
        if isinstance(v, str):
            return len(v) > 0
        if isinstance(v, (tuple, frozenset)):
            return len(v) > 0
        if is_sym(v):
            if z3.is_bool(v):
                s = z3.simplify(v)
                if z3.is_true(s):
                    return True
                if z3.is_false(s):
                    return False
                return v
            if z3.is_int(v) or z3.is_real(v):
                return v != 0
        if isinstance(v, Ref):
            if v.kind == "list":
                c = st.cell(v)
                if "__symlen__" in c:
                    n = c["__symlen__"]
                    return (n > 0) if isinstance(n, int) else (to_z3(n, "int") > 0)
                if c.get("__condapp__") and not c["__list__"]:
                    return z3.Or(*[to_z3(x) for x in c["__condapp__"]])
                return len(c["__list__"]) > 0
            if v.kind == "dict":
                return len(st.cell(v)["__dict__"]) > 0
            if v.kind == "set":
                c = st.cell(v)
                if "__set__" in c:
                    return len(c["__set__"]) > 0
                j = z3.Int(fresh_name("j"))
                return z3.Exists([j], c["__mem__"](j))
            if v.kind == "obj":
                return True
            if v.kind == "arr":
                a = st.arr(v)
                if a.ndim == 0:
                    return self.truth(a.at(), st)
                raise PyRaise("ValueError", "truth value of an array is ambiguous")
        if isinstance(v, (Opaque, Closure)):
            return True
        if isinstance(v, Opt):
            return v.flag
        raise Unsupported(f"truth value of {v!r}")

    def binop(self, op, l, r, st, node):
        h = self.ext["__binop__"]
        return h(self, st, op, l, r, node)

    def compare(self, op, l, r, st, node):
        h = self.ext["__compare__"]
        return h(self, st, op, l, r, node)

    def load_subscript(self, st, base, sl, mod, node):
        return self.ext["__getitem__"](self, st, base, sl, mod, node)

    def store_subscript(self, st, base, sl, value, mod, node):
        return self.ext["__setitem__"](self, st, base, sl, value, mod, node)


class _Outcomes:
    def __init__(self, outs):
        self.outs = outs


class _Fork(Exception):
    def __init__(self, key, outcomes):
        self.key = key
        self.outcomes = outcomes
