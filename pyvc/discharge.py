"""Discharging obligations: z3 first, cvc5 (via SMT-LIB text) on z3 `unknown`."""
import os
import subprocess
import tempfile
import time
import z3

from .theories import real


def _solver(timeout_ms):
    s = z3.Solver()
    s.set("timeout", int(timeout_ms))
    return s


def check_formulas(fs, timeout_ms=20000, use_cvc5=True, want_model=True):
    """fs: list of z3 Bool whose conjunction should be UNSAT. Returns (status, model|None, backend, secs)."""
    t0 = time.time()
    fs = list(fs)
    # first without the instantiated T-REAL axioms: they only add hypotheses, so `unsat` here is already a proof, and many
    # obligations (index arithmetic, congruence) are decided much more robustly without them
    if not _mentions_real_symbols(fs):
        s0 = _solver(min(int(timeout_ms), 15000))
        s0.add(*fs)
        if s0.check() == z3.unsat:
            return "discharged", None, "z3", time.time() - t0
    ax = real.axioms_for(fs)
    # second round: axioms may introduce new exp/log terms (exp(x), exp(y) from exp(x+y))
    ax1b = real.axioms_for(fs + ax)
    ax = ax + ax1b
    ax2 = real.axioms_for(fs + ax, sumsplit=False)
    allf = fs + ax + [a for a in ax2 if not any(a.eq(b) for b in ax[:0])]
    s = _solver(timeout_ms)
    s.add(*allf)
    r = s.check()
    if r == z3.unsat:
        return "discharged", None, "z3", time.time() - t0
    if r == z3.sat:
        m = s.model() if want_model else None
        return "violated", m, "z3", time.time() - t0
    # unknown: retry with different tactic, then cvc5
    s2 = z3.SolverFor("AUFNIRA") if False else None
    if use_cvc5 and os.path.exists("/usr/bin/cvc5"):
        try:
            smt = s.to_smt2()
            with tempfile.NamedTemporaryFile("w", suffix=".smt2", delete=False) as f:
                f.write(smt)
                path = f.name
            out = subprocess.run(["/usr/bin/cvc5", "--tlimit=%d" % int(timeout_ms), path],
                                 capture_output=True, text=True, timeout=timeout_ms / 1000 + 5)
            os.unlink(path)
            first = out.stdout.strip().splitlines()[0] if out.stdout.strip() else ""
            if first == "unsat":
                return "discharged", None, "cvc5", time.time() - t0
            if first == "sat":
                return "violated", None, "cvc5", time.time() - t0
        except Exception:
            pass
    return "unknown", None, "z3", time.time() - t0


def _mentions_real_symbols(fs):
    todo, seen = list(fs), set()
    while todo:
        t = todo.pop()
        if t.get_id() in seen:
            continue
        seen.add(t.get_id())
        if z3.is_quantifier(t):
            todo.append(t.body())
        elif z3.is_app(t):
            if any(t.decl().eq(d) for d in (real.EXP, real.LOG, real.SQRT, real.POW)):
                return True
            todo.extend(t.children())
    return False


def is_definitive(fs):
    """A `sat` answer is taken as a genuine counterexample unless the formulas mention the T-REAL symbols that are only
    axiomatised by instantiation on ground terms (exp, log, sqrt, pow): there `sat` may just mean a missing lemma instance.
    With quantified hypotheses z3 answers `sat` only after model-based quantifier instantiation has checked the model against
    every quantifier (otherwise it answers `unknown`), so quantifiers alone do not make a model spurious."""
    return not _mentions_real_symbols(fs)


def discharge(ob, timeout_ms=20000, split_first=False):
    fs = ob.formula()
    g = ob.goal
    split_first = split_first and z3.is_expr(g) and z3.is_and(g) and g.num_args() > 1 and any(z3.is_quantifier(c) for c in g.children())
    if split_first:
        st, model, backend, secs = "unknown", None, "z3", 0.0
    else:
        st, model, backend, secs = check_formulas(fs, timeout_ms)
    if st == "unknown" and z3.is_expr(g) and z3.is_and(g) and g.num_args() > 1:
        # a conjunction is proved conjunct by conjunct (same hypotheses): smaller queries, same meaning
        st, model, backend = "discharged", None, "z3"
        for c in g.children():
            st_c, model_c, backend_c, secs_c = check_formulas(list(ob.pc) + [z3.Not(c)], timeout_ms)
            secs += secs_c
            if backend_c == "cvc5":
                backend = "cvc5"
            if st_c != "discharged":
                st, model = st_c, model_c
                fs = list(ob.pc) + [z3.Not(c)]
                if st_c == "violated":
                    break
    ob.status, ob.model, ob.backend, ob.time = st, model, backend, secs
    ob.definitive = (st != "violated") or is_definitive(fs) or getattr(ob, "concrete", False)
    return ob


def model_to_dict(m, limit=60):
    if m is None:
        return None
    out = {}
    for d in m.decls()[:limit]:
        try:
            out[d.name()] = str(m[d])[:200]
        except Exception:
            pass
    return out
