"""Property-level driver API used by /verif/contracts/cXX.py."""
import time
import traceback
import z3

from . import loader, npmodel, discharge, symlist  # noqa: F401
from .interp import Interp, LoopSpec, View
from .state import State
from .values import Unsupported, PyRaise

GLOBAL_ASSUMPTIONS = {
    "A1": "floats are mathematical reals (except obligations tagged T-FP64)",
    "A2": "numpy/scipy primitives behave as pyvc/npmodel.py and contracts/* externals say",
    "A3": "user callables (prior_transform, log_likelihood) are pure, total, deterministic",
    "A4": "Python subset semantics of DESIGN 1.2 (ints unbounded, exceptions as abnormal exits, sorted iteration of constant frozensets)",
    "A5": "RNG primitives have their documented ranges and laws",
    "A6": "POSIX rename/os.replace is atomic; fsync is durable",
    "A7": "z3/cvc5/Lean kernels trusted; partial correctness only (no termination); pool.map returns results in input order",
}


class ObResult:
    def __init__(self, oid, status, backend="z3", secs=0.0, instances=1, detail="", model=None,
                 line=None, kind="vc", witness=None):
        self.id = oid
        self.status = status        # discharged | violated | unknown | error
        self.backend = backend
        self.secs = secs
        self.instances = instances
        self.detail = detail
        self.model = model
        self.line = line
        self.kind = kind            # vc | effect | ownership | lemma | fp64 | bounded
        self.witness = witness      # concrete replayable input, if any
        self.replayer = None        # native runtime-contract search for the function under contract
        self.replayed = None
        self.definitive = True      # False: solver said sat over incomplete (axiomatised/quantified) theories

    def to_json(self):
        d = {"id": self.id, "status": self.status, "backend": self.backend, "secs": round(self.secs, 3),
             "instances": self.instances, "kind": self.kind}
        if self.detail:
            d["detail"] = self.detail[:600]
        if self.line:
            d["line"] = self.line
        if self.model:
            d["model"] = self.model
        if self.witness is not None:
            d["witness"] = self.witness
        return d


class Ctx:
    def __init__(self, prop, tier="quick", seed=0):
        self.prop = prop
        self.tier = tier
        self.seed = seed
        self.mods = loader.load()
        self.results = []
        self.functions = []          # functions under contract (evidence)
        self.trusted = set()
        self.undecided_clauses = []
        self.bounded = []
        self.notes = []
        self.seen_fingerprints = {}
        self.weak_ids = set()    # id substrings of obligations that are contracts on *helpers* (implementation level): when one fails
        #                          and the property-level native contract finds no failing input, the verdict is undecided
        self.covers = 0
        self.canaries = 0
        self.timeout_ms = 30000 if tier == "quick" else 120000
        self.solver_secs = 0.0

    # ------------------------------------------------------------------
    def add(self, res):
        self.results.append(res)
        self.solver_secs += res.secs
        return res

    def parallel(self, thunks, procs=None):
        """Run independent groups of obligations in forked worker processes (the z3 terms are inherited by
        fork; results come back as plain data).  thunk(ctx) appends its results to ctx as usual."""
        import multiprocessing as mp
        import os
        global _PAR
        procs = procs or int(os.environ.get("VERIF_PROCS", "0") or 0) or min(16, os.cpu_count() or 4)
        if len(thunks) <= 1 or procs <= 1 or os.environ.get("VERIF_SERIAL"):
            for t in thunks:
                t(self)
            return
        _PAR = (self, thunks)
        with mp.get_context("fork").Pool(min(procs, len(thunks))) as pool:
            deltas = pool.map(_par_run, range(len(thunks)), chunksize=1)
        for d in deltas:
            for r in d["results"]:
                self.results.append(r)
            self.solver_secs += d["solver_secs"]
            for f in d["functions"]:
                if not any(g["qualname"] == f["qualname"] and g["role"] == f["role"] for g in self.functions):
                    self.functions.append(f)
            self.trusted |= d["trusted"]
            self.undecided_clauses += d["undecided_clauses"]
            self.bounded += d["bounded"]
            self.notes += d["notes"]
            self.seen_fingerprints.update(d.get("fps", {}))
            self.covers += d["covers"]
            self.canaries += d["canaries"]

    def fuc(self, module, qualname, role="verified"):
        info = loader.func_info(self.mods, module, qualname)
        if info is None:
            self.add(ObResult(f"{self.prop}/{module}.{qualname}/exists", "error",
                              detail="function under contract not found in the repository source", kind="vc"))
            return None
        info["role"] = role
        if not any(f["qualname"] == info["qualname"] and f["role"] == role for f in self.functions):
            self.functions.append(info)
        return info

    def trust(self, *names):
        for n in names:
            self.trusted.add(n)

    def interp(self, registry=None, extras=None):
        ext = dict(npmodel.EXT)
        if extras:
            ext.update(extras)
        I = Interp(self.mods, ext, dict(registry or {}))
        return I

    @staticmethod
    def _with_replayer(r, replayer):
        if replayer and not getattr(r, "replayer", None):
            r.replayer = replayer
        return r

    def verify(self, *a, **kw):
        res = self._verify(*a, **kw)
        rp = kw.get('replayer')
        for r in res:
            r.replayer = rp
        return res

    def _verify(self, name, module, qualname, setup, post=None, loops=None, registry=None, extras=None,
               allowed_raises=(), raises_post=None, check_div=False, prefix=None, on_interp=None,
               expect_paths=1, witness=None, replayer=None):
        """Symbolically execute module.qualname under the contract and discharge its obligations.

        setup(I, st) -> dict(self_val=..., args=[...], kwargs={...})   (assumes `requires` on st)
        post(I, outcome, pre_state) -> list[(label, goal)]            (the `ensures`)
        allowed_raises: exception names the contract permits (everything else must be unreachable)
        """
        prefix = prefix or f"{self.prop}/{module.split('.')[-1]}.{qualname}"
        t0 = time.time()
        info = self.fuc(module, qualname)
        if info is None:
            return []
        I = self.interp(registry, extras)
        I.check_div = check_div
        if loops:
            I.loopspecs[(module, qualname)] = loops
        if on_interp:
            on_interp(I)
        st = State()
        try:
            call = setup(I, st)
            # cover: the precondition must be satisfiable (vacuity guard)
            s = z3.Solver()
            s.set("timeout", 5000)
            s.add(*st.pc)
            if s.check() == z3.unsat:
                return [self.add(ObResult(f"{prefix}/{name}/requires-satisfiable", "error",
                                          detail="contradictory precondition (vacuous contract)"))]
            self.covers += 1
            pre = st.clone()
            fdef = None
            if call.get("self_val") is not None and "." in qualname:
                cls, meth = qualname.rsplit(".", 1)
                _, fdef = I.class_of_method(module, cls, meth)
            outs = I.call_function(module, qualname, st, call.get("args", []), call.get("kwargs", {}),
                                   self_val=call.get("self_val"), fdef=fdef)
            n_ret = 0
            for o in outs:
                if o.kind == "return":
                    n_ret += 1
                    if post:
                        I.cur.append((module, qualname))
                        for step in post(I, o, pre):
                            I.oblige(step[0], o.state, step[1], structural=True)
                            if len(step) > 2 and step[2] is not None:
                                o.state.assume(step[2])   # proof step: proved above, used below
                        I.cur.pop()
                elif o.kind == "raise":
                    exc = o.value[0]
                    if exc in allowed_raises or exc.split(".")[-1] in allowed_raises:
                        if raises_post:
                            I.cur.append((module, qualname))
                            for lab, goal in raises_post(I, o, pre):
                                I.oblige(lab, o.state, goal)
                            I.cur.pop()
                        continue
                    I.cur.append((module, qualname))
                    I.oblige(f"no-raise:{exc}@{o.value[2]}", o.state, False,
                             note=f"{exc}: {o.value[1]}")
                    I.cur.pop()
            # canary: some return path must be feasible
            feasible = False
            for o in outs:
                if o.kind == "return":
                    s = z3.Solver()
                    s.set("timeout", 5000)
                    s.add(*o.state.pc)
                    if s.check() != z3.unsat:
                        feasible = True
                        break
            if post and not feasible and not allowed_raises:
                return [self.add(ObResult(f"{prefix}/{name}/reachable-return", "error",
                                          detail="no feasible returning path: contract would hold vacuously"))]
            if feasible:
                self.canaries += 1
        except Unsupported as e:
            return [self._with_replayer(self.add(ObResult(f"{prefix}/{name}/vc-generation", "unknown",
                                      detail=f"outside the supported subset: {e}")), replayer)]
        except PyRaise as e:
            return [self._with_replayer(self.add(ObResult(f"{prefix}/{name}/vc-generation", "unknown",
                                      detail=f"uncaught {e.exc} during setup: {e.msg}")), replayer)]
        except (AttributeError, TypeError, KeyError, IndexError, ValueError, z3.Z3Exception) as e:
            # a construct the transfer functions do not anticipate: undecided (the native layer still gets its turn), never a pass
            import os
            if os.environ.get("VERIF_DEBUG"):
                traceback.print_exc()
            return [self._with_replayer(self.add(ObResult(f"{prefix}/{name}/vc-generation", "unknown",
                                      detail=f"outside the supported subset (engine: {type(e).__name__}: {str(e)[:200]})")), replayer)]
        for ((m_, q_), ordinal, kind) in sorted(I.terminating, key=str):
            note = f"termination: while-loop #{ordinal} of {m_.split('.')[-1]}.{q_} has a checked {kind} variant"
            if note not in self.notes:
                self.notes.append(note)
        for (m, q) in sorted(I.inlined):
            self.fuc(m, q, role="inlined")
        self.last_obligations = list(I.obligations)
        # group obligation instances by label
        groups = {}
        for ob in I.obligations:
            lab = ob.label.split("/", 1)[1] if "/" in ob.label else ob.label
            fn = ob.label.split("/", 1)[0]
            key = lab if fn.endswith(qualname) else f"{fn.split('.')[-1]}:{lab}"
            groups.setdefault(key, []).append(ob)
        res = []
        for lab, obs in groups.items():
            status, secs, backend, detail, model, line, wit, defin = "discharged", 0.0, "z3", "", None, None, None, True
            for ob in obs:
                discharge.discharge(ob, self.timeout_ms, getattr(self, 'split_first', False))
                secs += ob.time
                if ob.backend == "cvc5":
                    backend = "cvc5"
                if ob.status != "discharged":
                    if status == "discharged" or ob.status == "violated":
                        status = ob.status
                        detail = ob.note or ""
                        model = discharge.model_to_dict(ob.model)
                        line = ob.line
                        defin = getattr(ob, "definitive", True)
                        if witness is not None and ob.model is not None:
                            try:
                                wit = witness(ob.model, lab)
                            except Exception as e:  # a witness extractor must never mask the verdict
                                wit = None
                                detail += f" [witness extraction failed: {e}]"
                    if ob.status == "violated":
                        break
            res.append(self.add(ObResult(f"{prefix}/{name}/{lab}" if name else f"{prefix}/{lab}", status, backend,
                                         secs, len(obs), detail, model, line or obs[0].line, witness=wit)))
            res[-1].definitive = defin
        if not res:
            res.append(self.add(ObResult(f"{prefix}/{name}/no-obligations", "error",
                                         detail="VC generation produced zero obligations")))
        # were the function under contract and the callees executed inline restructured since the contracts were written?
        from . import eff as _eff
        idx_ = _eff.qualname_index(self.mods)
        fp = stored_fingerprints()
        changed = []
        for (m_, q_) in [(module, qualname)] + sorted(I.inlined):
            f_ = idx_.get((m_, q_))
            key_ = f"{m_}.{q_}"
            self.seen_fingerprints[key_] = statement_shape(f_) if f_ is not None else None
            if f_ is not None and key_ in fp and fp[key_] != self.seen_fingerprints[key_]:
                changed.append(key_.replace("tempest.", ""))
        if changed:
            for r in res:
                r.restructured = changed
        gaps = getattr(I, "annotation_gaps", None)
        if gaps:
            flat = sorted({f"{q.split('.')[-1]}:{x}" for ((m_, q), ln), names in gaps.items() for x in names})
            import os as _os
            if _os.environ.get("VERIF_GAPS"):
                print("ANNOTATION-GAP", qualname, flat)
            for r in res:
                r.annotation_mismatch = flat
        return res

    def lemma(self, oid, assumptions, goal, kind="lemma", detail="", timeout_ms=None):
        """A stand-alone z3 lemma over spec functions."""
        st, model, backend, secs = discharge.check_formulas(list(assumptions) + [z3.Not(goal)],
                                                            timeout_ms or self.timeout_ms)
        return self.add(ObResult(f"{self.prop}/{oid}", st, backend, secs, 1, detail,
                                 discharge.model_to_dict(model), kind=kind))

    def expect_sat(self, oid, formulas, detail=""):
        """Vacuity canary: formulas must be satisfiable."""
        s = z3.Solver()
        s.set("timeout", 10000)
        s.add(*formulas)
        r = s.check()
        if r == z3.sat:
            self.canaries += 1
            return True
        self.add(ObResult(f"{self.prop}/{oid}", "error", detail="canary not satisfiable: " + detail))
        return False


_PAR = None


def statement_shape(fdef):
    """Structural fingerprint of a function: the nesting of statement kinds (with the kind of each assignment target), ignoring
    names, constants, operators and the expressions themselves.  Small edits keep it; a restructured function does not."""
    import ast as _ast
    import hashlib

    def sh(stmts):
        out = []
        for s_ in stmts:
            if isinstance(s_, _ast.Expr) and isinstance(s_.value, _ast.Constant) and isinstance(s_.value.value, str):
                continue          # docstring
            k = type(s_).__name__
            if isinstance(s_, _ast.Assign):
                k += ":" + ",".join(type(t).__name__ for t in s_.targets)
            elif isinstance(s_, (_ast.AugAssign, _ast.AnnAssign)):
                k += ":" + type(s_.target).__name__
            sub = []
            for fld in ("body", "orelse", "finalbody"):
                b = getattr(s_, fld, None)
                if isinstance(b, list) and b and isinstance(b[0], _ast.stmt):
                    sub.append((fld, sh(b)))
            for h in getattr(s_, "handlers", []) or []:
                sub.append(("except", sh(h.body)))
            out.append((k, tuple(sub)))
        return tuple(out)
    return hashlib.sha256(repr((len(fdef.args.args), sh(fdef.body))).encode()).hexdigest()[:16]


_FP = None


def stored_fingerprints():
    global _FP
    if _FP is None:
        import json as _json
        import os as _os
        p = _os.path.join(_os.path.dirname(_os.path.dirname(_os.path.abspath(__file__))), "fingerprints.json")
        try:
            _FP = _json.load(open(p))
        except Exception:
            _FP = {}
    return _FP


def _par_run(i):
    ctx, thunks = _PAR
    base = dict(n=len(ctx.results), secs=ctx.solver_secs, nf=len(ctx.functions), tr=set(ctx.trusted),
                nu=len(ctx.undecided_clauses), nb=len(ctx.bounded), nn=len(ctx.notes), cov=ctx.covers, can=ctx.canaries)
    try:
        thunks[i](ctx)
    except Exception:
        ctx.add(ObResult(f"{ctx.prop}/driver/worker{i}", "error", detail=traceback.format_exc()[-600:]))
    out = []
    for r in ctx.results[base["n"]:]:
        r.model = r.model if (r.model is None or isinstance(r.model, dict)) else discharge.model_to_dict(r.model)
        out.append(r)
    return dict(results=out, solver_secs=ctx.solver_secs - base["secs"], functions=ctx.functions[base["nf"]:] + [
        f for f in ctx.functions[:base["nf"]]], trusted=ctx.trusted - base["tr"],
        undecided_clauses=ctx.undecided_clauses[base["nu"]:], bounded=ctx.bounded[base["nb"]:], notes=ctx.notes[base["nn"]:],
        covers=ctx.covers - base["cov"], canaries=ctx.canaries - base["can"], fps=dict(ctx.seen_fingerprints))
