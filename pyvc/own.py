"""T-OWN: ownership / aliasing analysis over the real AST (DESIGN 1.3, C17).

Abstract value = set of regions of the mutable objects reachable from it:
  INT  array stored in StateManager._current / _history      INTC  those containers themselves
  CACHE / CACHEC  the results cache and its arrays            PARAM / PARAMC  caller-owned argument
  FRESH  allocated by this call                               SCALAR  immutable
  ATTR   object held in (or, in the same call, stored into) any other instance attribute — a memo, a cache, a buffer:
         handing it out unchanged aliases internal state exactly like INT does
The analysis is flow-insensitive per function and composes through per-function summaries.
It over-approximates aliasing (a reported alias may be infeasible; a discharged obligation is sound
for the subset: no reflection, arrays only mutated through the patterns scanned in `history_writes`).
"""
import ast

from .eff import dotted, qualname_index

ARR_BAD = {"INT", "CACHE", "PARAM", "ATTR"}
CONT = {"INTC", "CACHEC", "PARAMC"}
SAFE = {"FRESH", "SCALAR"}

RECEIVER_CLASS = {"state": ("tempest.state_manager", "StateManager"), "_core": ("tempest.core", "SamplerCore")}
FRESH_CALLS = {"np.array", "np.concatenate", "np.stack", "np.vstack", "np.hstack", "np.copy", "np.exp", "np.log", "np.sum",
               "np.max", "np.min", "np.mean", "np.ones", "np.zeros", "np.empty", "np.full", "np.arange", "np.linspace",
               "np.where", "np.unique", "np.sqrt", "np.clip", "np.abs", "np.dot", "np.einsum", "np.percentile",
               "np.logaddexp.reduce", "np.cumsum", "np.searchsorted", "np.random.choice", "np.random.rand",
               "np.random.randn", "np.random.random", "np.isfinite", "np.isinf", "np.any", "np.all", "np.argmax",
               "np.argmin", "np.minimum", "np.maximum", "np.nan_to_num", "np.empty_like", "np.zeros_like", "np.eye",
               "np.diag", "np.trace", "np.outer", "np.cov", "np.var", "np.median", "np.linalg.inv", "np.linalg.solve",
               "np.linalg.cholesky", "np.linalg.norm", "np.linalg.matrix_rank", "np.squeeze_copy", "len", "int", "float",
               "bool", "str", "abs", "min", "max", "sum", "sorted", "range", "isinstance", "getattr", "hasattr",
               "print", "Path", "dill.dumps", "dill.load", "math.sqrt", "np.dtype", "np.log1p"}
REDUCERS = {"np.sum", "np.max", "np.min", "np.mean", "np.logaddexp.reduce", "np.trace", "np.linalg.det", "np.linalg.matrix_rank", "np.any",
            "np.all", "np.argmax", "np.argmin", "np.median", "np.var", "np.std", "np.prod", "len", "int", "float", "bool", "str", "abs"}
ELEMENTWISE = {"np.log", "np.exp", "np.sqrt", "np.abs", "np.log1p", "np.minimum", "np.maximum", "np.clip", "np.isfinite", "np.isinf",
               "math.sqrt", "math.log", "math.exp", "min", "max", "np.float64", "np.nan_to_num"}
ALIAS_CALLS = {"np.asarray", "np.atleast_1d", "np.squeeze", "np.reshape", "np.ravel", "np.transpose", "np.ascontiguousarray"}
SHALLOW_CALLS = {"list", "dict", "tuple", "set"}


def _direct_names(v):
    """names whose *object itself* (not a copy / derived value) ends up inside the stored value"""
    if isinstance(v, ast.Name):
        return [v]
    if isinstance(v, (ast.Tuple, ast.List, ast.Set)):
        return [n for e in v.elts for n in _direct_names(e)]
    if isinstance(v, ast.Dict):
        return [n for e in v.values if e is not None for n in _direct_names(e)]
    if isinstance(v, ast.IfExp):
        return _direct_names(v.body) + _direct_names(v.orelse)
    if isinstance(v, ast.Subscript) and isinstance(v.slice, ast.Slice):
        return _direct_names(v.value)
    if isinstance(v, ast.Attribute) and v.attr in ("T", "real", "flat"):
        return _direct_names(v.value)
    if isinstance(v, ast.Call):
        d = (dotted(v.func) or "").replace("numpy.", "np.")
        if d in ALIAS_CALLS or d in SHALLOW_CALLS:
            return [n for a in v.args[:1] for n in _direct_names(a)]
        if isinstance(v.func, ast.Attribute) and v.func.attr in ("reshape", "ravel", "squeeze", "view", "transpose"):
            return _direct_names(v.func.value)
    return []


class Own:
    def __init__(self, mods):
        self.mods = mods
        self.idx = qualname_index(mods)
        self.memo = {}
        self.stack = set()
        self.writes = {}     # (module, qualname) -> list of (store, regions, lineno)
        self._attr_memo = {}

    KNOWN_ATTRS = {"_current", "_history", "_results_dict"}

    def mutable_attrs(self, module, cls):
        """attributes of `cls` that some method assigns a non-scalar value to (other than the three known stores): reading one
        yields region ATTR.  `self.x = <constructor parameter>` in __init__ is configuration and stays SCALAR."""
        key = (module, cls)
        if key in self._attr_memo:
            return self._attr_memo[key]
        self._attr_memo[key] = set()
        out = set()
        scalar_typed = set()     # declared scalar by the constructor signature: self.x = x with x: int | float | bool | str
        init = self.idx.get((module, cls + ".__init__"))
        if init is not None:
            ann = {a.arg: ast.unparse(a.annotation) for a in init.args.args + init.args.kwonlyargs if a.annotation is not None}
            for n in ast.walk(init):
                if isinstance(n, ast.Assign) and isinstance(n.value, ast.Name) and n.value.id in ann:
                    if all(w in ("int", "float", "bool", "str", "Optional", "None", "Union") for w in
                           ast.unparse(ast.parse(ann[n.value.id]).body[0].value).replace("[", " ").replace("]", " ").replace(",", " ").replace("|", " ").split()):
                        for t in n.targets:
                            if isinstance(t, ast.Attribute) and isinstance(t.value, ast.Name) and t.value.id == "self":
                                scalar_typed.add(t.attr)
        for (m, q), f in self.idx.items():
            if m != module or not q.startswith(cls + "."):
                continue
            params = {a.arg for a in f.args.args}
            for n in ast.walk(f):
                tg = n.targets if isinstance(n, ast.Assign) else ([n.target] if isinstance(n, (ast.AnnAssign, ast.AugAssign)) else [])
                for t in tg:
                    if isinstance(t, ast.Attribute) and isinstance(t.value, ast.Name) and t.value.id == "self" and t.attr not in self.KNOWN_ATTRS:
                        v = getattr(n, "value", None)
                        if v is None or isinstance(v, ast.Constant):
                            continue
                        if q.endswith(".__init__") and isinstance(v, ast.Name) and v.id in params:
                            continue
                        if isinstance(v, (ast.Tuple, ast.List, ast.Dict, ast.Set, ast.ListComp, ast.DictComp)) or isinstance(v, (ast.Name, ast.Subscript, ast.Call, ast.BinOp, ast.Attribute, ast.IfExp)):
                            if isinstance(v, ast.Call) and (dotted(v.func) or "") in ("int", "float", "bool", "str", "len", "Path", "time.time"):
                                continue
                            out.add(t.attr)
        out -= scalar_typed
        self._attr_memo[key] = out
        return out

    # ------------------------------------------------------------------ summaries
    def summary(self, module, qualname, assume=None):
        key = (module, qualname, tuple(sorted((assume or {}).items())))
        if key in self.memo:
            return self.memo[key]
        if key in self.stack:
            return frozenset({"FRESH"})
        f = self.idx.get((module, qualname))
        if f is None:
            return frozenset({"FRESH"})
        self.stack.add(key)
        env = {}
        for a in f.args.args:
            if a.arg not in ("self", "cls"):
                env[a.arg] = frozenset({"PARAM", "PARAMC"})
        for k, v in (assume or {}).items():
            env[k] = frozenset({"SCALAR"})
        rets = set()
        writes = []
        cls = qualname.split(".")[0] if "." in qualname else None
        for _ in range(3):  # flow-insensitive fixpoint
            rets.clear()
            del writes[:]
            self._block(f.body, env, module, cls, assume or {}, rets, writes)
        self.stack.discard(key)
        res = frozenset(rets) if rets else frozenset({"SCALAR"})
        self.memo[key] = res
        self.writes[key[:2] + (key[2],)] = list(writes)
        return res

    def _is_object_attr(self, module, cls, attr):
        """attributes bound to collaborating objects (state manager, steps, config ...): `self.x = SomeClass(...)` / a constructor
        parameter; they are not array-like values an accessor could hand out."""
        for (m, q), f in self.idx.items():
            if m != module or not q.startswith(cls + "."):
                continue
            for n in ast.walk(f):
                if isinstance(n, ast.Assign):
                    for t in n.targets:
                        if isinstance(t, ast.Attribute) and isinstance(t.value, ast.Name) and t.value.id == "self" and t.attr == attr:
                            v = n.value
                            if isinstance(v, ast.Call):
                                name = (dotted(v.func) or "").split(".")[-1]
                                if name[:1].isupper():
                                    continue
                            return False
        return True

    def _block(self, stmts, env, module, cls, assume, rets, writes):
        for s in stmts:
            self._stmt(s, env, module, cls, assume, rets, writes)

    def _bind(self, target, R, env):
        if isinstance(target, ast.Name):
            env[target.id] = env.get(target.id, frozenset()) | R
        elif isinstance(target, (ast.Tuple, ast.List)):
            for t in target.elts:
                self._bind(t, R, env)

    def _stmt(self, s, env, module, cls, assume, rets, writes):
        ev = lambda e: self._expr(e, env, module, cls, assume)
        if isinstance(s, ast.Assign):
            R = ev(s.value)
            for t in s.targets:
                if isinstance(t, (ast.Name, ast.Tuple, ast.List)):
                    self._bind(t, R, env)
                elif isinstance(t, (ast.Subscript, ast.Attribute)):
                    base = t.value
                    while isinstance(base, ast.Subscript):
                        base = base.value
                    d = dotted(base) or ""
                    if d.startswith("self._current") or d.startswith("self._history") or d.startswith("self._results_dict") \
                            or d.startswith("instance._current") or d.startswith("instance._history"):
                        writes.append((d.split(".", 1)[1].split(".")[0], R, s.lineno, "store"))
                    elif isinstance(t, ast.Subscript) and isinstance(base, ast.Name) and (R - {"SCALAR"}):
                        # local_container[i] = value: the container now holds (references to) the value's objects — also when the
                        # container is a numpy object array
                        env[base.id] = env.get(base.id, frozenset()) | frozenset(R - {"SCALAR"})
                    elif isinstance(t, ast.Attribute) and d == "self":
                        env["self." + t.attr] = env.get("self." + t.attr, frozenset()) | R
                        if isinstance(s.value, ast.Tuple):      # element-wise regions of a stored tuple literal (same function only)
                            for k_, el in enumerate(s.value.elts):
                                key_ = f"self.{t.attr}#{k_}"
                                env[key_] = env.get(key_, frozenset()) | ev(el)
                        elif not (isinstance(s.value, ast.Constant) and s.value.value is None):
                            env[f"self.{t.attr}#opaque"] = frozenset({"ATTR"})
                        if t.attr not in self.KNOWN_ATTRS and (R - {"SCALAR"}):
                            # the stored objects are now reachable from the instance: every local naming one of them is an alias
                            for nm in _direct_names(s.value):
                                if env.get(nm.id, frozenset()) - {"SCALAR"}:
                                    env[nm.id] = env[nm.id] | frozenset({"ATTR"})
        elif isinstance(s, ast.AugAssign):
            pass
        elif isinstance(s, ast.AnnAssign) and s.value is not None:
            self._bind(s.target, ev(s.value), env)
        elif isinstance(s, ast.Return):
            if s.value is not None:
                rets |= ev(s.value)
        elif isinstance(s, ast.Expr):
            v = s.value
            if isinstance(v, ast.Call) and isinstance(v.func, ast.Attribute) and v.func.attr in ("append", "extend", "update", "insert"):
                d = dotted(v.func.value) or ast.unparse(v.func.value)
                R = frozenset().union(*[ev(a) for a in v.args]) if v.args else frozenset()
                if "._history" in d or "._current" in d or "._results_dict" in d:
                    store = "_history" if "._history" in d else ("_current" if "._current" in d else "_results_dict")
                    writes.append((store, R, s.lineno, v.func.attr))
                elif isinstance(v.func.value, ast.Name):
                    env[v.func.value.id] = env.get(v.func.value.id, frozenset()) | R
            else:
                ev(v)
        elif isinstance(s, ast.If):
            t = s.test
            taken = None
            if isinstance(t, ast.Name) and t.id in assume:
                taken = assume[t.id]
            if taken is True:
                self._block(s.body, env, module, cls, assume, rets, writes)
            elif taken is False:
                self._block(s.orelse, env, module, cls, assume, rets, writes)
            else:
                self._block(s.body, env, module, cls, assume, rets, writes)
                self._block(s.orelse, env, module, cls, assume, rets, writes)
        elif isinstance(s, (ast.For,)):
            self._bind(s.target, ev(s.iter), env)
            self._block(s.body, env, module, cls, assume, rets, writes)
            self._block(s.orelse, env, module, cls, assume, rets, writes)
        elif isinstance(s, ast.While):
            self._block(s.body, env, module, cls, assume, rets, writes)
        elif isinstance(s, ast.With):
            for it in s.items:
                if it.optional_vars is not None:
                    self._bind(it.optional_vars, frozenset({"FRESH"}), env)
            self._block(s.body, env, module, cls, assume, rets, writes)
        elif isinstance(s, ast.Try):
            self._block(s.body, env, module, cls, assume, rets, writes)
            for h in s.handlers:
                self._block(h.body, env, module, cls, assume, rets, writes)
            self._block(s.finalbody, env, module, cls, assume, rets, writes)

    # ------------------------------------------------------------------ expressions
    def _expr(self, e, env, module, cls, assume):
        ev = lambda x: self._expr(x, env, module, cls, assume)
        F = frozenset
        if isinstance(e, ast.Constant) or isinstance(e, ast.JoinedStr):
            return F({"SCALAR"})
        if isinstance(e, ast.Name):
            return env.get(e.id, F({"SCALAR"}))
        if isinstance(e, ast.Attribute):
            d = dotted(e)
            if d in ("self._current", "self._history", "instance._current", "instance._history"):
                return F({"INTC", "INT"}) if d.startswith("self") else F({"FRESH", "PARAM"})
            if d == "self._results_dict":
                return F({"CACHEC", "CACHE"})
            if d and d.startswith("self.") and d.count(".") == 1:
                if cls and e.attr in self.mutable_attrs(module, cls) and e.attr not in RECEIVER_CLASS and not self._is_object_attr(module, cls, e.attr):
                    return env.get(d, F()) | F({"ATTR"})
                return env.get(d, F({"SCALAR"}))
            if e.attr in ("T", "real", "flat"):
                return ev(e.value)
            return F({"SCALAR"})
        if isinstance(e, ast.Subscript):
            dv = dotted(e.value) or ""
            if dv.startswith("self.") and dv.count(".") == 1 and isinstance(e.slice, ast.Constant) and isinstance(e.slice.value, int) \
                    and f"{dv}#{e.slice.value}" in env and f"{dv}#opaque" not in env:
                Rk = env[f"{dv}#{e.slice.value}"]
                return F({"SCALAR"}) if Rk <= {"SCALAR"} else F(Rk | {"ATTR"})
            R = ev(e.value)
            # a[fancy] of a bare array copies; a[slice] is a view; container[key] yields an element
            if not (R & CONT) and not isinstance(e.slice, ast.Slice) and isinstance(e.slice, ast.Name) \
                    and ("idx" in e.slice.id or "mask" in e.slice.id):
                return F({"FRESH"})
            return F(R - CONT) if (R - CONT) else F({"SCALAR"})
        if isinstance(e, (ast.BinOp, ast.UnaryOp, ast.Compare, ast.BoolOp)):
            if isinstance(e, ast.BoolOp):
                return F().union(*[ev(v) for v in e.values])
            ops = [e.left, e.right] if isinstance(e, ast.BinOp) else ([e.operand] if isinstance(e, ast.UnaryOp) else [e.left] + list(e.comparators))
            if all(ev(o) <= {"SCALAR"} for o in ops):
                return F({"SCALAR"})        # arithmetic on immutable scalars yields an immutable scalar
            return F({"FRESH"})
        if isinstance(e, ast.IfExp):
            t = e.test
            if isinstance(t, ast.Name) and t.id in assume:
                return ev(e.body) if assume[t.id] else ev(e.orelse)
            return ev(e.body) | ev(e.orelse)
        if isinstance(e, (ast.Tuple, ast.List, ast.Set)):
            R = F().union(*[ev(x) for x in e.elts]) if e.elts else F()
            return F({"FRESH"}) | F(R - {"SCALAR"})
        if isinstance(e, ast.Dict):
            R = F().union(*[ev(x) for x in e.values if x is not None]) if e.values else F()
            return F({"FRESH"}) | F(R - {"SCALAR"})
        if isinstance(e, (ast.ListComp, ast.DictComp, ast.SetComp, ast.GeneratorExp)):
            env2 = dict(env)
            for g in e.generators:
                self._bind(g.target, self._expr(g.iter, env2, module, cls, assume), env2)
            if isinstance(e, ast.DictComp):
                R = self._expr(e.value, env2, module, cls, assume)
            else:
                R = self._expr(e.elt, env2, module, cls, assume)
            return F({"FRESH"}) | F(R - {"SCALAR"} - CONT)
        if isinstance(e, ast.Lambda):
            return F({"SCALAR"})
        if isinstance(e, ast.Call):
            return self._call(e, env, module, cls, assume)
        if isinstance(e, ast.Starred):
            return ev(e.value)
        return F({"SCALAR"})

    def _call(self, e, env, module, cls, assume):
        ev = lambda x: self._expr(x, env, module, cls, assume)
        F = frozenset
        args = [ev(a) for a in e.args] + [ev(k.value) for k in e.keywords]
        A = F().union(*args) if args else F()
        d = dotted(e.func) or ""
        if isinstance(e.func, ast.Attribute):
            recv = e.func.value
            m = e.func.attr
            rd = dotted(recv) or ""
            # methods of this class / of known receivers
            target = None
            if rd in ("self", "cls") and cls:
                target = (module, cls)
            elif rd.startswith("self.") and rd.split(".")[-1] in RECEIVER_CLASS:
                target = RECEIVER_CLASS[rd.split(".")[-1]]
            if target and (target[0], f"{target[1]}.{m}") in self.idx:
                if m == "_ensure_copy":
                    return F({"FRESH"}) if (A & ARR_BAD or "FRESH" in A) else F({"SCALAR"})
                asm = {}
                f = self.idx[(target[0], f"{target[1]}.{m}")]
                params = [a.arg for a in f.args.args][1:]
                for kw in e.keywords:
                    if isinstance(kw.value, ast.Constant) and isinstance(kw.value.value, bool):
                        asm[kw.arg] = kw.value.value
                S = self.summary(target[0], f"{target[1]}.{m}", asm or None)
                out = set(S - {"PARAM", "PARAMC"})
                if S & {"PARAM", "PARAMC"}:
                    out |= A
                return F(out)
            R = ev(recv)
            if m == "copy":
                if R & CONT:
                    return F({"FRESH"}) | F(R - CONT - {"FRESH"})
                return F({"FRESH"})
            if m in ("items", "values", "keys", "get", "pop"):
                return F(R - CONT) if (R - CONT) else F({"SCALAR"})
            if m in ("sum", "mean", "max", "min", "any", "all", "std", "item") and not any(k.arg == "axis" for k in e.keywords) and not e.args:
                return F({"SCALAR"})        # full reduction: a numpy scalar (immutable)
            if m in ("astype", "sum", "mean", "max", "min", "tolist", "flatten", "any", "all", "std", "dot", "cumsum"):
                return F({"FRESH"})
            if m in ("reshape", "ravel", "squeeze", "view", "transpose"):
                return R
            if m in ("append", "extend", "update", "add"):
                return F({"SCALAR"})
        nd = d.replace("numpy.", "np.")
        if nd in ALIAS_CALLS:
            R = args[0] if args else F()
            return F({"FRESH"}) if (R & CONT) else (R or F({"SCALAR"}))
        if nd in ("enumerate", "zip", "reversed", "iter", "sorted", "filter", "map"):
            # iteration helpers hand out the elements of their arguments
            out = frozenset().union(*[a - CONT for a in args]) if args else frozenset()
            return out or F({"SCALAR"})
        if nd in SHALLOW_CALLS:
            R = args[0] if args else F()
            return F({"FRESH"}) | F(R - CONT - {"SCALAR"})
        if nd in REDUCERS and not any(k.arg in ("axis", "keepdims") for k in e.keywords) and len(e.args) == 1:
            return F({"SCALAR"})            # full reduction: a numpy scalar (immutable)
        if nd in ELEMENTWISE and args and all(a <= {"SCALAR"} for a in args):
            return F({"SCALAR"})
        if nd in FRESH_CALLS or nd.startswith("np.") or nd.startswith("math.") or nd.startswith("os."):
            return F({"FRESH"})
        # package-level functions: use their summary
        name = d.split(".")[-1]
        for (m2, q2) in self.idx:
            if q2 == name:
                S = self.summary(m2, q2)
                out = set(S - {"PARAM", "PARAMC"})
                if S & {"PARAM", "PARAMC"}:
                    out |= A
                return F(out)
        return F({"FRESH"})


def history_writes(mods):
    """Every syntactic operation on a StateManager history list anywhere in the package."""
    out = []
    for m, (tree, path, src) in mods.items():
        idx = {}
        for n in ast.walk(tree):
            for c in ast.iter_child_nodes(n):
                idx[c] = n
        for n in ast.walk(tree):
            txt = None
            if isinstance(n, ast.Attribute) and n.attr == "_history":
                # find the enclosing statement and how the attribute is used
                p = n
                chain = []
                while p in idx and not isinstance(p, ast.stmt):
                    chain.append(p)
                    p = idx[p]
                stmt = p
                use = "read"
                par = idx.get(n)
                # self._history = ...  /  self._history[k] = ... / self._history[k][i] = ... / del ...
                if isinstance(stmt, (ast.Assign, ast.AugAssign, ast.AnnAssign, ast.Delete)):
                    tg = stmt.targets if isinstance(stmt, (ast.Assign, ast.Delete)) else [stmt.target]
                    for t in tg:
                        if any(x is n for x in ast.walk(t)):
                            use = "rebind" if t is n else "item-store"
                            if isinstance(stmt, ast.AugAssign):
                                use = "inplace-op"
                            if isinstance(stmt, ast.Delete):
                                use = "delete"
                # method calls on the dict or on a list inside it
                for c in chain:
                    pc = idx.get(c)
                    if isinstance(pc, ast.Attribute) and isinstance(idx.get(pc), ast.Call) and idx[pc].func is pc:
                        if pc.attr in ("append", "extend", "insert", "pop", "clear", "remove", "sort", "reverse", "update",
                                       "setdefault", "popitem", "__setitem__", "fill", "put", "itemset", "resize"):
                            use = "call:" + pc.attr
                fn = None
                q = n
                while q in idx:
                    q = idx[q]
                    if isinstance(q, ast.FunctionDef):
                        fn = q.name
                        break
                out.append((m, fn, n.lineno, use))
    return out
