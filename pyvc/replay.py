"""Replay of solver counterexamples on the real code (DESIGN 1.6).

A witness is {"replayer": <name>, "input": {...}}; /verif/replayers/<name>.py is run under
/venv/bin/python with PYTHONPATH=$VERIF_REPO, so it exercises the same tree the VCs came from.
It prints one JSON line {"reproduced": bool, "input": ..., "detail": ...}.
"""
import json
import os
import subprocess
import sys
import tempfile

HERE = os.path.dirname(os.path.dirname(os.path.abspath(__file__)))
PY = "/venv/bin/python"


def run_replayer(name, payload, timeout=300):
    repo = os.environ.get("VERIF_REPO", "/repo")
    with tempfile.NamedTemporaryFile("w", suffix=".json", delete=False) as f:
        json.dump(payload, f, default=str)
        path = f.name
    env = dict(os.environ, PYTHONPATH=repo, PYTHONWARNINGS="ignore")
    try:
        out = subprocess.run([PY, os.path.join(HERE, "replayers", name + ".py"), path], capture_output=True,
                             text=True, timeout=timeout, env=env, cwd=tempfile.gettempdir())
    except subprocess.TimeoutExpired:
        return {"reproduced": False, "detail": "replayer timeout"}
    finally:
        os.unlink(path)
    lines = [l for l in out.stdout.strip().splitlines() if l.startswith("{")]
    if not lines:
        return {"reproduced": False, "detail": "replayer produced no result", "stderr": out.stderr[-800:]}
    try:
        return json.loads(lines[-1])
    except Exception:
        return {"reproduced": False, "detail": "unparsable replayer output", "stdout": out.stdout[-800:]}


def replay_witness(prop, r):
    w = r.witness
    if not w or "replayer" not in w:
        return None
    res = run_replayer(w["replayer"], {"obligation": r.id, "input": w.get("input"), "model": r.model})
    return res


def run_replay(prop, path):
    d = json.load(open(path))
    w = d.get("witness")
    print(f"replay of {d.get('obligation')} on {os.environ.get('VERIF_REPO', '/repo')}")
    if not w or "replayer" not in w:
        print("no concrete witness recorded (no-failing-input-found); solver output:")
        print(json.dumps(d.get("solver_model"), indent=1)[:3000])
        return 2
    res = run_replayer(w["replayer"], {"obligation": d.get("obligation"), "input": w.get("input"),
                                       "model": d.get("solver_model")})
    print(json.dumps(res, indent=1)[:3000])
    if res.get("reproduced"):
        print(f"VIOLATION property={prop} replay={path}")
        return 1
    return 0


def zval(model, e):
    """Evaluate a z3 term in a model to a python number."""
    import z3
    v = model.eval(e, model_completion=True)
    if z3.is_int_value(v):
        return v.as_long()
    if z3.is_rational_value(v):
        return float(v.numerator_as_long()) / float(v.denominator_as_long())
    if z3.is_algebraic_value(v):
        return float(v.approx(20).as_fraction())
    if z3.is_true(v):
        return True
    if z3.is_false(v):
        return False
    return str(v)
