#!/bin/bash
# usage: tools_reverify_seed.sh <ID>   e.g. C14_1 — re-confirm a kept seeded change on the current /repo HEAD:
# demo passes on HEAD, fails with the patch; the pinned test suite still passes with the patch.
id=$1
out=${SEED_BASE:-/verif/seeded}/$id
wt=/tmp/wtv/$id
mkdir -p /tmp/wtv
git -C /repo worktree add -q --detach $wt HEAD 2>/dev/null || { echo "worktree failed"; exit 1; }
cd $wt
PYTHONPATH=$wt /venv/bin/python $out/demo.py > $out/demo_head.log 2>&1; d0=$?
if ! git apply $out/patch.diff 2> $out/apply.log; then echo "$id APPLY-FAILED"; cd /; git -C /repo worktree remove --force $wt; exit 1; fi
PYTHONPATH=$wt /venv/bin/python $out/demo.py > $out/demo_patched.log 2>&1; d1=$?
PYTHONPATH=$wt /venv/bin/python -m pytest -q -p no:cacheprovider --timeout=900 -x --deselect tests/test_sample_method.py::SampleMethodTestCase::test_sample_with_save_every --deselect tests/test_sampler_features.py::SamplerFeaturesTestCase::test_custom_output_dir --deselect tests/test_state.py::SamplerStateTestCase::test_resume > $out/tests.log 2>&1; t=$?
tail -1 $out/tests.log > $out/tests_summary.txt
cd /; git -C /repo worktree remove --force $wt
echo "$id demo_head=$d0 demo_patched=$d1 tests_rc=$t $(cat $out/tests_summary.txt) (repo $(git -C /repo rev-parse --short HEAD))"
