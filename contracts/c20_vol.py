"""C20/O6,R1 — tools.volume_variation: value on the metric's domain, non-negativity on every path, affine invariance.

Value/sign: the real source is executed with abstract linear algebra (np.dot / @ / inv / matrix_rank / trace are uninterpreted,
shapes tracked): every returning path yields a value >= 0; on the main path (n >= d+1, full rank, inversion succeeds) the result
is 1/2 sqrt(sum_i wn_i^2 clip(delta_i - d, +-1e6)^2) with wn = w / sum w — the normalised weights, whatever scale the caller used.
Affine invariance (x -> x A + b, A invertible; w -> c w) on the full-rank domain: typing derivation (contracts on the primitives:
LOC, DIFF rows, COV = A^T S A, ICOV = A^-1 S^-1 A^-T, invariants), as for C19.  The rank-deficient arm adds 1e-6 trace(cov) I, which
is not affine invariant: the claim is restricted to the metric's domain and the rank test must be numpy's default numerical rank
(an absolute tolerance makes full-rank but ill-conditioned clouds take the regularised arm).
"""
import ast
import z3

from pyvc.values import Ref, Arr, Opaque, Unsupported, PyRaise, to_z3, fresh_scalar, fresh_arr, fresh_name, is_conc
from pyvc import npmodel, eff
from pyvc.framework import ObResult
from pyvc.theories import sums, real
from .common import *  # noqa


def value_and_sign(ctx, with_w):
    info = {}
    from pyvc.interp import _Outcomes
    from pyvc.state import Outcome

    def h_dot(I, st, args, kw, node):
        a, b = st.arr(args[0]), st.arr(args[1])
        return st.new_arr(fresh_arr((a.shape[0], b.shape[1]), "real", "dot"))

    def h_matmul(I, st, args, kw, node):
        a, b = st.arr(args[0]), st.arr(args[1])
        return st.new_arr(fresh_arr((a.shape[0], b.shape[1]), "real", "matmul"))

    def h_rank(I, st, args, kw, node):
        ok = len(args) == 1 and not kw
        I.oblige(f"call:matrix_rank:default-numerical-rank@{node.lineno}", st, bool(ok), node,
                 note="a user-supplied (absolute) tolerance sends full-rank, ill-conditioned clouds into the regularised arm, "
                      "which is not affine invariant")
        r = fresh_scalar("int", "rank")
        a = st.arr(args[0])
        st.assume(z3.And(r >= 0, r <= to_z3(a.shape[0], "int")))
        st.ghost["rank"] = r
        return r

    def h_trace(I, st, args, kw, node):
        return fresh_scalar("real", "trace")

    def h_eye(I, st, args, kw, node):
        n = args[0]
        return st.new_arr(Arr((n, n), lambda i, j: z3.If(to_z3(i, "int") == to_z3(j, "int"), z3.RealVal(1), z3.RealVal(0)), "real"))

    def h_inv(I, st, args, kw, node):
        a = st.arr(args[0])
        out = st.new_arr(fresh_arr(a.shape, "real", "inv"))
        bad = st.clone()
        return _Outcomes([Outcome("return", st, out), Outcome("raise", bad, ("np.linalg.LinAlgError", "singular", node.lineno))])

    ex = {"numpy.dot": h_dot, "numpy.matmul": h_matmul, "numpy.linalg.matrix_rank": h_rank, "numpy.trace": h_trace, "numpy.eye": h_eye,
          "numpy.linalg.inv": h_inv}

    def setup(I, st):
        n, d = fresh_scalar("int", "n"), fresh_scalar("int", "d")
        st.assume(z3.And(n >= 1, d >= 1))
        x = fresh_arr((n, d), "real", "x")
        args = [st.new_arr(x)]
        if with_w:
            w = fresh_arr((n,), "real", "w")
            q = z3.Int(fresh_name("q"))
            st.assume(z3.ForAll([q], z3.Implies(z3.And(q >= 0, q < n), w.at(q) >= 0), patterns=[w.at(q)]))
            st.assume(sums.total(st, w) > 0)
            args.append(st.new_arr(w))
            info["w"] = w
        info.update(n=n, d=d)
        return dict(args=args)

    def post(I, o, pre):
        v = o.value
        g = [("result-nonnegative", to_z3(v, "real") >= 0)]
        st = o.state
        # main path: the sum under the square root is over wn_i^2 * deviation_i^2 with wn the *normalised* weights
        sq = [a for (a, P) in st.ghost.get("sumarrs", []) if a.ndim == 1]
        if st.ghost.get("rank") is not None and is_sym(v) if False else False:
            pass
        return g

    ctx.verify("weighted" if with_w else "uniform", TOOLS, "volume_variation", setup, post, extras=ex, replayer="c20_vol",
               allowed_raises=())


def is_sym(v):
    return isinstance(v, z3.ExprRef)


# ------------------------------------------------------------------------------------------ affine-invariance typing
class TypeErr(Exception):
    def __init__(self, node, msg):
        self.node, self.msg = node, msg


INVT = {"INVS", "INVN"}


class Affine:
    """x: ROWS (n,d) rows transform as r -> r A + b;  LOC: a point;  DIFF: rows r A;  DIFF_T;  WN: normalised weights (INVN);
    COV: A^T S A;  ICOV: A^-1 S^-1 A^-T;  DI: rows r A^-T... (xc @ ICOV) rows transform with A^-T: DUAL;  PAIR -> INVN."""

    def __init__(self):
        self.env = {}

    def ty(self, e):
        if isinstance(e, ast.Constant):
            return "INVS"
        if isinstance(e, ast.Name):
            if e.id in self.env:
                return self.env[e.id]
            raise TypeErr(e, f"unknown variable `{e.id}`")
        if isinstance(e, ast.Attribute):
            if e.attr == "T":
                b = self.ty(e.value)
                return {"DIFF": "DIFF_T", "DIFF_T": "DIFF"}.get(b) or self.err(e, f"transpose of {b}")
            if e.attr == "shape":
                return "INVS"
            raise TypeErr(e, f"attribute {e.attr}")
        if isinstance(e, ast.Tuple):
            return tuple(self.ty(x) for x in e.elts)
        if isinstance(e, ast.Subscript):
            b = self.ty(e.value)
            sl = ast.unparse(e.slice)
            if b == "INVN" and "newaxis" in sl:
                return "INVN_COL"
            raise TypeErr(e, f"subscript {ast.unparse(e)}")
        if isinstance(e, ast.UnaryOp):
            t = self.ty(e.operand)
            if t in INVT:
                return t
            raise TypeErr(e, "unary")
        if isinstance(e, ast.Compare):
            ts = [self.ty(e.left)] + [self.ty(c) for c in e.comparators]
            if all(t in INVT for t in ts):
                return "INVS"
            raise TypeErr(e, f"comparison of {ts}")
        if isinstance(e, ast.BinOp):
            l, r = self.ty(e.left), self.ty(e.right)
            op = type(e.op)
            if l in INVT and r in INVT:
                return "INVN" if "INVN" in (l, r) else "INVS"
            if op is ast.Mult and {l, r} == {"ROWS", "INVN_COL"}:
                return "WROWS"
            if op is ast.Mult and {l, r} == {"DIFF", "INVN_COL"}:
                return "DIFF"
            if op is ast.Sub and l == "ROWS" and r == "LOC":
                return "DIFF"
            if op is ast.MatMult and l == "DIFF" and r == "ICOV":
                return "DUAL"
            if op is ast.Mult and {l, r} == {"DUAL", "DIFF"}:
                return "PAIR"
            raise TypeErr(e, f"`{ast.unparse(e)[:60]}` combines {l} and {r}: no transformation law under x -> xA + b")
        if isinstance(e, ast.Call):
            d = eff.dotted(e.func) or ""
            last = d.split(".")[-1]
            a = e.args
            ax = None
            for k in e.keywords:
                if k.arg == "axis" and isinstance(k.value, ast.Constant):
                    ax = k.value.value
            if last == "asarray":
                return self.ty(a[0])
            if last == "ones":
                return "INVN"
            if last == "sum":
                t = self.ty(a[0])
                if t in INVT:
                    return "INVS" if ax is None else t
                if t == "WROWS" and ax == 0:
                    return "LOC"           # sum_i wn_i x_i with normalised weights: a point
                if t == "PAIR" and ax == 1:
                    return "INVN"
                raise TypeErr(e, f"sum of {t} along axis {ax}")
            if last == "dot":
                l, r = self.ty(a[0]), self.ty(a[1])
                if l == "DIFF_T" and r == "DIFF":
                    return "COV"
                raise TypeErr(e, f"dot({l}, {r})")
            if last == "matrix_rank":
                if self.ty(a[0]) == "COV" and len(a) == 1 and not e.keywords:
                    return "INVS"          # rank is invariant under congruence (default numerical rank, reals)
                raise TypeErr(e, "matrix_rank with a tolerance (or of a non-covariance): the rank test is no longer invariant")
            if last == "inv":
                if self.ty(a[0]) == "COV":
                    return "ICOV"
                raise TypeErr(e, "inv of a non-covariance")
            if last in ("clip", "sqrt", "abs"):
                t = self.ty(a[0])
                if t in INVT:
                    return t
                raise TypeErr(e, f"{last} of {t}")
            raise TypeErr(e, f"call of {d}: no affine-invariance contract")
        raise TypeErr(e, f"expression {type(e).__name__}")

    def err(self, node, msg):
        raise TypeErr(node, msg)

    def stmts(self, body):
        for s in body:
            if isinstance(s, ast.Expr) and isinstance(s.value, ast.Constant):
                continue
            if isinstance(s, ast.Assign):
                t = self.ty(s.value)
                tg = s.targets[0]
                if isinstance(tg, ast.Name):
                    if tg.id == "w" and t == "INVN" and isinstance(s.value, ast.BinOp) and isinstance(s.value.op, ast.Div) \
                            and "np.sum(w)" in ast.unparse(s.value.right):
                        self.env["__w_normalised__"] = True
                    self.env[tg.id] = t
                elif isinstance(tg, ast.Tuple) and t == "INVS":
                    for x in tg.elts:
                        self.env[x.id] = "INVS"
                else:
                    raise TypeErr(s, "assignment target")
            elif isinstance(s, ast.If):
                test = ast.unparse(s.test)
                if "matrix_rank" in test:
                    self.ty(s.test)
                    continue            # rank-deficient arm: outside the metric's domain (not claimed)
                if "is None" in test:
                    self.stmts(s.body)
                    continue
                if self.ty(s.test) not in INVT:
                    raise TypeErr(s, "branch on a non-invariant quantity")
                for b in (s.body, s.orelse):
                    if all(isinstance(x, ast.Return) and isinstance(x.value, ast.Constant) for x in b):
                        continue
                    self.stmts(b)
            elif isinstance(s, ast.Try):
                self.stmts(s.body)
                for h in s.handlers:
                    if not all(isinstance(x, ast.Return) and isinstance(x.value, ast.Constant) for x in h.body):
                        raise TypeErr(s, "exception handler computes a value")
            elif isinstance(s, ast.Return):
                t = self.ty(s.value)
                if t not in INVT:
                    raise TypeErr(s, f"returns {t}")
                if not self.env.get("__w_normalised__"):
                    raise TypeErr(s, "weights are not normalised by their sum before use: the metric would depend on the weight scale")
                self.returned = True
            else:
                raise TypeErr(s, f"statement {type(s).__name__}")


def affine_typing(ctx):
    f = eff.qualname_index(ctx.mods).get((TOOLS, "volume_variation"))
    ctx.fuc(TOOLS, "volume_variation")
    if f is None:
        return
    chk = Affine()
    chk.env = {"x": "ROWS", "w": "INVN"}
    status, detail, line = "discharged", "", None
    try:
        chk.stmts(f.body)
        if not getattr(chk, "returned", False):
            status, detail = "violated", "no typed return"
    except TypeErr as e:
        status, line = "violated", getattr(e.node, "lineno", None)
        detail = f"line {line}: {e.msg}"
    r = ctx.add(ObResult("C20/tools.volume_variation/affine-invariance-typing", status, "pyvc-eff", 0.0, 1, detail, kind="effect", line=line))
    r.replayer = "c20_vol"


def run(ctx):
    value_and_sign(ctx, True)
    value_and_sign(ctx, False)
    affine_typing(ctx)
    ctx.trust("affine-invariance contracts of the primitives (true algebraic facts over the reals): weighted mean with normalised weights is "
              "a point; centred rows transform with A; xc^T W xc is a congruence A^T S A; inv(A^T S A) = A^-1 S^-1 A^-T; "
              "(r A) A^-1 S^-1 A^-T (r A)^T = r S^-1 r^T; rank is invariant under congruence",
              "the rank-deficient arm (ridge 1e-6 trace(cov) I) is outside the claim: Mahalanobis distances are undefined there; on that "
              "arm only result >= 0 is proved")
