def run(ctx):
    pass
