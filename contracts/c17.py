"""C17 — accessors never alias internal state; committed history is append-only (DESIGN §2/C17).
Ownership contracts checked by the T-OWN analysis over the real AST (pyvc/own.py)."""
import ast

from pyvc import own, eff
from pyvc.framework import ObResult

SM, CORE, SAMPLER = "tempest.state_manager", "tempest.core", "tempest.sampler"


def run(ctx):
    P = ctx.prop
    O = own.Own(ctx.mods)
    idx = O.idx

    def ob(oid, ok, detail="", line=None, replayer="c17_alias"):
        r = ObResult(f"{P}/{oid}", "discharged" if ok else "violated", "pyvc-own", 0.0, 1, "" if ok else detail,
                     line=line, kind="ownership")
        r.replayer = replayer
        return ctx.add(r)

    refl = eff.scan_reflection(ctx.mods)
    ob("subset/no-reflection", not refl, str(refl))

    # O1/O4/O6/O7: every public accessor returns only fresh or immutable objects
    accessors = [(SM, "StateManager.get_current"), (SM, "StateManager.get_history"), (SM, "StateManager.get_last_history"),
                 (SM, "StateManager.compute_logw_and_logz"), (SM, "StateManager.compute_results"), (SM, "StateManager.to_dict"),
                 (CORE, "SamplerCore.execute_iteration"), (CORE, "SamplerCore.compute_posterior"),
                 (CORE, "SamplerCore.compute_evidence"), (SAMPLER, "Sampler.sample"), (SAMPLER, "Sampler.posterior"),
                 (SAMPLER, "Sampler.results"), (SAMPLER, "Sampler.evidence")]
    for (m, q) in accessors:
        if ctx.fuc(m, q) is None:
            continue
        R = O.summary(m, q)
        bad = sorted(R & {"INT", "INTC", "CACHE", "CACHEC", "ATTR"})   # the caller's own arguments may be handed back
        ob(f"accessor/{q}:returns-no-alias-of-internal-state", not bad,
           f"{q} may return an object in region(s) {bad} (INT=array stored in current/history, INTC=internal container, "
           f"CACHE=results cache, ATTR=object held in another instance attribute (memo/buffer), PARAM=caller argument)", idx[(m, q)].lineno)

    # the copy helper itself
    f = idx.get((SM, "StateManager._ensure_copy"))
    ctx.fuc(SM, "StateManager._ensure_copy")
    okc = f is not None and any(isinstance(s, ast.If) and "isinstance(value, np.ndarray)" in ast.unparse(s.test) and
                                any(isinstance(r, ast.Return) and ast.unparse(r.value) == "value.copy()" for r in s.body)
                                for s in f.body)
    ob("helper/_ensure_copy:arrays-are-copied", okc, "_ensure_copy no longer returns value.copy() for numpy arrays",
       f.lineno if f else None)

    # O2/O3: setters (default copy=True) and commit store fresh arrays
    for (q, asm) in (("StateManager.set_current", {"copy": True}), ("StateManager.update_current", {"copy": True}),
                     ("StateManager.commit_current_to_history", None)):
        ctx.fuc(SM, q)
        O.summary(SM, q, asm)
        key = (SM, q, tuple(sorted((asm or {}).items())))
        ws = O.writes.get(key, [])
        bad = [(st, sorted(R - own.SAFE), ln, how) for (st, R, ln, how) in ws if (R - own.SAFE)]
        ob(f"mutator/{q}:stores-fresh-copies", bool(ws) and not bad,
           f"{q} stores into {[b[0] for b in bad]} objects of region(s) {[b[1] for b in bad]} (lines {[b[2] for b in bad]})"
           if ws else f"{q}: no store found", idx[(SM, q)].lineno if (SM, q) in idx else None)
    # default of `copy` is True
    for q in ("StateManager.set_current", "StateManager.update_current"):
        f = idx.get((SM, q))
        dv = eff.default_of(f, "copy") if f else None
        ob(f"mutator/{q}:copy-defaults-to-True", isinstance(dv, ast.Constant) and dv.value is True,
           "default of copy is not True")
    # library call sites never opt out of copying
    optout = []
    for (m2, q2, call) in eff.call_sites_of(ctx.mods, {"set_current", "update_current"}):
        for kw in call.keywords:
            if kw.arg == "copy" and not (isinstance(kw.value, ast.Constant) and kw.value.value is True):
                optout.append((m2, q2, call.lineno))
    ob("mutator/library-call-sites-keep-copy-semantics", not optout, f"copy=False used at {optout}")

    # O5: append-only history
    hw = own.history_writes(ctx.mods)
    allowed = {("tempest.state_manager", "__init__", "rebind"), ("tempest.state_manager", "commit_current_to_history", "call:append"),
               ("tempest.state_manager", "from_dict", "call:update"), ("tempest.state_manager", "update_from_dict", "call:update")}
    bad = [(m, fn, ln, use) for (m, fn, ln, use) in hw if use != "read" and (m, fn, use) not in allowed]
    outside = [(m, fn, ln) for (m, fn, ln, use) in hw if m != "tempest.state_manager"]
    ob("append-only/history-is-only-appended-to", not bad, f"history modified other than by append-on-commit / wholesale import: {bad}")
    ob("append-only/no-access-outside-StateManager", not outside, f"_history touched outside StateManager: {outside}")
    # one append per key per commit: the append sits directly in the loop over keys, not nested in another loop
    f = idx.get((SM, "StateManager.commit_current_to_history"))
    n_app = 0
    depth_ok = True
    if f:
        for loop in [n for n in f.body if isinstance(n, ast.For)]:
            for n in ast.walk(loop):
                if isinstance(n, ast.Call) and isinstance(n.func, ast.Attribute) and n.func.attr == "append" \
                        and "_history" in ast.unparse(n.func.value):
                    n_app += 1
            depth_ok = depth_ok and not any(isinstance(n, (ast.For, ast.While)) for b in loop.body for n in ast.walk(b))
    ob("append-only/commit-appends-one-batch-per-key", n_app == 1 and depth_ok,
       f"commit_current_to_history performs {n_app} history appends (nested loops: {not depth_ok})")
    # exactly one commit per sampler iteration, on every path
    f = idx.get((CORE, "SamplerCore.execute_iteration"))
    top = [s for s in (f.body if f else []) if isinstance(s, ast.Expr) and isinstance(s.value, ast.Call)
           and ast.unparse(s.value.func).endswith("commit_current_to_history")]
    total = sum(1 for n in ast.walk(f) if isinstance(n, ast.Call) and ast.unparse(n.func).endswith("commit_current_to_history")) if f else 0
    ob("append-only/one-commit-per-iteration", len(top) == 1 and total == 1,
       f"execute_iteration commits {total} times ({len(top)} unconditionally)")
    # in-place array operations on values read from the manager anywhere in the package
    inplace = []
    for (m, q), fd in idx.items():
        for n in ast.walk(fd):
            if isinstance(n, ast.AugAssign) and "_history" in ast.unparse(n.target):
                inplace.append((m, q, n.lineno))
    ob("append-only/no-in-place-update-of-a-stored-batch", not inplace, str(inplace))

    # O8: import takes ownership of the dictionary; library call sites pass a freshly unpickled object
    sites = eff.call_sites_of(ctx.mods, {"update_from_dict", "from_dict"})
    bad = []
    for (m2, q2, call) in sites:
        a = call.args[0] if call.args else None
        src = ast.unparse(a) if a is not None else "?"
        f2 = idx.get((m2, q2))
        fresh = False
        if isinstance(a, ast.Name) and f2 is not None:
            for s in ast.walk(f2):
                if isinstance(s, ast.Assign) and any(isinstance(t, ast.Name) and t.id == a.id for t in s.targets) \
                        and isinstance(s.value, ast.Call) and (eff.dotted(s.value.func) or "").endswith("dill.load"):
                    fresh = True
        if not fresh:
            bad.append((m2, q2, call.lineno, src))
    ob("import/library-call-sites-pass-a-fresh-dictionary", not bad, f"state imported from a possibly shared dictionary at {bad}")

    ctx.trust("numpy: np.array/np.concatenate/.copy()/fancy and boolean indexing/arithmetic allocate; slices, .T, reshape, np.asarray alias",
              "T-OWN is flow-insensitive and sound only for the supported subset (no reflection; checked)",
              "update_from_dict/from_dict take ownership of the dictionary they are given (documented contract; library call sites checked)",
              "non-array mutable values (lists) stored by a caller are outside the property (arrays only)")
    if ctx.tier == "thorough":
        from pyvc import replay
        res = replay.run_replayer("c17_alias", {"input": None}, timeout=900)
        ctx.bounded.append({"clause": "scribble-and-reread over every accessor (native)", "bound": "operation sequences in replayers/c17_alias.py", "result": res})
        if res.get("reproduced"):
            r = ObResult(f"{P}/native/scribble-and-reread", "violated", "native", 0.0, 1, str(res.get("detail")), kind="bounded",
                         witness={"replayer": "c17_alias", "input": res.get("input")})
            r.replayed = res
            ctx.add(r)
