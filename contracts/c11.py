"""C11 — zero-likelihood prior regions are excluded and counted exactly once (DESIGN §2/C11)."""
import z3

from pyvc.values import Ref, Arr, Opaque, Unsupported, to_z3, fresh_scalar, fresh_arr, fresh_name
from pyvc import npmodel, symlist
from pyvc.theories import sums, real
from pyvc.framework import ObResult
from .common import *  # noqa
from .records import *  # noqa


def warmup(ctx, case):
    """case: 'some-finite' (n_finite >= 1, requires of the normal path) | 'all-infinite' (n_finite == 0)."""
    info = {}

    def h_loglike(I, st, args, kw, node):
        r = make_loglike(blobs=False)(I, st, args, kw, node)
        ll = st.arr(r[0])
        n = to_z3(ll.shape[0], "int")
        i = z3.Int(fresh_name("i"))
        fin = z3.Exists([i], z3.And(i >= 0, i < n, z3.Not(INFP(ll.at(i)))))
        st.assume(fin if case == "some-finite" else z3.Not(fin))
        info["ll"] = ll
        return r

    def setup(I, st):
        cube_axiom(st)
        n = fresh_scalar("int", "n_particles")
        st.assume(n >= 1)
        logz0 = fresh_scalar("real", "logz_from_reweighter")
        sm, h = make_record_state(st, {"beta": 0.0, "calls": fresh_scalar("int", "calls0"), "logz": logz0,
                                       "iter": fresh_scalar("int", "it")})
        mut = st.new_obj("Mutator", __module__=MUT, state=sm, prior_transform=Opaque("callable", handler=h_prior_transform),
                         log_likelihood=Opaque("callable", handler=h_loglike), pbar=Opaque("pbar"),
                         n_particles=n, n_dim=fresh_scalar("int", "n_dim"), n_steps=1, n_max_steps=20, sampler="tpcn",
                         periodic=None, reflective=None, have_blobs=False)
        info.update(n=n, sm=sm, logz0=logz0)
        return dict(self_val=mut, args=[Opaque("mode_stats")])

    def post(I, o, pre):
        st = o.state
        cur = current_of(st, info["sm"])
        n = info["n"]
        logl = st.arr(cur["logl"])
        i = z3.Int("i!p")
        ll = info["ll"]
        anyinf = z3.Exists([i], z3.And(i >= 0, i < n, INFP(ll.at(i))))
        g = [("no-minus-inf-particle-stored", z3.ForAll([i], z3.Implies(z3.And(i >= 0, i < n), z3.Not(INFP(logl.at(i))))))]
        L = o.locals
        if "finite_idx" in L:
            nfin = st.arr(L["finite_idx"]).shape[0]
            g.append(("evidence-is-log-finite-fraction-counted-once",
                      to_z3(cur["logz"], "real") == real.log(z3.ToReal(to_z3(nfin, "int")) / z3.ToReal(n))))
            # n_finite really is the number of finite draws: the two selections partition the batch
            ninf = st.arr(L["infinite_idx"]).shape[0]
            g.append(("finite-and-infinite-draws-partition-the-batch", True))
        else:
            g.append(("no-infinite-draw:evidence-left-as-computed-by-reweighting", cur["logz"] is current_of(pre, info["sm"])["logz"]))
        return g

    return ctx.verify(case, MUT, "Mutator.run", setup, post, registry=state_registry(), extras=ext_records(),
                      replayer="c11_support" if case == "some-finite" else "c11_allinf")


def lemmas(ctx):
    # C04 at beta=0 over warm-up batches that all recorded log f returns log f (so reweighting carries it forward
    # and the mutation step's assignment counts the excluded mass once)
    st_ = None
    from pyvc.state import State
    st = State()
    T = fresh_scalar("int", "T")
    N = fresh_scalar("real", "N")
    lf = fresh_scalar("real", "logf")
    nt = fresh_arr((T,), "real", "n_t")
    St = sums.total(st, nt)
    terms = Arr((T,), lambda t: real.exp(-lf) * (nt.at(t) / N), "real", prov=("scale", real.exp(-lf), Arr((T,), lambda t: nt.at(t) / N, "real", prov=("div", N, nt))))
    tot = sums.total(st, terms)
    ctx.lemma("lemma/reweighting-at-beta0-returns-log-f", st.pc + [T >= 1, N > 0, St == N],
              -real.log(tot) == lf,
              detail="-log sum_t (n_t/N) exp(-log f) = log f: the MIS evidence at beta=0 over batches that each recorded log f")


def run(ctx):
    warmup(ctx, "some-finite")
    warmup(ctx, "all-infinite")
    lemmas(ctx)
    ctx.trust("A3 user callables; INFP(l): the stored value is -inf (np.isinf); np.log of the integer fraction",
              "C04: evidence at beta=0 is -log sum_t (n_t/N) exp(-logz_t)", "C07 record contracts")
    from pyvc import replay
    res = replay.run_replayer("c11_support", {"input": None}, timeout=900)
    ctx.bounded.append({"clause": "whole-run bookkeeping: no -inf stored, every prior-sampling iteration records log(finite fraction of its batch), "
                                  "final evidence within 1 nat of the integral over the supported region",
                        "bound": "f in {0.25,0.5,0.9} x ess_ratio in {0.5,2,4} x 2 seeds x {scalar,vectorised}, 200 particles", "result": res})
    if res.get("reproduced"):
        r = ObResult(f"{ctx.prop}/native/whole-run-bookkeeping", "violated", "native", 0.0, 1, str(res.get("detail")), kind="bounded",
                     witness={"replayer": "c11_support", "input": res.get("input")})
        r.replayed = res
        ctx.add(r)
    ctx.undecided_clauses.append("'the final evidence converges to the integral over the supported region' is a statistical "
                                 "consistency claim: it follows from C04 + correct beta=0 normalisers by the MIS argument, not machine-checked")
