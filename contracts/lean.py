"""Lean/Mathlib lemmas: compiled with `lean` (result cached by content hash under /verif/.cache)."""
import hashlib
import os
import re
import subprocess
import time

from pyvc.framework import ObResult

HERE = os.path.dirname(os.path.dirname(os.path.abspath(__file__)))
CACHE = os.path.join(HERE, ".cache", "lean")


def compile_file(fname, timeout=1500):
    path = os.path.join(HERE, "lemmas", fname)
    src = open(path).read()
    sha = hashlib.sha256(src.encode()).hexdigest()[:16]
    os.makedirs(CACHE, exist_ok=True)
    ok = os.path.join(CACHE, f"{fname}.{sha}.ok")
    if os.path.exists(ok):
        return True, f"cached {sha}", 0.0, src
    t0 = time.time()
    try:
        out = subprocess.run(["lean", path], capture_output=True, text=True, timeout=timeout, cwd=os.path.join(HERE, "lemmas"))
    except subprocess.TimeoutExpired:
        return False, "lean timeout", time.time() - t0, src
    txt = (out.stdout + out.stderr)
    bad = out.returncode != 0 or re.search(r"\berror\b|declaration uses 'sorry'", txt)
    if not bad:
        open(ok, "w").write(txt)
        return True, f"compiled {sha}", time.time() - t0, src
    return False, txt[-600:], time.time() - t0, src


def require(ctx, fname, theorems):
    good, msg, secs, src = compile_file(fname)
    clean = not re.search(r"\b(sorry|admit|axiom)\b", re.sub(r"/-.*?-/|--[^\n]*", "", src, flags=re.S))
    for t in theorems:
        present = re.search(rf"\b(theorem|lemma)\s+{re.escape(t)}\b", src) is not None
        status = "discharged" if (good and clean and present) else "unknown"
        ctx.add(ObResult(f"{ctx.prop}/lean/{fname}:{t}", status, "lean", secs / max(1, len(theorems)), 1,
                         "" if status == "discharged" else f"lean: {msg} clean={clean} present={present}", kind="lemma"))
