"""C08 — checkpoints restore exactly, resume continues the run, saves are crash-safe (DESIGN §2/C08)."""
import z3

from pyvc.values import Ref, Arr, Opaque, Unsupported, to_z3, fresh_scalar, fresh_arr, fresh_name
from pyvc import npmodel, symlist
from pyvc.framework import ObResult
from .common import *  # noqa
from .records import *  # noqa
from . import fsmodel
from .c04 import make_full_state, HKEYS_S, HKEYS_A

CORE = "tempest.core"


def reg_sm():
    reg = state_registry()
    for m in ("to_dict", "update_from_dict", "get_history"):
        reg[(SM, f"StateManager.{m}")] = "inline"
    return reg


def fill_current(st, sm, n):
    cur = st.cell(st.cell(sm)["_current"])["__dict__"]
    cur.update({"u": st.new_arr(fresh_arr((n, 2), "real", "cu")), "x": st.new_arr(fresh_arr((n, 2), "real", "cx")),
                "logl": st.new_arr(fresh_arr((n,), "real", "cl")), "beta": fresh_scalar("real", "beta"),
                "logz": fresh_scalar("real", "logz"), "iter": fresh_scalar("int", "iter"), "calls": fresh_scalar("int", "calls"),
                "ess": fresh_scalar("real", "ess"), "steps": fresh_scalar("int", "steps"),
                "assignments": st.new_arr(fresh_arr((n,), "int", "asg"))})
    return cur


def same_value(st, a, b):
    """structural equality of a saved value and the live one (arrays element-wise)."""
    if isinstance(a, Ref) and a.kind == "arr":
        if not (isinstance(b, Ref) and b.kind == "arr"):
            return False
        A, B = st.arr(a), st.arr(b)
        if A.ndim != B.ndim:
            return False
        idx = [z3.Int(fresh_name("e")) for _ in range(A.ndim)]
        return z3.And(*[to_z3(x, "int") == to_z3(y, "int") for x, y in zip(A.shape, B.shape)],
                      z3.ForAll(idx, A.at(*idx) == B.at(*idx)))
    if a is None or b is None:
        return a is None and b is None
    if isinstance(a, (str, Opaque)) or isinstance(b, (str, Opaque)):
        return a is b or a == b
    return to_z3(a) == to_z3(b)


def save(ctx, pool_kind):
    info = {}

    def setup(I, st):
        sm, h = make_full_state(st)
        n = fresh_scalar("int", "n")
        st.assume(n >= 1)
        fill_current(st, sm, n)
        pool = None if pool_kind == "none" else (fresh_scalar("int", "workers") if pool_kind == "int" else Opaque("pool"))
        cfg = st.new_obj("SamplerConfig", __module__="tempest.config", __frozen__=True, pool=pool,
                         random_state=fresh_scalar("int", "seed"))
        core = st.new_obj("SamplerCore", __module__=CORE, state=sm, config=cfg, n_total=fresh_scalar("int", "n_total"), logz_err=None)
        final = Opaque("path", pid="FINAL")
        info.update(sm=sm, cfg=cfg, core=core, pool=pool, h=h, final=final,
                    cur0=dict(st.cell(st.cell(sm)["_current"])["__dict__"]), hist0=st.cell(sm)["_history"])
        st.ghost["fs"] = []
        return dict(self_val=core, args=[final])

    def trace_goals(st, completed):
        tr = fsmodel.fs(st)
        touching = [e for e in tr if (e[0] in ("open", "write", "flush", "fsync") and e[1] == "FINAL") or (e[0] == "replace" and "FINAL" in e[1:])]
        g = []
        if completed:
            ok = len(touching) == 1 and touching[0][0] == "replace" and touching[0][2] == "FINAL" and touching[0][1] != "FINAL"
            tmp = touching[0][1] if ok else None
            seq = [e[0] for e in tr if len(e) > 1 and e[1] == tmp]
            order_ok = ok and seq[:5] == ["open", "write", "flush", "fsync", "close"] and seq[5:] == ["replace"]
            g.append(("atomic:final-name-only-touched-by-replace", bool(ok)))
            g.append(("atomic:temp-file-written-flushed-synced-closed-then-replaced", bool(order_ok)))
        else:
            g.append(("atomic:failed-save-leaves-final-name-untouched", len(touching) == 0))
        return g, tr

    def post(I, o, pre):
        st = o.state
        g, tr = trace_goals(st, True)
        payload = [e[2] for e in tr if e[0] == "write"]
        cur0 = info["cur0"]
        ok_keys = bool(payload) and isinstance(payload[0], dict) and {"_current", "_history", "n_dim", "random_state", "n_total", "rng_state"} <= set(payload[0])
        g.append(("content:payload-has-state-history-and-metadata", ok_keys))
        if ok_keys:
            d = payload[0]
            dc = st.cell(d["_current"])["__dict__"]
            conj = []
            for k in CURRENT_KEYS:
                conj.append(same_value(st, dc.get(k), cur0.get(k)))
            conj = [c for c in conj if c is not True]
            g.append(("content:saved-current-equals-live-current", z3.And(*conj) if all(c is not False for c in conj) else False))
            dh = st.cell(d["_history"])["__dict__"]
            hl = []
            t, j, cc = z3.Int("t!p"), z3.Int("j!p"), z3.Int("c!p")
            live = st.cell(info["hist0"])["__dict__"]
            for k in HKEYS_S + HKEYS_A:
                a, b = st.cell(dh[k]), st.cell(live[k])
                hl.append(to_z3(a["__symlen__"], "int") == to_z3(b["__symlen__"], "int"))
                ea, eb = a["__symelem__"](t), b["__symelem__"](t)
                if isinstance(ea, Arr):
                    idx = [j, cc][:ea.ndim]
                    hl.append(z3.ForAll([t] + idx, z3.Implies(z3.And(t >= 0, t < info["h"]["T"]), ea.at(*idx) == eb.at(*idx))))
                else:
                    hl.append(z3.ForAll([t], z3.Implies(z3.And(t >= 0, t < info["h"]["T"]), to_z3(ea) == to_z3(eb))))
            g.append(("content:saved-history-equals-live-history", z3.And(*hl)))
            g.append(("content:n_dim-saved", d["n_dim"] is st.cell(info["sm"])["n_dim"]))
        # purity and pool handling
        cur1 = st.cell(st.cell(info["sm"])["_current"])["__dict__"]
        g.append(("pure:live-state-untouched", all(cur1[k] is info["cur0"][k] for k in CURRENT_KEYS) and st.cell(info["sm"])["_history"] is info["hist0"]))
        g.append(("pool:restored-after-save", st.cell(info["cfg"])["pool"] is info["pool"]))
        g.append(("pool:detached-while-pickling", all(p is None for p in st.ghost.get("dumps_pool", [None]))))
        return g

    def raises_post(I, o, pre):
        st = o.state
        g, tr = trace_goals(st, False)
        g.append(("pool:restored-after-failed-save", st.cell(info["cfg"])["pool"] is info["pool"]))
        return g

    ex = fsmodel.ext_fs()
    ctx.verify(f"pool-{pool_kind}", CORE, "SamplerCore.save_sampler_state", setup, post, registry=reg_sm(), extras=ex,
               allowed_raises=("PicklingError",), raises_post=raises_post, replayer="c08_checkpoint")


def load(ctx):
    info = {}

    def setup(I, st):
        sm, h = make_full_state(st)          # the freshly constructed sampler's (empty-ish) manager
        core = st.new_obj("SamplerCore", __module__=CORE, state=sm)
        # file content: an arbitrary saved dictionary (assumed dill contract: load(dump(d)) is a fresh structural copy of d)
        T2 = fresh_scalar("int", "T_saved")
        st.assume(T2 >= 0)
        nd = fresh_scalar("int", "n_dim_saved")
        hist2, fns2, lens2 = symlist.make_history(st, T2, HKEYS_S, HKEYS_A, n_dim=nd)
        n = fresh_scalar("int", "n_saved")
        st.assume(n >= 1)
        cur2 = {k: None for k in CURRENT_KEYS}
        cur2.update({"u": st.new_arr(fresh_arr((n, 2), "real", "su")), "x": st.new_arr(fresh_arr((n, 2), "real", "sx")),
                     "logl": st.new_arr(fresh_arr((n,), "real", "sl")), "beta": fresh_scalar("real", "sbeta"),
                     "logz": fresh_scalar("real", "slogz"), "iter": fresh_scalar("int", "siter"), "calls": fresh_scalar("int", "scalls")})
        d = st.new_dict({"_current": st.new_dict(cur2), "_history": hist2, "n_dim": nd, "random_state": fresh_scalar("int", "seed"),
                         "n_total": fresh_scalar("int", "snt"), "logz_err": None, "rng_state": Opaque("rngstate"), "sampler": Opaque("bytes")})
        info.update(sm=sm, core=core, d=d, cur2=cur2, hist2=hist2, nd=nd)
        return dict(self_val=core, args=[Opaque("path", pid="FINAL")])

    def h_dill_load(I, st, args, kw, node):
        return info["d"]

    def post(I, o, pre):
        st = o.state
        c = st.cell(info["sm"])
        cur = st.cell(c["_current"])["__dict__"]
        g = []
        defaults = {"iter": 0, "calls": 0, "beta": 0.0, "logz": 0.0, "steps": 0, "acceptance": 0.0, "efficiency": 0.0}
        ok = True
        for k in CURRENT_KEYS:
            want = info["cur2"][k]
            if want is None and k in defaults:
                ok = ok and (cur[k] == defaults[k])
            else:
                ok = ok and (cur[k] is want)
        g.append(("restores:current-state-is-the-saved-one", bool(ok)))
        hist = st.cell(c["_history"])["__dict__"]
        saved = st.cell(info["hist2"])["__dict__"]
        g.append(("restores:history-is-the-saved-one", all(hist[k] is saved[k] for k in HKEYS_S + HKEYS_A)))
        g.append(("restores:n_dim", c["n_dim"] is info["nd"]))
        g.append(("restores:n_total-and-stream", st.cell(info["core"]).get("n_total") is st.cell(info["d"])["__dict__"]["n_total"]
                  and any(e[0] == "restore" for e in st.ghost.get("rng", []))))
        return g

    ex = fsmodel.ext_fs()
    ex["dill.load"] = h_dill_load
    ctx.verify("", CORE, "SamplerCore.load_sampler_state", setup, post, registry=reg_sm(), extras=ex, replayer="c08_checkpoint")


def cadence(ctx):
    info = {}

    def h_noop(I, st, args, kw, node):
        return Opaque("x")

    def h_save(I, st, args, kw, node):
        st.ghost["saved"] = st.ghost.get("saved", 0) + 1
        return None

    def h_commit(I, st, args, kw, node):
        st.ghost["commits"] = st.ghost.get("commits", 0) + 1
        return None

    reg = state_registry()
    reg.update({(CORE, "SamplerCore.save_sampler_state"): h_save, (CORE, "SamplerCore._update_progress_bar"): h_noop,
                (SM, "StateManager.commit_current_to_history"): h_commit})

    def setup(I, st):
        it = fresh_scalar("int", "iter")
        sm = make_state_manager(st, {"iter": it})
        comp = lambda name: st.new_obj(name, __module__="abstract")
        cfg = st.new_obj("SamplerConfig", __module__="tempest.config", __frozen__=True, output_dir=Opaque("path", pid="DIR"), output_label="ps")
        core = st.new_obj("SamplerCore", __module__=CORE, state=sm, config=cfg, reweighter=comp("step"), trainer=comp("step"),
                          resampler=comp("step"), mutator=comp("step"), pbar=None)
        se, t0 = fresh_scalar("int", "save_every"), fresh_scalar("int", "t0")
        st.assume(se >= 1)
        info.update(it=it, se=se, t0=t0)
        return dict(self_val=core, kwargs=dict(save_every=se, t0=t0))

    def post(I, o, pre):
        st = o.state
        it, se, t0 = info["it"], info["se"], info["t0"]
        saved = st.ghost.get("saved", 0)
        due = z3.And((it - t0) % se == 0, it != t0)
        return [("checkpoint-written-iff-due", z3.If(due, z3.BoolVal(saved == 1), z3.BoolVal(saved == 0))),
                ("exactly-one-commit", st.ghost.get("commits", 0) == 1)]

    ex = fsmodel.ext_fs()
    ex[("method", "step", "run")] = h_noop
    ctx.verify("", CORE, "SamplerCore.execute_iteration", setup, post, registry=reg, extras=ex, replayer="c08_checkpoint")


def resume_numbering(ctx):
    info = {}

    def h_load(I, st, args, kw, node):
        cur = current_of(st, st.cell(args[0])["state"])
        cur["iter"] = info["it"]
        return None

    reg = state_registry()
    reg[(CORE, "SamplerCore.load_sampler_state")] = h_load

    def setup(I, st):
        sm = make_state_manager(st, {})
        core = st.new_obj("SamplerCore", __module__=CORE, state=sm, t0=0)
        info.update(it=fresh_scalar("int", "iter_saved"), core=core)
        return dict(self_val=core, args=[Opaque("path", pid="FINAL")])

    def post(I, o, pre):
        return [("t0-is-the-restored-iteration", o.state.cell(info["core"])["t0"] == info["it"])]

    ctx.verify("", CORE, "SamplerCore._initialize_from_resume", setup, post, registry=reg, replayer="c08_checkpoint")


def picklable_core(ctx, replayer="c08_checkpoint"):
    """Data-structure invariant behind 'saving works with a worker pool': apart from config.pool (detached while
    pickling) no attribute of SamplerCore or of its step objects is ever assigned a process pool."""
    import ast
    from pyvc import eff
    bad = []
    for m, (tree, path, src) in ctx.mods.items():
        for n in ast.walk(tree):
            if isinstance(n, ast.Assign) and isinstance(n.value, (ast.Call, ast.Attribute)):
                for t in n.targets:
                    if isinstance(t, ast.Attribute) and isinstance(t.value, ast.Name) and t.value.id == "self":
                        v = ast.unparse(n.value)
                        if "Pool(" in v or v.endswith(".map") or "multiprocess" in v or v.endswith(".pool") or v == "pool":
                            bad.append((m, n.lineno, ast.unparse(n)[:80]))
    r = ObResult(f"{ctx.prop}/invariant/no-process-pool-stored-on-the-sampler", "discharged" if not bad else "violated", "pyvc-eff",
                 0.0, 1, "" if not bad else f"a pool is stored on a sampler object (unpicklable at the next save): {bad}", kind="effect")
    r.replayer = replayer
    ctx.add(r)


def run(ctx):
    ctx.weak_ids |= set(['_initialize_from_resume/'])     # helper-level contracts: arbitrated by the property-level native contract when they fail
    picklable_core(ctx)
    for k in ("none", "int", "object"):
        save(ctx, k)
    load(ctx)
    cadence(ctx)
    resume_numbering(ctx)
    # the RNG part of checkpoints (stream saved / restored) is decided under C09; C12 proves the resumed run's postconditions
    ctx.trust("A6: os.replace is atomic, fsync is durable; lemma: under the trace open(tmp) write flush fsync close replace(tmp->final) the final "
              "name is, at every crash point, absent, the previous complete file, or the new complete file",
              "dill round trip: load(dump(d)) is a fresh structural copy of d", "dill.dumps may fail (modelled as a raising path)",
              "C05/O8 (iter + 1 per iteration), C13 (calls), C17 (append-only history) carry numbering across resume")
    ctx.undecided_clauses.append("'terminates with the same postconditions' is C12's partial-correctness postcondition; termination itself is not decided")
    from pyvc import replay
    res = replay.run_replayer("c08_checkpoint", {"input": None}, timeout=900)
    ctx.bounded.append({"clause": "native: every checkpoint of a run restores exactly into a fresh sampler; resumed run reproduces the uninterrupted one; "
                                  "kill at every write call of a save leaves the final name absent or loadable; pool configurations",
                        "bound": "configurations in replayers/c08_checkpoint.py", "result": res})
    if res.get("reproduced"):
        r = ObResult(f"{ctx.prop}/native/checkpoint-roundtrip-and-crash-points", "violated", "native", 0.0, 1, str(res.get("detail")),
                     kind="bounded", witness={"replayer": "c08_checkpoint", "input": res.get("input")})
        r.replayed = res
        ctx.add(r)
