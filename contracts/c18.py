"""C18 — invalid configurations are rejected up front; valid ones are accepted (DESIGN §2/C18).

O1/O3  SamplerConfig.__post_init__ (with validate inlined) is executed symbolically for a *typed symbolic
       configuration*: every numeric option is a free integer/real, every enumerated option ranges over its
       valid values plus an invalid one, index lists are arrays of any length.  On every returning path the
       statement's `invalid(c)` must be false, on every raising path it must be true (no spurious rejection).
O1-t   one option at a time gets a value of the wrong type: no returning path may exist.
O2     no call of the user's likelihood / prior transform is reachable from Sampler.__init__ (call graph).
O4     construction wires the components so that the inter-component preconditions hold (cluster cap, resample
       value set, blobs flag); the run-time preconditions are decided under C05/C06/C08/C13/C14 and listed.
"""
import ast
import itertools
import z3

from pyvc.values import Ref, Arr, Opaque, Unsupported, PyRaise, to_z3, fresh_scalar, fresh_arr, fresh_name, is_conc
from pyvc import npmodel, pysets, symlist, eff
from pyvc.framework import ObResult
from . import fsmodel

CFG = "tempest.config"


def extras():
    ex = fsmodel.ext_fs()
    ex.update(pysets.extras())

    def warn(I, st, args, kw, node):
        st.ghost["warned"] = True
        return None
    ex["warnings.warn"] = warn

    def b_any(I, st, args, kw, node):
        v = args[0]
        if pysets.is_set(v):
            c = st.cell(v)
            if "__set__" in c:
                return any(bool(x) for x in c["__set__"])
            j = z3.Int(fresh_name("j"))
            return z3.Exists([j], z3.And(c["__mem__"](j), j != 0))      # truthiness of the *elements*
        return npmodel.b_any(I, st, args, kw, node)
    ex["builtins.any"] = b_any

    def b_all(I, st, args, kw, node):
        v = args[0]
        if symlist.is_symlist(st, v):
            c = st.cell(v)
            k = z3.Int(fresh_name("k"))
            return z3.ForAll([k], z3.Implies(z3.And(k >= 0, k < to_z3(c["__symlen__"], "int")), to_z3(c["__symelem__"](k))))
        if pysets.is_set(v):
            c = st.cell(v)
            if "__set__" in c:
                return all(bool(x) for x in c["__set__"])
            j = z3.Int(fresh_name("j"))
            return z3.ForAll([j], z3.Implies(c["__mem__"](j), j != 0))
        return npmodel.b_all(I, st, args, kw, node)
    ex["builtins.all"] = b_all
    ex["builtins.len"] = pysets.b_len
    return ex


VALID_SAMPLE, VALID_RESAMPLE = ("tpcn", "rwm"), ("mult", "syst")


def post_init(ctx, name, choice):
    """choice: dict option -> how it is instantiated (see `mk`)."""
    info = {}

    def mk(st):
        n_dim = fresh_scalar("int", "n_dim")
        f = dict(prior_transform=Opaque("callable"), log_likelihood=Opaque("callable"), n_dim=n_dim,
                 n_particles=None, ess_ratio=fresh_scalar("real", "ess_ratio"), volume_variation=None,
                 log_likelihood_args=None, log_likelihood_kwargs=None, vectorize=fresh_scalar("bool", "vectorize"),
                 blobs_dtype=None, periodic=None, reflective=None, pool=Opaque("pool-or-none"),
                 clustering=fresh_scalar("bool", "clustering"), normalize=fresh_scalar("bool", "normalize"),
                 cluster_every=fresh_scalar("int", "cluster_every"), split_threshold=fresh_scalar("real", "split_threshold"),
                 n_max_clusters=None, sample="tpcn", n_steps=None, n_max_steps=None, resample="mult",
                 output_dir=None, output_label=None, random_state=None)
        inv = []          # disjuncts of invalid(c), from the property statement
        if choice.get("n_particles") == "int":
            f["n_particles"] = fresh_scalar("int", "n_particles")
            npart = f["n_particles"]
        else:
            npart = 2 * n_dim
        inv += [n_dim <= 0, npart <= 0, f["ess_ratio"] <= 0]
        if choice.get("volume_variation") == "real":
            f["volume_variation"] = fresh_scalar("real", "volume_variation")
            inv.append(f["volume_variation"] <= 0)
        elif choice.get("volume_variation") == "int":
            f["volume_variation"] = fresh_scalar("int", "volume_variation")
            inv.append(f["volume_variation"] <= 0)
        if choice.get("ess_ratio") == "int":
            f["ess_ratio"] = fresh_scalar("int", "ess_ratio")
            inv[2] = f["ess_ratio"] <= 0
        f["sample"] = choice.get("sample", "tpcn")
        f["resample"] = choice.get("resample", "mult")
        inv.append(z3.BoolVal(f["sample"] not in VALID_SAMPLE))
        inv.append(z3.BoolVal(f["resample"] not in VALID_RESAMPLE))
        if choice.get("blobs_dtype") == "str":
            f["blobs_dtype"] = "f8"
            inv.append(f["vectorize"])
        mems = {}
        for nm in ("periodic", "reflective"):
            if choice.get(nm) == "arr":
                p = fresh_scalar("int", "len_" + nm)
                A = fresh_arr((p,), "int", nm)
                st.assume(p >= 0)
                f[nm] = st.new_arr(A)
                k = z3.Int(fresh_name("k"))
                inv.append(z3.Exists([k], z3.And(k >= 0, k < p, z3.Not(z3.And(A.at(k) >= 0, A.at(k) < n_dim)))))
                mems[nm] = (A, p)
        if len(mems) == 2:
            (A, p), (B, q) = mems["periodic"], mems["reflective"]
            k, l = z3.Int(fresh_name("k")), z3.Int(fresh_name("l"))
            inv.append(z3.Exists([k, l], z3.And(k >= 0, k < p, l >= 0, l < q, A.at(k) == B.at(l))))
        for nm in ("n_steps", "n_max_steps"):
            if choice.get(nm) == "int":
                f[nm] = fresh_scalar("int", nm)
        if choice.get("output_dir") == "str":
            f["output_dir"] = "out"
        elif choice.get("output_dir") == "path":
            f["output_dir"] = Opaque("path", pid="OUT")
        if choice.get("output_label") == "str":
            f["output_label"] = "lbl"
        if choice.get("n_max_clusters") == "int":
            f["n_max_clusters"] = fresh_scalar("int", "n_max_clusters")
        # ill-typed single factors
        bad = choice.get("bad")
        if bad:
            opt, kind = bad
            f[opt] = {"float": fresh_scalar("real", opt + "_f"), "str": "text", "none": None, "list-float": st.new_list([0.5]),
                      "list-str": st.new_list(["a"]), "not-callable": None}[kind]
        return f, inv

    def setup(I, st):
        f, inv = mk(st)
        cfg = st.new_obj("SamplerConfig", __module__=CFG, __frozen__=True, **f)
        info.update(cfg=cfg, inv=inv, f=f)
        return dict(self_val=cfg)

    def post(I, o, pre):
        g = [("accepted-configuration-is-valid", z3.Not(z3.Or(*info["inv"])))]
        c = o.state.cell(info["cfg"])
        if choice.get("bad"):
            g = [("ill-typed-option-is-rejected", False)]
        else:
            # defaults computed by __post_init__ that the components rely on
            npv = c["n_particles"]
            g.append(("default-n_particles-is-2*n_dim", to_z3(npv, "int") == (2 * info["f"]["n_dim"] if info["f"]["n_particles"] is None
                                                                             else info["f"]["n_particles"])))
            g.append(("n_steps-positive", to_z3(c["n_steps"], "int") >= 1))
            g.append(("n_max_steps-positive", to_z3(c["n_max_steps"], "int") >= 1))
            g.append(("output_dir-is-a-path", isinstance(c["output_dir"], Opaque) and c["output_dir"].tag == "path"))
            g.append(("output_label-is-a-string", isinstance(c["output_label"], str)))
        return g

    def raises_post(I, o, pre):
        if choice.get("bad"):
            return [("ill-typed-option-is-rejected", z3.BoolVal(True))]
        return [("rejected-configuration-is-invalid", z3.Or(*info["inv"]))]

    reg = {(CFG, "SamplerConfig.validate"): "inline"}
    return ctx.verify(name, CFG, "SamplerConfig.__post_init__", setup, post, registry=reg, extras=extras(),
                      allowed_raises=("ValueError", "TypeError"), raises_post=raises_post, replayer="c18_config")


def well_typed_product(ctx):
    thunks = []
    combos = list(itertools.product(("none", "int"), ("none", "real"), ("tpcn", "rwm", "strat"), ("mult", "syst", "strat"),
                                    ("none", "str"), ("none", "arr"), ("none", "arr")))
    for (npk, vv, smp, rsm, bl, per, ref) in combos:
        ch = dict(n_particles=npk, volume_variation=vv, sample=smp, resample=rsm, blobs_dtype=bl, periodic=per, reflective=ref)
        nm = f"typed:np={npk},vv={vv},sample={smp},resample={rsm},blobs={bl},periodic={per},reflective={ref}"
        thunks.append(lambda c, nm=nm, ch=ch: post_init(c, nm, ch))
    for extra in (dict(n_steps="int"), dict(n_max_steps="int"), dict(n_steps="int", n_max_steps="int"), dict(output_dir="str"),
                  dict(output_dir="path"), dict(output_label="str"), dict(ess_ratio="int"), dict(volume_variation="int"),
                  dict(n_max_clusters="int")):
        nm = "typed:" + ",".join(f"{k}={v}" for k, v in extra.items())
        thunks.append(lambda c, nm=nm, ch=extra: post_init(c, nm, ch))
    return thunks


ILL_TYPED = [("n_dim", "float"), ("n_dim", "str"), ("n_dim", "none"), ("n_particles", "float"), ("n_particles", "str"),
             ("ess_ratio", "str"), ("ess_ratio", "none"), ("volume_variation", "str"), ("periodic", "list-float"),
             ("reflective", "list-float"), ("periodic", "list-str"), ("prior_transform", "not-callable"),
             ("log_likelihood", "not-callable")]


def ill_typed(ctx):
    return [lambda c, b=b: post_init(c, f"ill-typed:{b[0]}={b[1]}", dict(bad=b)) for b in ILL_TYPED]


# ------------------------------------------------------------------------------------------ O2 (call graph)
USER_CALL_NAMES = {"log_likelihood", "prior_transform", "_log_like", "func", "f"}


def no_likelihood_call_at_construction(ctx):
    mods = ctx.mods
    idx = eff.qualname_index(mods)
    # the over-approximate (name-based) call graph, plus the dataclass hook of SamplerConfig(...)
    reach = set()
    for root in (("tempest.sampler", "Sampler.__init__"), (CFG, "SamplerConfig.__post_init__"), (CFG, "SamplerConfig.validate")):
        reach |= eff.transitive_callees(mods, *root)
    ctx.fuc("tempest.sampler", "Sampler.__init__")
    ctx.fuc("tempest.core", "SamplerCore.__init__")
    bad = []
    for (m, q) in sorted(reach):
        f = idx.get((m, q))
        if f is None:
            continue
        for n in ast.walk(f):
            if isinstance(n, ast.Call):
                d = eff.dotted(n.func)
                if d and d.split(".")[-1] in ("log_likelihood", "prior_transform", "_log_like"):
                    bad.append(f"{m}.{q}:{n.lineno} calls {d}")
        if q in ("FunctionWrapper.__call__",):
            bad.append(f"{m}.{q} (the wrapped likelihood itself) is reachable")
    ctx.add(ObResult("C18/construction/no-user-callable-reachable-from-Sampler.__init__", "violated" if bad else "discharged",
                     "pyvc-eff", 0.0, len(reach), "; ".join(bad[:5]) + f" | reachable set: {len(reach)} functions", kind="effect"))
    ctx.notes.append("O2 reachable set (name-based over-approximation): " + ", ".join(sorted(q for m, q in reach)))


# ------------------------------------------------------------------------------------------ O4 (wiring at construction)
def kwarg_expr(call, name):
    for kw in call.keywords:
        if kw.arg == name:
            return kw.value
    return None


def wiring_sym(ctx):
    """The same wiring facts decided semantically: the real SamplerCore.__init__ (and whatever helpers it calls) is executed with a
    symbolic configuration and the real component constructors, and the *attributes the components end up with* are compared with
    the configuration values their contracts are stated over.  Independent of how the constructor text is organised."""
    CORE_ = "tempest.core"
    for (clustering, cap_given, blobs) in itertools.product((True, False), (True, False), (True, False)):
        info = {}

        def setup(I, st, clustering=clustering, cap_given=cap_given, blobs=blobs):
            f = dict(n_particles=fresh_scalar("int", "n_particles"), n_dim=fresh_scalar("int", "n_dim"), ess_ratio=fresh_scalar("real", "ess_ratio"),
                     volume_variation=fresh_scalar("real", "vv"), n_steps=fresh_scalar("int", "n_steps"), n_max_steps=fresh_scalar("int", "n_max_steps"),
                     cluster_every=fresh_scalar("int", "cluster_every"), split_threshold=fresh_scalar("real", "split_threshold"),
                     n_max_clusters=fresh_scalar("int", "n_max_clusters") if cap_given else None, normalize=fresh_scalar("bool", "normalize"),
                     clustering=clustering, blobs_dtype="f8" if blobs else None, random_state=None, sample=Opaque("cfg.sample"),
                     resample=Opaque("cfg.resample"), periodic=Opaque("cfg.periodic"), reflective=Opaque("cfg.reflective"),
                     prior_transform=Opaque("cfg.prior_transform"), log_likelihood=Opaque("cfg.log_likelihood"), pool=None, vectorize=False,
                     output_dir=Opaque("cfg.output_dir"), output_label=Opaque("cfg.output_label"), log_likelihood_args=None,
                     log_likelihood_kwargs=None, n_effective=fresh_scalar("int", "n_eff"), n_active=fresh_scalar("int", "n_act"))
            cfg = st.new_obj("SamplerConfig", __module__=CFG, __frozen__=True, **f)
            core = st.new_obj("SamplerCore", __module__=CORE_)
            info.update(f=f, core=core)
            return dict(self_val=core, args=[cfg, Opaque("state")])

        def post(I, o, pre, clustering=clustering, cap_given=cap_given, blobs=blobs):
            st = o.state
            f = info["f"]
            c = st.cell(info["core"])
            g = []
            MISSING = object()

            def attr(obj, name):
                v = c.get(obj)
                if not isinstance(v, Ref):
                    return None
                return st.cell(v).get(name, MISSING)

            def same(a, b):
                if a is MISSING:
                    return False
                if a is b:
                    return True
                if isinstance(a, Opaque) or isinstance(b, Opaque) or a is None or b is None or isinstance(a, (str, bool)) or isinstance(b, (str, bool)):
                    if z3.is_expr(a) or z3.is_expr(b):
                        if isinstance(a, bool) or isinstance(b, bool):
                            return to_z3(a) == to_z3(b)
                        return False
                    return type(a) == type(b) and not isinstance(a, Opaque) and a == b
                try:
                    return to_z3(a) == to_z3(b)
                except Exception:
                    return False

            def want(comp, name, value, why):
                got = attr(comp, name)
                g.append((f"{comp}.{name} is the configured value ({why})", same(got, value)))
            want("reweighter", "n_particles", f["n_particles"], "ESS target, C05")
            want("reweighter", "ess_ratio", f["ess_ratio"], "ESS target, C05")
            want("reweighter", "volume_variation", f["volume_variation"], "metric mode, C05")
            want("resampler", "n_particles", f["n_particles"], "exactly n_particles resampled, C06")
            want("resampler", "resample", f["resample"], "validated scheme")
            want("resampler", "have_blobs", blobs, "blobs gathered iff returned, C07")
            want("resampler", "clustering", clustering, "clusterer None iff clustering off")
            want("mutator", "have_blobs", blobs, "blobs stored iff returned, C07")
            want("mutator", "n_particles", f["n_particles"], "prior batch size")
            want("mutator", "n_dim", f["n_dim"], "unit-cube dimension")
            want("mutator", "sampler", f["sample"], "kernel selection")
            want("mutator", "periodic", f["periodic"], "validated index set, C16")
            want("mutator", "reflective", f["reflective"], "validated index set, C16")
            want("mutator", "n_steps", f["n_steps"], ">= 1 after __post_init__")
            want("mutator", "n_max_steps", f["n_max_steps"], ">= 1 after __post_init__")
            want("trainer", "cluster_every", f["cluster_every"], "refit cadence, C14")
            want("trainer", "clustering", clustering, "clusterer None iff clustering off")
            tc, rc = attr("trainer", "clusterer"), attr("resampler", "clusterer")
            if clustering:
                ok = isinstance(tc, Ref) and isinstance(rc, Ref) and tc.oid == rc.oid
                g.append(("one clusterer object shared by Trainer and Resampler", ok))
                if ok:
                    k = st.cell(tc)
                    g.append(("clusterer.max_iterations gives the configured cap (K <= 1 + max_iterations)",
                              same(k.get("max_iterations", MISSING), (f["n_max_clusters"] - 1) if cap_given else 1000)))
                    g.append(("clusterer.covariance_type is 'full'", k.get("covariance_type") == "full"))
                    g.append(("clusterer.normalize is the configured switch", same(k.get("normalize", MISSING), f["normalize"])))
                    g.append(("clusterer.threshold_modifier is the configured split threshold", same(k.get("threshold_modifier", MISSING), f["split_threshold"])))
            else:
                g.append(("no clusterer when clustering is off", tc is None and rc is None))
            return [(nm, v if not isinstance(v, bool) else z3.BoolVal(v)) for nm, v in g]
        ex = extras()
        # a non-positive split threshold is refused by the clustering model's own constructor (still at sampler construction, before
        # any likelihood call): a rejecting path, allowed here
        ctx.verify(f"wiring:clustering={int(clustering)},cap={int(cap_given)},blobs={int(blobs)}", CORE_, "SamplerCore.__init__", setup, post,
                   extras=ex, replayer="c18_run", allowed_raises=("ValueError",))


def wiring(ctx):
    """SamplerCore.__init__ hands every component the configuration value its contract is stated over (syntactic facts
    about the constructor calls; definitive)."""
    mods = ctx.mods
    idx = eff.qualname_index(mods)
    f = idx.get(("tempest.core", "SamplerCore.__init__"))
    if f is None:
        ctx.add(ObResult("C18/wiring/SamplerCore.__init__/exists", "error", detail="not found"))
        return
    calls = {}
    for n in ast.walk(f):
        if isinstance(n, ast.Call):
            d = eff.dotted(n.func)
            if d:
                calls.setdefault(d.split(".")[-1], []).append(n)

    def expect(component, kw, want_src, why):
        cs = calls.get(component, [])
        ok, got = False, None
        if len(cs) == 1:
            e = kwarg_expr(cs[0], kw)
            got = ast.unparse(e) if e is not None else None
            ok = got is not None and got.replace(" ", "") == want_src.replace(" ", "")
        ctx.add(ObResult(f"C18/wiring/{component}.{kw}", "discharged" if ok else "violated", "pyvc-eff", 0.0, 1,
                         "" if ok else f"{component}({kw}=...) is `{got}`, contract expects `{want_src}`: {why}", kind="effect",
                         line=cs[0].lineno if cs else None))
    expect("Resampler", "n_particles", "config.n_particles", "exactly n_particles are resampled (C06)")
    expect("Resampler", "resample", "config.resample", "validated value set {mult, syst} makes the if/elif total")
    expect("Resampler", "have_blobs", "config.blobs_dtype is not None", "blobs are gathered iff the likelihood returns them (C07)")
    expect("Mutator", "have_blobs", "config.blobs_dtype is not None", "blobs stored iff returned (C07)")
    expect("Mutator", "n_particles", "config.n_particles", "prior batch size (C07, C13)")
    expect("Mutator", "n_dim", "config.n_dim", "unit-cube dimension")
    expect("Mutator", "sampler", "config.sample", "kernel selection")
    expect("Mutator", "periodic", "config.periodic", "validated index set (C16 precondition)")
    expect("Mutator", "reflective", "config.reflective", "validated index set (C16 precondition)")
    expect("Mutator", "n_steps", "config.n_steps", ">= 1 after __post_init__")
    expect("Mutator", "n_max_steps", "config.n_max_steps", ">= 1 after __post_init__")
    expect("Reweighter", "n_particles", "config.n_particles", "ESS target (C05)")
    expect("Reweighter", "ess_ratio", "config.ess_ratio", "ESS target (C05)")
    expect("Reweighter", "volume_variation", "config.volume_variation", "metric mode (C05)")
    expect("Trainer", "cluster_every", "config.cluster_every", "refit cadence (C14)")
    expect("Trainer", "clustering", "config.clustering", "clusterer is None iff clustering is off")
    expect("Resampler", "clustering", "config.clustering", "clusterer is None iff clustering is off")
    expect("HierarchicalGaussianMixture", "max_iterations", "1000 if config.n_max_clusters is None else config.n_max_clusters - 1",
           "K <= 1 + max_iterations gives the configured cluster cap (C15)")
    expect("HierarchicalGaussianMixture", "covariance_type", "'full'", "the only structure the property covers (C15)")
    expect("HierarchicalGaussianMixture", "normalize", "config.normalize", "normalisation switch")
    expect("HierarchicalGaussianMixture", "threshold_modifier", "config.split_threshold", "split threshold")
    # the same clusterer object goes to Trainer and Resampler (labels and modes come from one model)
    same = all(len(calls.get(c, [])) == 1 and kwarg_expr(calls[c][0], "clusterer") is not None
               and ast.unparse(kwarg_expr(calls[c][0], "clusterer")) == "clusterer" for c in ("Trainer", "Resampler"))
    ctx.add(ObResult("C18/wiring/one-clusterer-shared-by-Trainer-and-Resampler", "discharged" if same else "violated", "pyvc-eff",
                     0.0, 1, "" if same else "Trainer and Resampler do not receive the same clusterer variable", kind="effect"))
    ctx.fuc("tempest.core", "SamplerCore.__init__")


VALIDATED = ("n_dim", "n_particles", "ess_ratio", "volume_variation", "sample", "resample", "vectorize", "blobs_dtype", "periodic",
             "reflective", "n_steps", "n_max_steps", "clustering", "normalize", "cluster_every", "split_threshold", "n_max_clusters",
             "pool", "prior_transform", "random_state", "output_dir", "output_label")


def forwarding(ctx):
    """The contract above is stated on SamplerConfig.__post_init__: the public constructor must hand it the user's own values.
    Sampler.__init__ passes every validated option to SamplerConfig(...) as the bare parameter (no conversion, truncation or
    defaulting in between); the likelihood goes through FunctionWrapper, which only stores it.  A non-identity argument is
    *undecided* here (a conversion may be harmless) and is settled by the native construction contract (c18_config)."""
    idx = eff.qualname_index(ctx.mods)
    f = idx.get(("tempest.sampler", "Sampler.__init__"))
    ctx.fuc("tempest.sampler", "Sampler.__init__")
    if f is None:
        ctx.add(ObResult("C18/forwarding/Sampler.__init__/exists", "error", detail="not found"))
        return
    params = {a.arg for a in f.args.args + f.args.kwonlyargs}
    calls = [n for n in ast.walk(f) if isinstance(n, ast.Call) and (eff.dotted(n.func) or "").split(".")[-1] == "SamplerConfig"]
    if len(calls) != 1:
        ctx.add(ObResult("C18/forwarding/one-SamplerConfig-construction", "unknown", detail=f"{len(calls)} SamplerConfig(...) calls in Sampler.__init__")).replayer = "c18_config"
        return
    call = calls[0]
    rebinds = {}
    for n in ast.walk(f):
        tg = n.targets if isinstance(n, ast.Assign) else ([n.target] if isinstance(n, (ast.AugAssign, ast.AnnAssign)) else [])
        for t in tg:
            for x in ast.walk(t):
                if isinstance(x, ast.Name) and x.id in params and isinstance(x.ctx, ast.Store):
                    rebinds.setdefault(x.id, []).append(n.lineno)
    for name in VALIDATED:
        if name not in params:
            continue
        e = kwarg_expr(call, name)
        got = ast.unparse(e) if e is not None else None
        ok = got == name and name not in rebinds
        why = "" if ok else (f"SamplerConfig({name}=...) receives `{got}`" + (f"; `{name}` is re-bound at line(s) {rebinds[name]}" if name in rebinds else "") +
                             f": the value validated is not the value the user passed")
        r = ctx.add(ObResult(f"C18/forwarding/Sampler.__init__:{name}-reaches-SamplerConfig-unchanged", "discharged" if ok else "unknown", "pyvc-eff",
                             0.0, 1, why, kind="effect", line=call.lineno))
        r.replayer = "c18_config"
    if call.args:
        ctx.add(ObResult("C18/forwarding/keyword-only-construction", "unknown", detail="positional arguments in SamplerConfig(...)")).replayer = "c18_config"


def termination(ctx):
    """Inner loops of a run terminate (part of 'runs to completion'): each `while` loop below has a variant checked on the real
    source — an integer that is non-negative whenever the body runs and decreases on every path back to the head, or a gap that is
    at least halved while it is still >= a positive tolerance (Lean: Term.lean).  The contracts are those of the owning property
    (C05, C06, C07, C15, C19, C20), re-run here with the variant switched on.  The outer annealing loop (`while self._not_termination()`)
    has no variant: whether beta reaches 1 depends on the likelihood (bounded stand-in below)."""
    from . import lean as _lean, c05
    _lean.require(ctx, "Term.lean", ["halving_terminates", "int_variant_terminates"])
    n0 = len(ctx.results)
    c05.o1(ctx)
    c05.o2(ctx, False)
    c05.o2(ctx, True)
    from . import c06, c07, c15, c19, c20
    old = getattr(ctx, "replayer_override", None)
    ctx.replayer_override = "c18_run"
    ctx.parallel([lambda c: c20.trim(c), lambda c: c06.systematic(c, "sum-exactly-one"), lambda c: c06.systematic(c, "renormalised"),
                  lambda c: c19.dof_structure(c), lambda c: c07.mcmc_run(c, "RWMRunner", False), lambda c: c07.mcmc_run(c, "TPCNRunner", True),
                  lambda c: adaptive_steps_cap(c), lambda c: c15.hier_fit(c, True, True), lambda c: c15.hier_fit(c, False, False)])
    ctx.replayer_override = old
    for r in ctx.results[n0:]:
        r.replayer = "c18_run"


def adaptive_steps_cap(ctx):
    """Postcondition of BaseMCMCRunner._calculate_adaptive_steps used by the MCMC loop's variant: the step count it returns never
    exceeds n_max * n_dim.  Slice VC on its last statements (`n_steps_max = self.n_max * self.n_dim; return int(min(x, n_steps_max))`)."""
    from pyvc.state import State
    from pyvc.values import engine_errors
    MC = "tempest.mcmc"
    f = eff.qualname_index(ctx.mods).get((MC, "BaseMCMCRunner._calculate_adaptive_steps"))
    ctx.fuc(MC, "BaseMCMCRunner._calculate_adaptive_steps")
    oid = "C18/mcmc.BaseMCMCRunner._calculate_adaptive_steps/result-at-most-n_max-times-n_dim"
    if f is None or not isinstance(f.body[-1], ast.Return):
        ctx.add(ObResult(oid, "unknown", detail="function or final return not found")).replayer = "c18_run"
        return
    # the statements from the assignment of n_steps_max to the return
    k0 = next((k for k, s_ in enumerate(f.body) if isinstance(s_, ast.Assign) and any(isinstance(t, ast.Name) and t.id == "n_steps_max" for t in s_.targets)), None)
    if k0 is None:
        ctx.add(ObResult(oid, "unknown", detail="no assignment to n_steps_max")).replayer = "c18_run"
        return
    I = ctx.interp()
    I.cur.append((MC, "BaseMCMCRunner._calculate_adaptive_steps"))
    st = State()
    n_max, n_dim = fresh_scalar("int", "n_max"), fresh_scalar("int", "n_dim")
    st.assume(z3.And(n_max >= 1, n_dim >= 1))
    runner = st.new_obj("BaseMCMCRunner", __module__=MC, n_max=n_max, n_dim=n_dim)
    free = sorted({n.id for s_ in f.body[k0:] for n in ast.walk(s_) if isinstance(n, ast.Name) and isinstance(n.ctx, ast.Load)}
                  - {"self", "int", "min", "max", "n_steps_max", "np"})
    st.env = {"self": runner}
    for nm in free:
        st.env[nm] = fresh_scalar("real", nm)        # whatever was computed before: any real
    try:
        outs = [o for o in I.exec_block(f.body[k0:], st, MC) if o.kind == "return"]
    except engine_errors() as e:
        ctx.add(ObResult(oid, "unknown", detail=f"outside the supported subset: {type(e).__name__}: {str(e)[:200]}")).replayer = "c18_run"
        return
    if not outs:
        ctx.add(ObResult(oid, "unknown", detail="no returning path")).replayer = "c18_run"
        return
    for j, o in enumerate(outs):
        r = ctx.lemma(f"mcmc.BaseMCMCRunner._calculate_adaptive_steps/result-at-most-n_max-times-n_dim#{j}", list(o.state.pc),
                      to_z3(o.value, "int") <= n_max * n_dim, kind="vc")
        r.replayer = "c18_run"


def bounded_runs(ctx):
    """'Every combination of valid option values runs to completion': not a contract on one call (termination, numerical
    exceptions).  Bounded stand-in named by the property's own quantifier: a pairwise (quick) / 3-wise (thorough) covering array of
    the option product, each configuration run natively with the run postconditions checked."""
    import os
    from pyvc import replay
    strength = 3 if os.environ.get("VERIF_TIER") == "thorough" else 2
    res = replay.run_replayer("c18_run", {"input": None, "strength": strength, "seed": int(os.environ.get("VERIF_SEED", "0") or 0)}, timeout=3000)
    ctx.bounded.append({"clause": "every combination of valid option values runs to completion and satisfies the run postconditions",
                        "bound": f"{strength}-wise covering array over 13 option factors (replayers/c18_run.py), n_total=64, 2-d target", "result": res,
                        "cases": res.get("tried")})
    st = "violated" if res.get("reproduced") else ("discharged" if res.get("tried") else "unknown")
    r = ObResult(f"C18/native/valid-configurations-run-to-completion:{strength}-wise", st, "native", 0.0, 1, str(res.get("detail")), kind="bounded",
                 witness={"replayer": "c18_run", "input": res.get("input")})
    r.replayer = "c18_run"
    r.replayed = res
    ctx.add(r)


def fit_precondition_cover(ctx):
    """The proofs of C14/C19 *assume* fit_mvstud's non-degeneracy precondition at the from_particles call site (listed in the trusted
    base): nothing on the path establishes it.  This is the obligation a caller is checked against; it is not provable, so the real code
    is asked directly (bounded, replayers/c18_sparse.py): sparse-support runs whose resampled per-cluster training set degenerates."""
    from pyvc import replay as _rp
    import time
    t0 = time.time()
    oid = "C18/modes.ModeStatistics.from_particles/call:fit_mvstud:non-degenerate-subset"
    res = _rp.run_replayer("c18_sparse", {"obligation": oid, "input": None}, timeout=600)
    if res.get("reproduced"):
        r = ObResult(oid, "violated", "native", time.time() - t0, int(res.get("tried") or 1), str(res.get("detail"))[:700], kind="bounded",
                     witness={"replayer": "c18_sparse", "input": res.get("input")})
        r.replayed = res
    elif "ran to completion" in str(res.get("detail")):
        r = ObResult(oid, "discharged", "native", time.time() - t0, int(res.get("tried") or 1), str(res.get("detail"))[:300], kind="bounded")
    else:
        r = ObResult(oid, "unknown", "native", time.time() - t0, 1, "replayer gave no verdict: " + str(res)[:300], kind="bounded")
    ctx.add(r)
    ctx.bounded.append({"clause": "the precondition of fit_mvstud (non-degenerate subset) at the from_particles call site, assumed by the C14/C19 proofs: asked of the real code",
                        "bound": "4 fixed sparse-support configurations (support fraction 0.05, ess_ratio 1, 200 particles; replayers/c18_sparse.py)", "cases": int(res.get("tried") or 0)})


def run(ctx):
    ctx.parallel(well_typed_product(ctx) + ill_typed(ctx))
    fit_precondition_cover(ctx)
    no_likelihood_call_at_construction(ctx)
    wiring_sym(ctx)        # (the earlier textual comparison of constructor keywords, `wiring`, is superseded: it flagged equivalent refactorings)
    forwarding(ctx)
    from . import c08
    c08.picklable_core(ctx, replayer="c18_run")
    termination(ctx)
    bounded_runs(ctx)
    # O4: inter-component preconditions along a run, for every valid configuration (cluster_every >= 1, clustering on/off, both
    # resamplers): the contracts proved under C14 are re-established here so that a constructor/Trainer pair that disagrees on the
    # "not fitted yet" sentinel, or a pipeline order that breaks a callee's precondition, fails under this property too
    from . import c14
    n0 = len(ctx.results)
    c14.clusterer_init(ctx)
    for cl_on in (True, False):
        c14.trainer(ctx, cl_on)
        c14.iteration(ctx, cl_on)
    for r in ctx.results[n0:]:
        r.replayer = "c14_modes"
    ctx.trust("dataclass(frozen=True) semantics: fields are assigned, then __post_init__ runs; object.__setattr__ bypasses the freeze",
              "pathlib.Path(str) yields a Path", "callable(f) for the user's functions",
              "set(list)/intersection/truthiness/any over index collections (pysets model)",
              "bool is a subclass of int in Python (n_dim=True is 1): not treated as ill-typed",
              "name-based call graph over-approximates the dynamic one (no reflection in the package: scan)")
    refl = eff.scan_reflection(ctx.mods)
    if refl:
        ctx.notes.append(f"reflection sites (limit the call-graph argument): {refl}")
    ctx.undecided_clauses.append("'every combination of valid option values runs to completion without raising': termination of the "
                                 "*outer* annealing loop (beta reaching 1) and absence of numerical exceptions inside numpy/scipy are not "
                                 "decidable by contracts (the inner loops have checked variants; bounded covering-array runs stand in); the inter-component preconditions along the run are the obligations of "
                                 "C05 (iter not None, beta range), C06 (p normalised, index ranges), C08 (frozen config, resume), "
                                 "C13 (pool has a map), C14 (clusterer fitted before predict, labels index existing modes)")
