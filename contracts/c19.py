"""C19 — Student-t proposal fit is well-posed and equivariant (DESIGN §2/C19).

R1  equivariance: fit_mvstud is checked against an *equivariance type system* (contracts on the numpy primitives it uses, each a
    true algebraic fact about the group of per-coordinate scalings D > 0, translations t and coordinate permutations P):
      LOC  transforms like a point (g.v)        DIFF columns transform with D, P only (translation-free)
      COV  transforms like D S D / P S P^T      DUAL columns transform with D^-1, P        VARV per-coordinate variances (D^2)
      INV  invariant scalars / per-sample arrays (distances, weights, degrees of freedom, counts)
    A typing derivation for every statement, with loop-carried variables keeping their types and the result typed (LOC, COV, INV),
    proves by structural induction that the returned triple is equivariant (over the reals).
O1  location: every mu the routine can return is the coordinate-wise median or sum_i w_i x_i / sum_i w_i with w_i > 0 -> inside the
    bounding box (weighted-average lemma), finite.
O2  scale: (1/n) sum_i w_i diff_i diff_i^T — symmetric with non-negative diagonal (Gram form).
O3  dof: the returned nu is +inf, the initial 20, or a root returned by bisect inside [1e-300, 1e300]: nu in (0, inf].
O4  fallback: both ModeStatistics constructors store the *configured* dof_fallback whenever the fitted dof is not finite.
"""
import ast
import z3

from pyvc.interp import LoopSpec
from pyvc.values import Ref, Arr, Opaque, Unsupported, PyRaise, to_z3, fresh_scalar, fresh_arr, fresh_name, is_conc
from pyvc import npmodel, symlist, eff
from pyvc.framework import ObResult
from pyvc.state import State
from pyvc.theories import sums, real
from .common import *  # noqa

ST, MODES = "tempest.student", "tempest.modes"


# ------------------------------------------------------------------------------------------ R1: equivariance typing
class TypeErr(Exception):
    def __init__(self, node, msg):
        self.node, self.msg = node, msg


INVT = {"INVS", "INVN"}


def join_inv(a, b):
    return "INVN" if "INVN" in (a, b) else "INVS"


class Equiv:
    def __init__(self, fdef, is_closure=False):
        self.fdef = fdef
        self.is_closure = is_closure
        self.env = {}
        self.closures = {}
        self.changed = False

    def bind(self, name, t, node):
        # flow-sensitive: a straight-line rebinding may change the type; loops check that their body preserves the types (below)
        if self.env.get(name) != t:
            self.env[name] = t
            self.changed = True

    def call_name(self, c):
        return eff.dotted(c.func) or ""

    def ty(self, e):
        if isinstance(e, ast.Constant):
            return "INVS"
        if isinstance(e, ast.Name):
            if e.id in self.env:
                return self.env[e.id]
            if e.id in ("tolerance", "max_iter"):
                return "INVS"
            raise TypeErr(e, f"unknown variable `{e.id}`")
        if isinstance(e, ast.Attribute):
            base = self.ty(e.value) if not (isinstance(e.value, ast.Name) and e.value.id in ("np", "special", "optimize")) else None
            if e.attr == "T":
                return {"DATA_T": "DATA", "DATA": "DATA_T", "DIFF": "DIFF_T", "DIFF_T": "DIFF", "LOC": "LOC", "COV": "COV"}.get(base) or \
                    self.err(e, f"transpose of {base}")
            if e.attr == "shape":
                return "INVS"
            if e.attr == "inf" and base is None:
                return "INVS"
            raise TypeErr(e, f"attribute .{e.attr}")
        if isinstance(e, ast.Tuple):
            return tuple(self.ty(x) for x in e.elts)
        if isinstance(e, ast.List):
            ts = [self.ty(x) for x in e.elts]
            if len(ts) == 1 and ts[0] in ("LOC", "WAVG"):
                return ts[0]
            raise TypeErr(e, "list literal")
        if isinstance(e, ast.Subscript):
            b = self.ty(e.value)
            if b == "LOC":
                return "LOC"
            if isinstance(b, tuple) and isinstance(e.slice, ast.Constant):
                return b[e.slice.value]
            raise TypeErr(e, f"subscript of {b}")
        if isinstance(e, ast.UnaryOp):
            t = self.ty(e.operand)
            if t in INVT:
                return t
            raise TypeErr(e, f"unary operator on {t}")
        if isinstance(e, ast.Compare):
            ts = [self.ty(e.left)] + [self.ty(c) for c in e.comparators]
            if all(t in INVT for t in ts):
                return "INVS"
            raise TypeErr(e, f"comparison of {ts}: control flow would depend on the coordinate system")
        if isinstance(e, ast.BoolOp):
            for v in e.values:
                if self.ty(v) not in INVT:
                    raise TypeErr(e, "boolean of non-invariant")
            return "INVS"
        if isinstance(e, ast.BinOp):
            return self.binop(e)
        if isinstance(e, ast.Call):
            return self.call(e)
        raise TypeErr(e, f"expression {type(e).__name__}")

    def err(self, node, msg):
        raise TypeErr(node, msg)

    def binop(self, e):
        l, r = self.ty(e.left), self.ty(e.right)
        op = type(e.op)
        if l in INVT and r in INVT:
            return join_inv(l, r)
        if op in (ast.Mult,):
            for a, b in ((l, r), (r, l)):
                if a in INVT and b in ("COV", "DIFF", "VARV", "EYE", "DUAL"):
                    if a == "INVN" and b not in ("DIFF", "DUAL"):
                        raise TypeErr(e, f"per-sample weights times {b}")
                    return b
                if a == "INVN" and b == "DATA":
                    return "WDATA"
            if {l, r} == {"DIFF", "DUAL"}:
                return "PAIR"
        if op is ast.Div and r in INVT and l in ("COV", "DIFF", "VARV", "EYE"):
            return l
        if op is ast.Div and l == "WSUM" and r == "WTOT":
            return "LOC"
        if op in (ast.Add, ast.Sub) and l == r and l in ("COV", "DIFF"):
            return l
        if op is ast.Sub and l == "DATA" and r == "LOC":
            return "DIFF"
        if op is ast.Add and {l, r} == {"COV", "EYE"}:
            raise TypeErr(e, "a multiple of the identity added to a covariance-like matrix is not equivariant under per-coordinate scaling")
        raise TypeErr(e, f"`{ast.unparse(e)[:60]}` combines {l} and {r}: no transformation law")

    def kw(self, c, name):
        for k in c.keywords:
            if k.arg == name:
                return k.value
        return None

    def axis_of(self, c):
        a = self.kw(c, "axis")
        if a is None and len(c.args) > 1:
            a = c.args[1]
        return a.value if isinstance(a, ast.Constant) else None

    def call(self, c):
        d = self.call_name(c)
        last = d.split(".")[-1]
        args = c.args
        if d in self.closures:
            for a in args:
                if self.ty(a) not in INVT:
                    raise TypeErr(c, f"non-invariant argument to {d}")
            return "INVS"
        if last == "median":
            t, ax = self.ty(args[0]), self.axis_of(c)
            if t == "DATA" and ax == 1:
                return "LOC"
            raise TypeErr(c, f"median of {t} along axis {ax}")
        if last == "array":
            return self.ty(args[0])
        if last == "cov":
            if self.ty(args[0]) == "DATA" and not c.keywords:
                return "COV"
            raise TypeErr(c, "np.cov of something that is not the (dim, n) data matrix")
        if last == "var":
            t, ax = self.ty(args[0]), self.axis_of(c)
            if t == "DATA" and ax == 1:
                return "VARV"
            raise TypeErr(c, f"np.var of {t} with axis={ax}: pooling the variance over coordinates is not equivariant under per-coordinate scaling")
        if last == "diag":
            if self.ty(args[0]) == "VARV":
                return "COV"
            raise TypeErr(c, "np.diag of a non-variance vector")
        if last in ("eye", "identity"):
            return "EYE"
        if last == "solve":
            a, b = self.ty(args[0]), self.ty(args[1])
            if a == "COV" and b == "DIFF":
                return "DUAL"
            raise TypeErr(c, f"solve({a}, {b})")
        if d == "sum":
            if self.ty(args[0]) == "INVN":
                return "WTOT"
            raise TypeErr(c, "builtin sum of a non-invariant array")
        if last == "sum":
            t = self.ty(args[0])
            ax = self.axis_of(c)
            if t == "PAIR" and ax == 0:
                return "INVN"
            if t in INVT:
                return "INVS" if ax is None else t
            if t == "WDATA" and ax == 1:
                return "WSUM"
            raise TypeErr(c, f"sum of {t} along axis {ax}")
        if d == "sum":
            if self.ty(args[0]) == "INVN":
                return "WTOT"
            raise TypeErr(c, "builtin sum of a non-invariant array")
        if last == "dot":
            a, b = self.ty(args[0]), self.ty(args[1])
            if a == "DIFF" and b == "DIFF_T":
                return "COV"
            raise TypeErr(c, f"dot({a}, {b})")
        if last in ("abs", "log", "exp", "sqrt", "psi", "gammaln", "isfinite", "float", "int", "len", "print"):
            for a in args:
                if self.ty(a) not in INVT:
                    raise TypeErr(c, f"{last} of a non-invariant quantity")
            return join_inv(*[self.ty(a) for a in args], ) if len(args) == 2 else (self.ty(args[0]) if args else "INVS")
        if last == "bisect":
            return "INVS"
        raise TypeErr(c, f"call of {d}: no equivariance contract")

    def closure_ok(self, f):
        """nested helper (opt_nu / func0): uses only its parameters, dim, n and scalar functions"""
        sub = Equiv(f, is_closure=True)
        sub.env = {k: v for k, v in self.env.items() if v in INVT}      # enclosing scope (invariant quantities only)
        sub.env.update({a.arg: "INVN" if a.arg == "delta_iobs" else "INVS" for a in f.args.args})
        sub.env.update({"dim": "INVS", "n": "INVS"})
        sub.closures = dict(self.closures)
        sub.run_body(f.body)

    def run_body(self, body):
        self.stmts(body)          # one flow-sensitive pass; loops compute their own fixpoint

    def stmts(self, body):
        for s in body:
            if isinstance(s, ast.FunctionDef):
                self.closures[s.name] = s
                self.closure_ok(s)
            elif isinstance(s, ast.Expr):
                if isinstance(s.value, ast.Constant):
                    continue
                self.ty(s.value)
            elif isinstance(s, ast.Assign):
                t = self.ty(s.value)
                for tg in s.targets:
                    if isinstance(tg, ast.Name):
                        self.bind(tg.id, t, s)
                    elif isinstance(tg, ast.Tuple) and t == "INVS":
                        for x in tg.elts:
                            self.bind(x.id, "INVS", s)
                    else:
                        raise TypeErr(s, "assignment target")
            elif isinstance(s, ast.AugAssign):
                t = self.ty(ast.BinOp(left=s.target, op=s.op, right=s.value))
                self.bind(s.target.id, t, s)
            elif isinstance(s, ast.If):
                if self.ty(s.test) not in INVT:
                    raise TypeErr(s, "branch on a non-invariant quantity")
                before = dict(self.env)
                self.stmts(s.body)
                after_then = dict(self.env)
                self.env = dict(before)
                self.stmts(s.orelse)
                for k in set(after_then) & set(self.env):
                    a, b = after_then[k], self.env[k]
                    if a != b:
                        if a in INVT and b in INVT:
                            self.env[k] = join_inv(a, b)
                        else:
                            raise TypeErr(s, f"variable `{k}` is {a} after one branch and {b} after the other")
            elif isinstance(s, ast.While):
                for _ in range(3):
                    if self.ty(s.test) not in INVT:
                        raise TypeErr(s, "loop condition on a non-invariant quantity")
                    before = dict(self.env)
                    self.stmts(s.body)
                    stable = True
                    for k in before:
                        a, b = before[k], self.env.get(k)
                        if a != b:
                            if a in INVT and b in INVT:
                                self.env[k] = join_inv(a, b)
                                stable = stable and (self.env[k] == a)
                            else:
                                raise TypeErr(s, f"loop-carried variable `{k}` is {a} at the loop head and {b} after one iteration: its "
                                                 f"transformation law is not preserved by the update")
                    if stable:
                        break
            elif isinstance(s, ast.Return):
                t = self.ty(s.value)
                if self.is_closure:
                    if t not in INVT:
                        raise TypeErr(s, f"helper returns {t}")
                    continue
                want = ("LOC", "COV", "INVS")
                if t != want:
                    raise TypeErr(s, f"returns {t}, expected (location, scale, dof) = {want}")
                self.returned = True
            else:
                raise TypeErr(s, f"statement {type(s).__name__}")


def equivariance(ctx):
    info = ctx.fuc(ST, "fit_mvstud")
    f = eff.qualname_index(ctx.mods).get((ST, "fit_mvstud"))
    if f is None:
        return
    chk = Equiv(f)
    chk.env = {"data": "DATA_T"}
    status, detail, line = "discharged", "", None
    try:
        chk.run_body(f.body)
        if not getattr(chk, "returned", False):
            status, detail = "violated", "no typed return"
    except TypeErr as e:
        status, line = "violated", getattr(e.node, "lineno", None)
        detail = f"line {line}: {e.msg}"
    r = ctx.add(ObResult("C19/student.fit_mvstud/equivariance-typing", status, "pyvc-eff", 0.0, 1, detail, kind="effect", line=line))
    r.replayer = "c19_student"
    ctx.notes.append("equivariance types at exit: " + ", ".join(f"{k}:{v}" for k, v in sorted(chk.env.items()) if isinstance(v, str)))


# ------------------------------------------------------------------------------------------ O3: degrees of freedom
def dof_structure(ctx):
    """fit_mvstud with matrices abstract (shapes only): control flow, the dof that can be returned, preconditions of bisect / solve."""
    info = {}
    POS = z3.Function("dof_value_positive", z3.RealSort(), z3.BoolSort())

    def fresh_like(shape, nm):
        return lambda st: st.new_arr(fresh_arr(shape, "real", nm))

    def h_median(I, st, args, kw, node):
        a = st.arr(args[0])
        return st.new_arr(fresh_arr((a.shape[0],), "real", "median"))

    def h_cov(I, st, args, kw, node):
        a = st.arr(args[0])
        return st.new_arr(fresh_arr((a.shape[0], a.shape[0]), "real", "cov"))

    def h_var(I, st, args, kw, node):
        a = st.arr(args[0])
        if kw.get("axis") == 1:
            return st.new_arr(fresh_arr((a.shape[0],), "real", "var"))
        return fresh_scalar("real", "var_all")

    def h_diag(I, st, args, kw, node):
        a = st.arr(args[0])
        return st.new_arr(fresh_arr((a.shape[0], a.shape[0]), "real", "diag"))

    def h_solve(I, st, args, kw, node):
        b = st.arr(args[1])
        return st.new_arr(fresh_arr(b.shape, "real", "solved"))

    def h_sum(I, st, args, kw, node):
        a = npmodel.arr_of(st, args[0])
        ax = kw.get("axis", args[1] if len(args) > 1 else None)
        if a is not None and a.ndim == 2 and ax in (0, 1):
            out = fresh_arr((a.shape[1 - ax],), "real", "colsum")
            if st.ghost.get("__delta_next__"):
                q = z3.Int(fresh_name("q"))
                st.assume(z3.ForAll([q], out.at(q) >= 0, patterns=[out.at(q)]))      # Mahalanobis distances under an SPD scale (solve contract)
            return st.new_arr(out)
        if a is not None and a.ndim == 1:
            return fresh_scalar("real", "sum")
        return fresh_scalar("real", "sum")

    def h_dot(I, st, args, kw, node):
        a, b = st.arr(args[0]), st.arr(args[1])
        return st.new_arr(fresh_arr((a.shape[0], b.shape[1]), "real", "dot"))

    def h_psi(I, st, args, kw, node):
        return fresh_scalar("real", "psi")

    def h_bisect(I, st, args, kw, node):
        """scipy.optimize.bisect(f, a, b): requires f(a) f(b) < 0 (ValueError otherwise); returns a root inside [a, b]."""
        a, b = to_z3(args[1], "real"), to_z3(args[2], "real")
        ok = is_conc(args[1]) and is_conc(args[2]) and 0 < args[1] < args[2] < float("inf")
        I.oblige(f"call:bisect:bracket-is-a-positive-finite-interval@{node.lineno}", st, bool(ok), node,
                 note="the returned root is the degrees of freedom: it must lie in (0, inf)")
        st.ghost["bisect"] = st.ghost.get("bisect", []) + [(args[1], args[2])]
        r = fresh_scalar("real", "nu_root")
        st.assume(z3.And(r >= a, r <= b))
        return r

    def h_builtin_sum(I, st, args, kw, node):
        a = npmodel.arr_of(st, args[0])
        s_ = fresh_scalar("real", "wsum")
        st.assume(s_ > 0) if st.ghost.get("__weights_positive__") else None
        return s_

    INF = Opaque("inf", sign=1)

    def c_inf(I, st):
        return st.ghost.setdefault("__INF__", fresh_scalar("real", "INF"))

    ex = {"numpy.median": h_median, "numpy.cov": h_cov, "numpy.var": h_var, "numpy.diag": h_diag, "numpy.linalg.solve": h_solve,
          "numpy.sum": h_sum, "numpy.dot": h_dot, "scipy.special.psi": h_psi, "scipy.optimize.bisect": h_bisect, "builtins.sum": h_builtin_sum,
          ("const", "numpy.inf"): c_inf}

    def setup(I, st):
        n, d = fresh_scalar("int", "n"), fresh_scalar("int", "dim")
        st.assume(z3.And(n >= 2, d >= 1))
        INFv = fresh_scalar("real", "INF")
        st.assume(INFv > z3.RealVal(10) ** 300)
        st.ghost["__INF__"] = INFv
        mi = fresh_scalar("int", "max_iter")
        tol = fresh_scalar("real", "tolerance")
        st.assume(z3.And(mi >= 0, tol > 0))
        info.update(n=n, d=d, INF=INFv, mi=mi)
        return dict(args=[st.new_arr(fresh_arr((n, d), "real", "data"))], kwargs=dict(tolerance=tol, max_iter=mi))

    def inv(v):
        st = v.state
        nu = to_z3(st.env["nu"], "real")
        INFv = st.ghost["__INF__"]
        i = to_z3(st.env["i"], "int")
        mu, Sg = v["mu"], v["Sigma"]
        return z3.And(nu > 0, nu < INFv, i >= 0, to_z3(mu.shape[0], "int") == info["d"], to_z3(mu.shape[1], "int") == 1 if mu.ndim == 2 else False,
                      to_z3(Sg.shape[0], "int") == info["d"], to_z3(Sg.shape[1], "int") == info["d"])

    def post(I, o, pre):
        st = o.state
        mu, Sg, nu = o.value
        INFv = st.ghost["__INF__"]
        nz = to_z3(nu, "real")
        M, S = st.arr(mu), st.arr(Sg)
        g = [("dof-positive-or-plus-infinity", z3.Or(nz == INFv, z3.And(nz > 0, nz < INFv))),
             ("location-has-dim-components", to_z3(M.shape[0], "int") == info["d"] if M.ndim == 1 else False),
             ("scale-is-dim-by-dim", z3.And(to_z3(S.shape[0], "int") == info["d"], to_z3(S.shape[1], "int") == info["d"]) if S.ndim == 2 else False)]
        for (a, b) in st.ghost.get("bisect", []):
            g.append(("bisect-bracket-is-[1e-300,1e300]", z3.And(to_z3(a, "real") == z3.RealVal(10) ** -300, to_z3(b, "real") == z3.RealVal(10) ** 300)))
        return g

    ctx.verify("", ST, "fit_mvstud", setup, post, extras=ex, loops={0: LoopSpec(inv, label="ecme", variant=(lambda v: ("int", info["mi"] - to_z3(v.state.env["i"], "int"))) if ctx.prop == "C18" else None)},
               replayer="c19_student",
               allowed_raises=())


# ------------------------------------------------------------------------------------------ O1/O2: the update statements (values)
def updates(ctx):
    """The statements of the ECME loop body that update Sigma and mu, executed at the value level (T-SUM)."""
    f = eff.qualname_index(ctx.mods).get((ST, "fit_mvstud"))
    if f is None:
        return
    loop = next((n for n in f.body if isinstance(n, ast.While)), None)
    stmts = []
    for s in (loop.body if loop else []):
        if isinstance(s, ast.Assign) and len(s.targets) == 1 and isinstance(s.targets[0], ast.Name) and s.targets[0].id in ("Sigma", "mu", "w_iobs"):
            stmts.append(s)
    names = [s.targets[0].id for s in stmts]
    if names[:2] != ["w_iobs", "Sigma"] or "mu" not in names:
        ctx.add(ObResult("C19/student.fit_mvstud/update-statements-found", "unknown", detail=f"unexpected update statements {names}")).replayer = "c19_student"
        return
    I = ctx.interp(extras={"builtins.sum": lambda I_, st_, args, kw, node: sums.total(st_, st_.arr(args[0]))})
    I.cur.append((ST, "fit_mvstud"))
    st = State()
    n, d = fresh_scalar("int", "n"), fresh_scalar("int", "dim")
    st.assume(z3.And(n >= 1, d >= 1))
    data = fresh_arr((d, n), "real", "data")
    mu0 = fresh_arr((d, 1), "real", "mu")
    delta = fresh_arr((n,), "real", "delta")
    nu = fresh_scalar("real", "nu")
    q, a = z3.Int(fresh_name("q")), z3.Int(fresh_name("a"))
    st.assume(nu > 0)
    st.assume(z3.ForAll([q], z3.Implies(z3.And(q >= 0, q < n), delta.at(q) >= 0), patterns=[delta.at(q)]))
    lo = z3.Function(fresh_name("lo"), z3.IntSort(), z3.RealSort())
    hi = z3.Function(fresh_name("hi"), z3.IntSort(), z3.RealSort())
    st.assume(z3.ForAll([a, q], z3.Implies(z3.And(a >= 0, a < d, q >= 0, q < n), z3.And(lo(a) <= data.at(a, q), data.at(a, q) <= hi(a))),
                        patterns=[data.at(a, q)]))
    diffs = Arr((d, n), lambda i, j: data.at(i, j) - mu0.at(i, 0), "real")
    st.env = {"data": st.new_arr(data), "mu": st.new_arr(mu0), "diffs": st.new_arr(diffs), "delta_iobs": st.new_arr(delta), "nu": nu, "dim": d, "n": n}
    try:
        outs = [o for o in I.exec_block(stmts, st, ST) if o.kind == "fall"]
    except __import__("pyvc.values", fromlist=["x"]).engine_errors() as e:
        ctx.add(ObResult("C19/student.fit_mvstud/update-statements/vc-generation", "unknown", detail=f"outside the supported subset: {type(e).__name__}: {str(e)[:200]}")).replayer = "c19_student"
        return
    if len(outs) != 1:
        ctx.add(ObResult("C19/student.fit_mvstud/update-statements/vc-generation", "unknown", detail="update statements fork or raise")).replayer = "c19_student"
        return
    sf = outs[0].state
    from pyvc import discharge
    for ob in I.obligations:
        discharge.discharge(ob, ctx.timeout_ms)
        ctx.add(ObResult(f"C19/student.fit_mvstud/update-statements/{ob.label.split('/', 1)[-1]}", ob.status, ob.backend or "z3", ob.time, 1,
                         ob.note or "", line=ob.line))
    w = sf.arr(sf.env["w_iobs"])
    Sg = sf.arr(sf.env["Sigma"])
    mu = sf.arr(sf.env["mu"])
    pc = list(sf.pc)
    wpos = z3.ForAll([q], z3.Implies(z3.And(q >= 0, q < n), w.at(q) > 0))
    r = ctx.lemma("student.fit_mvstud/update-statements/weights-positive", pc, wpos, kind="vc",
                  detail="w_i = (nu + dim)/(nu + delta_i) > 0 for nu > 0, delta_i >= 0")
    r.replayer = "c19_student"
    dots = sf.ghost.get("dots", [])
    if len(dots) >= 1 and Sg.ndim == 2:
        A, B, P = dots[-1]
        p1, c1 = sums.dot_cong_rule(sf, A, B, A, B, imap=lambda x, y: (y, x))
        p2, c2 = sums.dot_nonneg_rule(sf, A, B, diag_only=True)
        ctx.lemma("student.fit_mvstud/update-statements/scale:gram-symmetric-premise", pc + [wpos], p1, kind="vc").replayer = "c19_student"
        ctx.lemma("student.fit_mvstud/update-statements/scale:gram-diagonal-premise", pc + [wpos], p2, kind="vc").replayer = "c19_student"
        x, y = z3.Int(fresh_name("x")), z3.Int(fresh_name("y"))
        r = ctx.lemma("student.fit_mvstud/update-statements/scale:symmetric-with-nonnegative-diagonal", pc + [wpos, c1, c2],
                      z3.And(to_z3(Sg.shape[0], "int") == d, to_z3(Sg.shape[1], "int") == d,
                             z3.ForAll([x, y], z3.Implies(z3.And(x >= 0, x < d, y >= 0, y < d),
                                                          z3.And(Sg.at(x, y) == Sg.at(y, x), z3.Implies(x == y, Sg.at(x, y) >= 0))))), kind="vc")
        r.replayer = "c19_student"
    else:
        ctx.add(ObResult("C19/student.fit_mvstud/update-statements/scale:is-a-matrix-product", "unknown", detail="Sigma is not np.dot(...)/n")).replayer = "c19_student"
    # location: weighted average inside the box
    rows = [(arr, ax, P) for (arr, ax, P) in sf.ghost.get("sumarrs2", []) if ax == 1]
    tot = [(arr, P) for (arr, P) in sf.ghost.get("sumarrs", []) if arr is w or (arr.prov and arr.prov[0] == "copy" and arr.prov[1] is w)]
    if rows and mu.ndim == 2:
        WD, ax, PR = rows[-1]
        Wt = sums.prefix_fn(sf, w)
        # weighted-average bound for row sums: sum_i w_i x_ai in [lo_a sum w, hi_a sum w]   (L-SUM weighted bound, by induction)
        m = z3.Int(fresh_name("m"))
        prem = z3.Implies(z3.And(a >= 0, a < d, q >= 0, q < n), z3.And(lo(a) * w.at(q) <= WD.at(a, q), WD.at(a, q) <= hi(a) * w.at(q)))
        concl = z3.ForAll([a], z3.Implies(z3.And(a >= 0, a < d), z3.And(lo(a) * Wt(n - 1) <= PR(a, n - 1), PR(a, n - 1) <= hi(a) * Wt(n - 1))))
        ctx.lemma("student.fit_mvstud/update-statements/location:weighted-terms-bounded-premise", pc + [wpos], prem, kind="vc").replayer = "c19_student"
        pp, cp = sums.pos_rule(sf, w)
        ctx.lemma("student.fit_mvstud/update-statements/location:total-weight-positive-premise", pc + [wpos], pp, kind="vc").replayer = "c19_student"
        r = ctx.lemma("student.fit_mvstud/update-statements/location:inside-the-bounding-box", pc + [wpos, concl, cp],
                      z3.And(to_z3(mu.shape[0], "int") == d, to_z3(mu.shape[1], "int") == 1,
                             z3.ForAll([a], z3.Implies(z3.And(a >= 0, a < d), z3.And(lo(a) <= mu.at(a, 0), mu.at(a, 0) <= hi(a))))), kind="vc",
                      detail="mu_a = sum_i w_i x_ai / sum_i w_i with w_i > 0: a convex combination of the data")
        r.replayer = "c19_student"
    else:
        ctx.add(ObResult("C19/student.fit_mvstud/update-statements/location:is-a-weighted-average", "unknown", detail="mu is not a row sum over a total")).replayer = "c19_student"


# ------------------------------------------------------------------------------------------ O4: fallback
def fallback(ctx):
    from . import c14
    n0 = len(ctx.results)
    c14.from_particles(ctx, True)
    for r in ctx.results[n0:]:
        r.replayer = "c19_student"
    # from_global
    info = {}
    FIN = c14.FINITE

    def h_choice(I, st, args, kw, node):
        size = kw["size"]
        npop = to_z3(args[0], "int")
        p = st.arr(kw["p"])
        I.oblige(f"call:np.random.choice:p-is-a-distribution@{node.lineno}", st,
                 z3.And(to_z3(p.shape[0], "int") == npop, npop >= 1, sums.total(st, p) == 1), node)
        pick = fresh_arr((size,), "int", "pick")
        q = z3.Int(fresh_name("q"))
        st.assume(z3.ForAll([q], z3.Implies(z3.And(q >= 0, q < to_z3(size, "int")), z3.And(pick.at(q) >= 0, pick.at(q) < npop)), patterns=[pick.at(q)]))
        return st.new_arr(pick)

    def h_fit(I, st, args, kw, node):
        X = st.arr(args[0])
        dof = fresh_scalar("real", "dof")
        st.assume(z3.Implies(FIN(dof), dof > 0))
        st.assume(c14_fitted(dof))
        return (st.new_arr(fresh_arr((X.shape[1],), "real", "mean")), st.new_arr(fresh_arr((X.shape[1], X.shape[1]), "real", "scale")), dof)

    FITTED = z3.Function("is_fit_output", z3.RealSort(), z3.BoolSort())
    c14_fitted = lambda x: FITTED(x)

    def h_isfinite(I, st, v, node):
        return FIN(to_z3(v, "real"))

    def h_modes_new(I, st, args, kw, node):
        return st.new_obj("ModeStatistics", __module__="abstract", dof=kw["degrees_of_freedom"], means=kw["means"])

    def h_inv(I, st, args, kw, node):
        a = st.arr(args[0])
        return st.new_arr(fresh_arr(a.shape, "real", "lin"))

    def setup(I, st):
        n, d = fresh_scalar("int", "n"), fresh_scalar("int", "d")
        st.assume(z3.And(n >= 1, d >= 1))
        w = fresh_arr((n,), "real", "w")
        q = z3.Int(fresh_name("q"))
        st.assume(z3.ForAll([q], z3.Implies(z3.And(q >= 0, q < n), w.at(q) > 0), patterns=[w.at(q)]))
        fb = fresh_scalar("real", "dof_fallback")
        st.assume(z3.And(fb > 0, FIN(fb), z3.Not(FITTED(fb))))
        info.update(fb=fb)
        return dict(args=[("class", MODES, "ModeStatistics"), st.new_arr(fresh_arr((n, d), "real", "u")), st.new_arr(w)], kwargs=dict(dof_fallback=fb))

    def post(I, o, pre):
        st = o.state
        dof = st.arr(st.cell(o.value)["dof"])
        v = to_z3(dof.at(0), "real")
        return [("single-mode", to_z3(dof.shape[0], "int") == 1),
                ("stored-dof-is-finite-and-positive", z3.And(FIN(v), v > 0)),
                ("stored-dof-is-the-fit-or-the-configured-fallback", z3.Or(v == info["fb"], z3.And(FITTED(v), FIN(v))))]
    reg = {(MODES, "ModeStatistics.__new__"): h_modes_new, ("tempest.student", "fit_mvstud"): h_fit}
    ex = {"numpy.random.choice": h_choice, "__isfinite__": h_isfinite, "numpy.linalg.inv": h_inv, "numpy.linalg.cholesky": h_inv}
    ctx.verify("", MODES, "ModeStatistics.from_global", setup, post, registry=reg, extras=ex, replayer="c19_student", allowed_raises=())


def cover(ctx):
    """Vacuity guard behind the branch condition of the update obligations (guidance: a cover behind every precondition).  The update
    statements are verified over the reals under `func0(1e300) < 0`; whether the real (binary64) function ever takes that arm is a
    reachability question, asked of the real code on large Student-t samples by replayers/c19_cover.py (bounded)."""
    from pyvc import replay as _rp
    from pyvc.framework import ObResult
    import time
    t0 = time.time()
    res = _rp.run_replayer("c19_cover", {"obligation": "C19/student.fit_mvstud/cover:dof-estimation-arm-reachable", "input": None}, timeout=600)
    if res.get("reproduced"):
        r = ObResult("C19/student.fit_mvstud/cover:dof-estimation-arm-reachable", "violated", "native", time.time() - t0, int(res.get("tried") or 1),
                     "cover not reached on the real code: " + str(res.get("detail"))[:700], kind="bounded",
                     witness={"replayer": "c19_cover", "input": res.get("input")})
        r.replayed = res
    elif "finite nu returned" in str(res.get("detail")):
        r = ObResult("C19/student.fit_mvstud/cover:dof-estimation-arm-reachable", "discharged", "native", time.time() - t0, int(res.get("tried") or 1),
                     str(res.get("detail"))[:300], kind="bounded")
    else:
        r = ObResult("C19/student.fit_mvstud/cover:dof-estimation-arm-reachable", "unknown", "native", time.time() - t0, 1,
                     "cover replayer gave no verdict: " + str(res)[:300], kind="bounded")
    ctx.add(r)
    ctx.bounded.append({"clause": "cover: fit_mvstud returns a finite nu for some large Student-t sample (reachability of the ECME update statements in binary64)",
                        "bound": "5 seeded t samples, d = 1..4, nu = 3..8, n = 20000..60000 (replayers/c19_cover.py)", "cases": int(res.get("tried") or 0)})


def run(ctx):
    from . import lean as _lean
    _lean.require(ctx, "Sums.lean", ['prefix_unique', 'sum_cong_rule', 'sum_prefix_nonneg', 'dot_bound', 'dot_nonneg', 'gram_psd'])
    equivariance(ctx)
    dof_structure(ctx)
    updates(ctx)
    fallback(ctx)
    cover(ctx)
    ctx.trust("equivariance contracts of the primitives (each a true algebraic fact over the reals): median/cov/var(axis=1)/diag are "
              "coordinate-wise statistics; solve(D S D, D x) = D^-1 solve(S, x); sum_a (D x)_a (D^-1 y)_a = sum_a x_a y_a; weighted "
              "averages with normalised weights commute with translations; all of them commute with coordinate permutations",
              "scipy.optimize.bisect returns a root inside the bracket (its precondition f(1e-300) f(1e300) < 0: the upper sign is the "
              "branch condition, the lower sign follows from -psi(nu/2) ~ 2/nu and is assumed)",
              "np.linalg.solve with a symmetric positive-definite scale: Mahalanobis distances >= 0; non-degenerate data keep the scale "
              "positive definite (Gram form of spanning differences) — assumed, not machine-checked",
              "np.median lies between the coordinate minima and maxima; np.cov is symmetric positive semi-definite",
              "L-SUM rules: each statement is machine-checked in Lean/Mathlib over Finset sums (lemmas/Sums.lean; prefix_unique identifies the prefix function with the finite sum); what stays trusted is the transcription of those statements into the z3 axioms/rules of pyvc/theories/sums.py", "A1: reals; conditioning over scalings 1e-6..1e6 is a "
              "floating-point matter exercised only by the bounded native replayer")
    ctx.undecided_clauses += ["'recovers the generating parameters of large t-distributed samples' is statistical consistency: not a contract on a call "
                              "(its deterministic precondition - the estimation arm is reachable at all - is the cover obligation; on the pinned tree it is a listed known finding)",
                              "positive definiteness (strict) of the scale matrix under non-degeneracy is not machine-checked (symmetric, Gram form and "
                              "non-negative diagonal are)"]
