"""C12 — run() postconditions and the posterior()/evidence() contract (DESIGN §2/C12)."""
import itertools
import z3

from pyvc.interp import LoopSpec
from pyvc.values import Ref, Arr, Opaque, Unsupported, to_z3, fresh_scalar, fresh_arr, fresh_name
from pyvc import npmodel, symlist
from pyvc.theories import sums, real
from pyvc.framework import ObResult
from .common import *  # noqa
from .records import *  # noqa

LWf = z3.Function("LOGW1", z3.IntSort(), z3.RealSort())     # normalised log-weight of flat sample s at beta = 1 (C04)
LZ1 = z3.Function("LOGZ1", z3.IntSort(), z3.RealSort())     # MIS evidence at beta=1 of history version v
ESSH = z3.Function("ESS_HISTORY", z3.IntSort(), z3.RealSort())
BETA = z3.Function("BETA_CUR", z3.IntSort(), z3.RealSort())


# --------------------------------------------------------------------------- compute_posterior
def posterior(ctx, resample, trim, ret_blobs, ret_logw, have_blobs, replayer="c12_posterior", records_only=False):
    info = {}

    def h_logw(I, st, args, kw, node):
        """C04 contract at beta=1 on the stored history: one normalised log-weight per flat sample; pure."""
        N = info["N"]
        return (st.new_arr(Arr((N,), lambda s: LWf(to_z3(s, "int")), "real", prov=("LOGW1",))), fresh_scalar("real", "logz"))

    def h_trim(I, st, args, kw, node):
        """C20 contract of tools.trim_weights: returns (samples[mask], w[mask]/sum) for one mask; weights >= 0, sum 1;
        normalises the caller's weights in place."""
        smp, w = st.arr(args[0]), st.arr(args[1])
        n = to_z3(w.shape[0], "int")
        I.oblige(f"call:trim_weights:samples-and-weights-same-length@{node.lineno}", st, to_z3(smp.shape[0], "int") == n, node)
        m = fresh_scalar("int", "m_trim")
        sel = z3.Function(fresh_name("trimsel"), z3.IntSort(), z3.IntSort())
        k = z3.Int(fresh_name("k"))
        st.assume(z3.And(m >= 1, m <= n))
        st.assume(z3.ForAll([k], z3.Implies(z3.And(k >= 0, k < m), z3.And(sel(k) >= 0, sel(k) < n)), patterns=[sel(k)]))
        wt = fresh_arr((m,), "real", "w_trim")
        st.assume(z3.ForAll([k], z3.Implies(z3.And(k >= 0, k < m), wt.at(k) >= 0)))
        st.assume(sums.total(st, wt) == 1)
        st.ghost["chain"] = st.ghost.get("chain", []) + [("trim", sel, m)]
        return (st.new_arr(Arr((m,), lambda q: smp.at(sel(to_z3(q, "int"))), smp.sort)), st.new_arr(wt))

    def h_syst(I, st, args, kw, node):
        """C06 contract of tools.systematic_resample(size, w): `size` valid indices."""
        size, w = args[0], st.arr(args[1])
        n = to_z3(w.shape[0], "int")
        k = z3.Int(fresh_name("k"))
        I.oblige(f"call:systematic_resample:size>=1@{node.lineno}", st, to_z3(size, "int") >= 1, node)
        idx = fresh_arr((size,), "int", "ridx")
        st.assume(z3.ForAll([k], z3.Implies(z3.And(k >= 0, k < to_z3(size, "int")), z3.And(idx.at(k) >= 0, idx.at(k) < n))))
        st.ghost["chain"] = st.ghost.get("chain", []) + [("resample", idx, size)]
        return st.new_arr(idx)

    reg = state_registry()
    reg[(SM, "StateManager.get_history")] = "inline"
    reg[(SM, "StateManager.compute_logw_and_logz")] = h_logw
    reg[(TOOLS, "trim_weights")] = h_trim
    reg[(TOOLS, "systematic_resample")] = h_syst

    def setup(I, st):
        cube_axiom(st)
        sm, h = make_record_state(st, {}, blobs=have_blobs)
        st.assume(h["T"] >= 1)
        N, tt, off, la = symlist.flat_maps(st, str(h["lens"]), h["T"], h["lens"])
        st.assume(N >= 1)
        cfg = st.new_obj("SamplerConfig", __module__="tempest.config", __frozen__=True, blobs_dtype="float" if have_blobs else None)
        core = st.new_obj("SamplerCore", __module__=CORE, config=cfg, state=sm)
        info.update(N=N, tt=tt, off=off, h=h, sm=sm)
        return dict(self_val=core, kwargs=dict(resample=resample, return_blobs=ret_blobs, trim_importance_weights=trim,
                                               return_logw=ret_logw, ess_trim=fresh_scalar("real", "ess_trim"),
                                               bins_trim=fresh_scalar("int", "bins_trim")))

    def post(I, o, pre):
        st = o.state
        out = o.value
        exp_len = 3 + (1 if (ret_blobs and have_blobs) else 0) + (1 if ret_logw else 0)
        g = [("tuple-shape", len(out) == exp_len)]
        if len(out) != exp_len:
            return g
        x, w, logl = st.arr(out[0]), st.arr(out[1]), st.arr(out[2])
        pos = 3
        bl = None
        if ret_blobs and have_blobs:
            bl = st.arr(out[pos])
            pos += 1
        lw = st.arr(out[pos]) if ret_logw else None
        n = to_z3(x.shape[0], "int")
        fns, tt, off = info["h"]["fns"], info["tt"], info["off"]
        # composition of the selections applied to the flat history
        chain = st.ghost.get("chain", [])

        def iota(r):
            s = r
            for (kind, f, _) in reversed(chain):
                s = f(s) if kind == "trim" else f.at(s)
            return s
        r = z3.Int("r!p")
        inr = z3.And(r >= 0, r < n)
        g.append(("equal-lengths", lengths(n, x, w, logl, bl, lw)))
        g.append(("rows-are-whole-history-particles",
                  z3.ForAll([r], z3.Implies(inr, z3.And(iota(r) >= 0, iota(r) < info["N"],
                                                        x.at(r) == fns["x"](tt(iota(r)), off(iota(r))),
                                                        logl.at(r) == fns["logl"](tt(iota(r)), off(iota(r))),
                                                        *( [bl.at(r) == fns["blobs"](tt(iota(r)), off(iota(r)))] if bl is not None else []),
                                                        *( [lw.at(r) == LWf(iota(r))] if lw is not None else []))))))
        if records_only:          # C07: whole records only; the weight clauses are C12's
            return g
        # positivity of sum exp(.) for the untrimmed/unresampled normalisation (L-SUM-pos rule)
        exps = [a for (a, P) in st.ghost.get("sumarrs", []) if a.prov and a.prov[0] == "exp"]
        if exps:
            pp, pc = sums.pos_rule(st, exps[0])
            g.append(("sum-of-exp-positive", pp, pc))
        r0 = z3.Int(fresh_name("r0"))      # fresh constant: keeps the goal ground so the exp axioms are instantiated
        g.append(("weights-non-negative", z3.Implies(z3.And(r0 >= 0, r0 < n), w.at(r0) >= 0)))
        g.append(("weights-sum-to-one", sums.total(st, w) == 1))
        if resample:
            g.append(("uniform-weights-after-resampling", z3.ForAll([r], z3.Implies(inr, w.at(r) * z3.ToReal(n) == 1))))
        return g

    name = f"resample={int(resample)},trim={int(trim)},blobs={int(ret_blobs)},logw={int(ret_logw)},have_blobs={int(have_blobs)}"
    ctx.verify(name, CORE, "SamplerCore.compute_posterior", setup, post, registry=reg, extras=ext_records(), replayer=replayer)


# --------------------------------------------------------------------------- _not_termination, run_sampling, evidence
def not_termination(ctx):
    info = {}

    def h_logw(I, st, args, kw, node):
        N = info["N"]
        return (st.new_arr(Arr((N,), lambda s: LWf(to_z3(s, "int")), "real", prov=("LOGW1",))), fresh_scalar("real", "logz"))

    def h_ess(I, st, args, kw, node):
        a = st.arr(args[0])
        info["ess_arg"] = a
        return ESSF(lam(a), to_z3(a.shape[0], "int"))

    reg = state_registry()
    reg[(SM, "StateManager.compute_logw_and_logz")] = h_logw
    reg[(TOOLS, "effective_sample_size")] = h_ess

    def setup(I, st):
        N = fresh_scalar("int", "N")
        st.assume(N >= 0)
        beta = fresh_scalar("real", "beta")
        nt = fresh_scalar("int", "n_total")
        sm = make_state_manager(st, {"beta": beta}, N=N)
        core = st.new_obj("SamplerCore", __module__=CORE, state=sm, n_total=nt)
        info.update(N=N, beta=beta, nt=nt)
        return dict(self_val=core, args=[])

    def post(I, o, pre):
        N, beta, nt = info["N"], info["beta"], info["nt"]
        v = o.value
        if "ess_arg" not in info:
            return [("empty-history-continues", v is True)]
        a = info["ess_arg"]
        i = z3.Int("i!p")
        mx = o.state.ghost.get(("M", [k for k in o.state.ghost if isinstance(k, tuple) and k[0] == "M"][0][1])) if False else None
        Ms = [val for k, val in o.state.ghost.items() if isinstance(k, tuple) and k[0] == "M"]
        if not Ms:
            return [("empty-history-continues", v is True)]
        M = Ms[0]
        ess = ESSF(lam(a), to_z3(a.shape[0], "int"))
        vz = to_z3(v) if not isinstance(v, bool) else z3.BoolVal(v)
        return [("empty-history-continues", z3.Implies(N == 0, vz)),
                ("ess-is-taken-of-exp(logw-max)-over-whole-history",
                 z3.Implies(N >= 1, z3.And(to_z3(a.shape[0], "int") == N,
                                           z3.ForAll([i], z3.Implies(z3.And(i >= 0, i < N), a.at(i) == real.exp(LWf(i) - M)))))),
                ("continues-iff-beta-short-of-1-or-ess-below-n_total",
                 z3.Implies(N >= 1, vz == z3.Or(1 - beta >= z3.RealVal("1/10000"), ess < z3.ToReal(nt))))]

    ctx.verify("", CORE, "SamplerCore._not_termination", setup, post, registry=reg, replayer="c12_posterior")


def run_sampling(ctx, save, resume=False):
    info = {}
    NT = z3.Function("NOT_TERMINATED", z3.IntSort(), z3.BoolSort())

    def h_nt(I, st, args, kw, node):
        """Contract of _not_termination (verified above) on history version v."""
        c = st.cell(args[0])
        v = c["__version__"]
        cur = current_of(st, c["state"])
        st.assume(NT(v) == z3.Or(1 - to_z3(cur["beta"], "real") >= z3.RealVal("1/10000"), ESSH(v) < z3.ToReal(to_z3(c["n_total"], "int"))))
        return NT(v)

    def h_iter(I, st, args, kw, node):
        """Frame contract of execute_iteration: appends to history (new version), rewrites current state."""
        c = st.cell(args[0])
        c["__version__"] = fresh_scalar("int", "version")
        cur = current_of(st, c["state"])
        for k in ("beta", "logz", "ess"):
            cur[k] = fresh_scalar("real", k)
        return Opaque("statedict")

    def h_logw(I, st, args, kw, node):
        core_state = args[0]
        v = [c for c in st.heap.values() if c.get("__class__") == "SamplerCore"][0]["__version__"]
        beta = args[1] if len(args) > 1 else 1.0
        I.oblige(f"call:compute_logw_and_logz:final-evidence-at-beta-1@{node.lineno}", st, to_z3(beta, "real") == 1, node)
        return (Opaque("logw"), LZ1(v))

    def h_save(I, st, args, kw, node):
        """C08/O7: saving does not modify the state."""
        st.ghost["saved"] = st.ghost.get("saved", 0) + 1
        return None

    def h_noop(I, st, args, kw, node):
        return None

    def h_resume(I, st, args, kw, node):
        """Frame contract of _initialize_from_resume / load_sampler_state (C08): replaces current state and history by
        the checkpoint's and restores the sampler attributes stored in it (n_total, logz_err)."""
        c = st.cell(args[0])
        c["__version__"] = fresh_scalar("int", "version_loaded")
        c["n_total"] = fresh_scalar("int", "n_total_stored")
        c["t0"] = fresh_scalar("int", "t0")
        cur = current_of(st, c["state"])
        cur["iter"] = fresh_scalar("int", "iter_loaded")
        for k in ("beta", "logz", "ess"):
            cur[k] = fresh_scalar("real", k + "_loaded")
        return None

    reg = state_registry()
    reg[(CORE, "SamplerCore._initialize_from_resume")] = h_resume
    reg.update({(CORE, "SamplerCore._not_termination"): h_nt, (CORE, "SamplerCore.execute_iteration"): h_iter,
                (SM, "StateManager.compute_logw_and_logz"): h_logw, (CORE, "SamplerCore.save_sampler_state"): h_save,
                (CORE, "SamplerCore._initialize_fresh"): "inline", (CORE, "SamplerCore._update_progress_bar_initial"): h_noop,
                ("tempest.tools", "ProgressBar.__new__"): (lambda I, st, a, k, n: Opaque("pbar"))})

    def setup(I, st):
        sm = make_state_manager(st, {})
        cfg = st.new_obj("SamplerConfig", __module__="tempest.config", __frozen__=True, output_dir=Opaque("path"), output_label="ps",
                         ess_ratio=fresh_scalar("real", "er"), n_particles=fresh_scalar("int", "np"))
        comp = lambda name: st.new_obj(name, __module__="abstract", pbar=None)
        core = st.new_obj("SamplerCore", __module__=CORE, state=sm, config=cfg, reweighter=comp("Reweighter"), trainer=comp("Trainer"),
                          mutator=comp("Mutator"), pbar=None, t0=0, __version__=fresh_scalar("int", "v0"))
        nt = fresh_scalar("int", "n_total")
        info.update(sm=sm, core=core, nt=nt)
        return dict(self_val=core, kwargs=dict(n_total=nt, progress=False, resume_state_path=(Opaque("path") if resume else None),
                                               save_every=(fresh_scalar("int", "save_every") if save else None)))

    def inv(v):
        c = v.state.cell(info["core"])
        return z3.And(to_z3(c["n_total"], "int") == info["nt"])

    def post(I, o, pre):
        st = o.state
        c = st.cell(info["core"])
        cur = current_of(st, info["sm"])
        v = c["__version__"]
        return [("beta-within-1e-4-of-one", 1 - to_z3(cur["beta"], "real") < z3.RealVal("1/10000")),
                ("ess-of-history-at-least-n_total", ESSH(v) >= z3.ToReal(info["nt"])),
                ("evidence-is-mis-evidence-at-beta-1-of-the-final-history", cur["logz"] == LZ1(v)),
                ("final-checkpoint-written-iff-save_every-given", (st.ghost.get("saved", 0) == 1) == save)]

    loop = LoopSpec(inv, label="ps-loop", modifies=("self.__version__", "self.state._current[*]"))
    ex = ext_records()
    ex[("opaque", "path", "__truediv__")] = lambda I, st, o: o
    ctx.verify(("save" if save else "nosave") + ("-resumed" if resume else ""), CORE, "SamplerCore.run_sampling", setup, post, registry=reg, loops={0: loop}, extras=ex,
               replayer="c12_posterior")


def evidence(ctx):
    info = {}

    def setup(I, st):
        z = fresh_scalar("real", "logz")
        sm = make_state_manager(st, {"logz": z})
        core = st.new_obj("SamplerCore", __module__=CORE, state=sm, logz_err=None)
        info["z"] = z
        return dict(self_val=core, args=[])

    def post(I, o, pre):
        return [("evidence-returns-the-recorded-logz", o.value[0] is info["z"] or o.value[0] == info["z"])]

    ctx.verify("", CORE, "SamplerCore.compute_evidence", setup, post, registry=state_registry(), replayer="c12_posterior")


def run(ctx):
    from . import lean as _lean
    _lean.require(ctx, "Sums.lean", ['prefix_unique', 'sum_prefix_nonneg', 'sum_pos_rule', 'sum_div_const', 'sum_const_rule'])
    for have_blobs in (False, True):
        for rs, tr, rb, rl in itertools.product((False, True), repeat=4):
            posterior(ctx, rs, tr, rb, rl, have_blobs)
    not_termination(ctx)
    run_sampling(ctx, False)
    run_sampling(ctx, True)
    run_sampling(ctx, False, resume=True)
    evidence(ctx)
    ctx.trust("C04 contract of compute_logw_and_logz; C20 contract of trim_weights; C06 contract of systematic_resample; "
              "C08/O7 saving is pure; execute_iteration frame (writes current state, appends to history)",
              "history satisfies INV-REC and wf_history (C07)", "L-SUM rules: each statement is machine-checked in Lean/Mathlib over Finset sums (lemmas/Sums.lean; prefix_unique identifies the prefix function with the finite sum); what stays trusted is the transcription of those statements into the z3 axioms/rules of pyvc/theories/sums.py")
    ctx.undecided_clauses.append("termination of run() is not decided (partial correctness)")
