"""C04 — importance weights follow the balance-heuristic mixture formula (DESIGN §2/C04)."""
import ast
import z3

from pyvc.values import Ref, Arr, Opaque, Unsupported, to_z3, fresh_scalar, fresh_arr, fresh_name
from pyvc import npmodel, symlist, eff
from pyvc.framework import ObResult
from pyvc.theories import sums, real
from .common import *  # noqa

HKEYS_S = ["beta", "logz", "iter", "calls", "steps", "efficiency", "ess", "acceptance"]
HKEYS_A = ["u", "x", "logl", "blobs"]


def make_full_state(st, T=None):
    T = T if T is not None else fresh_scalar("int", "T")
    st.assume(T >= 0)
    nd = fresh_scalar("int", "n_dim")
    st.assume(nd >= 1)
    hist, fns, lens = symlist.make_history(st, T, HKEYS_S, HKEYS_A, n_dim=nd)
    cur = st.new_dict({k: None for k in CURRENT_KEYS})
    sm = st.new_obj("StateManager", __module__=SM, _current=cur, _history=hist, _results_dict=None, n_dim=nd)
    return sm, dict(T=T, fns=fns, lens=lens, nd=nd)


def registry():
    reg = state_registry()
    reg[(SM, "StateManager.get_history")] = "inline"
    return reg


def main(ctx, normalize):
    info = {}

    def setup(I, st):
        sm, h = make_full_state(st)
        st.assume(h["T"] >= 1)
        bf = fresh_scalar("real", "beta_final")
        st.assume(z3.And(bf >= 0, bf <= 1))
        info.update(h, sm=sm, bf=bf, heap0={k: dict(v) for k, v in st.heap.items()})
        return dict(self_val=sm, args=[bf, normalize])

    def post(I, o, pre):
        st = o.state
        logw, logz = o.value
        LW = st.arr(logw)
        T, lens, fns, bf = info["T"], info["lens"], info["fns"], info["bf"]
        key = [k for k in st.ghost if isinstance(k, tuple) and k[0] == "flat"][0]
        N, tt, off, la = st.ghost[key]
        Nr = z3.ToReal(N)
        l = lambda s: fns["logl"](tt(s), off(s))                    # log-likelihood of flat sample s
        # spec: mixture terms m(s,t) = (n_t/N) exp(beta_t l_s - logz_t)
        mix = Arr((N, T), lambda s, t: (z3.ToReal(lens(t)) / Nr) * real.exp(fns["beta"](t) * l(s) - fns["logz"](t)), "real")
        mis = lambda s: bf * l(s) - real.log(sums.prefix2_fn(st, mix, 1)(s, T - 1))
        # the code's exp(b_weighted) array (row sums feed logaddexp.reduce)
        code_e = [a for (a, ax, P) in st.ghost["sumarrs2"] if a.prov and a.prov[0] == "exp"][0]
        p1, c1 = sums.cong2_rule(st, code_e, mix, 1)
        pp, cp = sums.pos2_rule(st, mix, 1)
        s = z3.Int("s!p")
        code_n = [a for (a, P) in st.ghost["sumarrs"] if a is not la][0]    # the routine's own n_per_iter
        pn, cn = sums.cong_rule(st, code_n, la, "n")
        steps = [("batch-sizes-are-lengths-of-logl-batches", pn, cn),
                 ("N-is-sum-of-batch-sizes", z3.And(N >= 1, sums.total(st, code_n) == Nr), None),
                 ("mixture-terms:summand-identity", p1, c1),
                 ("mixture-positive", pp, cp)]
        if not normalize:
            steps.append(("logw-is-balance-heuristic", z3.And(to_z3(LW.shape[0], "int") == N,
                          z3.ForAll([s], z3.Implies(z3.And(s >= 0, s < N), LW.at(s) == mis(s)))), None))
            un = LW
        else:
            # unnormalised vector u and its log-sum-exp
            eu_code = [a for (a, P) in st.ghost["sumarrs"] if a.prov and a.prov[0] == "exp"][-1]
            un = eu_code.prov[1]
            Lse = real.log(sums.total(st, eu_code))
            steps.append(("unnormalised-logw-is-balance-heuristic",
                          z3.ForAll([s], z3.Implies(z3.And(s >= 0, s < N), un.at(s) == mis(s))), None))
            steps.append(("normalised-is-shift-by-lse", z3.And(to_z3(LW.shape[0], "int") == N,
                          z3.ForAll([s], z3.Implies(z3.And(s >= 0, s < N), LW.at(s) == un.at(s) - Lse))), None))
            # sum exp(logw) = 1 : exp(u_s - L) = exp(u_s) * exp(-L), sum = exp(-L) * exp(L)
            ew = Arr((N,), lambda q: real.exp(LW.at(q)), "real")
            sc = Arr((N,), lambda q: eu_code.at(q) / real.exp(Lse), "real", prov=("div", real.exp(Lse), eu_code))
            p2, c2 = sums.cong_rule(st, ew, sc, "norm")
            p3, c3 = sums.pos_rule(st, eu_code)
            steps += [("exp-logw-is-scaled-exp-u", p2, c2), ("sum-exp-u-positive", p3, c3),
                      ("normalised-weights-sum-to-one", sums.total(st, ew) == 1, None)]
        eu = [a for (a, P) in st.ghost["sumarrs"] if a.prov and a.prov[0] == "exp"][-1 if normalize else -1]
        eu0 = [a for (a, P) in st.ghost["sumarrs"] if a.prov and a.prov[0] == "exp" and a.prov[1] is un]
        steps.append(("logz-is-log-mean-unnormalised-weight",
                      to_z3(logz, "real") == real.log(sums.total(st, eu0[0])) - real.log(Nr) if eu0 else False, None))
        pure = all(st.heap.get(k) == v or all(st.heap[k].get(a) is b or st.heap[k].get(a) == b for a, b in v.items())
                   for k, v in info["heap0"].items() if k in st.heap)
        steps.append(("pure:modifies-nothing", bool(pure), None))
        return steps

    ctx.verify("normalised" if normalize else "unnormalised", SM, "StateManager.compute_logw_and_logz", setup, post,
               registry=registry(), replayer="c04_logw")


# --------------------------------------------------------------------------- O6: finite in binary64 on the stated domain
def finite_range(ctx, normalize):
    """'... stay finite for finite log-likelihoods of any magnitude': on the stated domain (|logL| <= 1e6, beta_t in [0,1],
    |logz_t| <= 1e300, 1 <= n_t, T <= 1e4, N <= 1e10) every value the routine computes in its own source text — every
    arithmetic result and every call result, element-wise for arrays — stays within the binary64 normal range (reals, a decade of
    slack for rounding), and every divisor stays away from zero.  log-sum-exp results are bounded through the Lean lemma
    lse_bounds (lo <= a_j <= hi for all j  =>  lo <= log sum exp a_j <= hi + log n), applied after the element bounds of the
    argument array are proved.  np.logaddexp.reduce itself is numpy's overflow-free implementation (assumed); an explicit
    np.exp(...) of the same arguments would be a recorded value and fails its bound (e^{1e6})."""
    info = {}
    rec = []
    R = z3.RealVal
    F_BIG, F_TINY = "1e307", "1e-307"

    def setup(I, st):
        sm, h = make_full_state(st)
        T, lens, fns = h["T"], h["lens"], h["fns"]
        st.assume(z3.And(T >= 1, T <= 10000))
        bf = fresh_scalar("real", "beta_final")
        st.assume(z3.And(bf >= 0, bf <= 1))
        t, j = z3.Int("t!d"), z3.Int("j!d")
        st.assume(z3.ForAll([t], z3.Implies(z3.And(t >= 0, t < T), z3.And(fns["beta"](t) >= 0, fns["beta"](t) <= 1, fns["logz"](t) >= -R("1e300"),
                                                                          fns["logz"](t) <= R("1e300"), lens(t) >= 1, lens(t) <= 1000000)),
                            patterns=[fns["beta"](t)]))
        st.assume(z3.ForAll([t], z3.Implies(z3.And(t >= 0, t < T), z3.And(fns["logz"](t) >= -R("1e300"), fns["logz"](t) <= R("1e300"))),
                            patterns=[fns["logz"](t)]))
        st.assume(z3.ForAll([t], z3.Implies(z3.And(t >= 0, t < T), z3.And(lens(t) >= 1, lens(t) <= 1000000)), patterns=[lens(t)]))
        st.assume(z3.ForAll([t, j], z3.And(fns["logl"](t, j) >= -1000000, fns["logl"](t, j) <= 1000000), patterns=[fns["logl"](t, j)]))
        info.update(h, sm=sm, bf=bf)
        I.value_hook = lambda st_, node, v, role: rec.append((role, v, node))
        return dict(self_val=sm, args=[bf, normalize])

    def post(I, o, pre):
        from pyvc import discharge
        I.value_hook = None
        st = o.state
        key = [k for k in st.ghost if isinstance(k, tuple) and k[0] == "flat"][0]
        N, tt, off, la = st.ghost[key]
        hints = [N >= 1, N <= 10000000000]                     # N = sum of T <= 1e4 batch sizes <= 1e6 (L-SUM: sum_le_card_mul)
        lse_terms = list(st.ghost.get("lse_terms", []))
        g = []

        def elems(v):
            if isinstance(v, Ref) and v.kind == "arr" and v.oid in st.heap:
                v = st.arr(v)
            if isinstance(v, Arr):
                if v.sort != "real" or v.ndim not in (1, 2):
                    return []
                qs = [z3.Int(fresh_name("q")) for _ in range(v.ndim)]
                dom = z3.And(*[z3.And(q >= 0, q < to_z3(v.shape[k], "int")) for k, q in enumerate(qs)])
                return [(dom, to_z3(v.at(*qs), "real"))]
            if z3.is_expr(v) and (z3.is_real(v) or z3.is_int(v)):
                return [(z3.BoolVal(True), z3.ToReal(v) if z3.is_int(v) else v)]
            return []

        def prove(hyp, goal):
            return discharge.check_formulas(list(st.pc) + hints + hyp + [z3.Not(goal)], 20000)[0] == "discharged"

        # log-sum-exp results, in the order they were computed: element bounds of the argument first, then the Lean-lemma bound
        for (val, a, axis) in lse_terms:
            placed = False
            for k in range(0, 6):
                B = R("1e%d" % (301 + k))
                ok = all(prove([dom], z3.And(t <= B, t >= -B)) for (dom, t) in elems(a))
                if ok:
                    for (dom, t) in elems(val):
                        if isinstance(val, Arr):
                            qv = [x for x in z3.z3util.get_vars(dom)] if hasattr(z3, "z3util") else []
                        hints.append(z3.ForAll(_vars(dom), z3.Implies(dom, z3.And(t <= B + 25, t >= -B)), patterns=[t]) if _vars(dom) else z3.And(t <= B + 25, t >= -B))
                    placed = True
                    break
            g.append((f"log-sum-exp #{len(g)}: arguments bounded (lemma lse_bounds applicable)", [], z3.BoolVal(placed)))
        seen = set()
        for (role, v, node) in rec:
            keyn = (role, getattr(node, "lineno", 0), getattr(node, "col_offset", 0), getattr(node, "end_col_offset", 0))
            if keyn in seen:
                continue
            seen.add(keyn)
            src = ast.unparse(node)[:60]
            for (dom, t) in elems(v):
                if role == "denominator":
                    g.append((f"line-{node.lineno}:divisor `{src}` stays away from zero", [dom], z3.Or(t >= R(F_TINY), t <= -R(F_TINY))))
                else:
                    g.append((f"line-{node.lineno}:`{src}` stays within the binary64 range", [dom], z3.And(t <= R(F_BIG), t >= -R(F_BIG))))
        return [(nm, z3.Implies(z3.And(*(hints + hyp)), goal)) for (nm, hyp, goal) in g]

    def _vars(dom):
        out = []
        def walk(e):
            if z3.is_const(e) and e.decl().kind() == z3.Z3_OP_UNINTERPRETED and z3.is_int(e):
                if not any(e.eq(x) for x in out) and str(e).startswith("q!"):
                    out.append(e)
            for c in e.children():
                walk(c)
        walk(dom)
        return out

    ctx.verify("binary64-range:" + ("normalised" if normalize else "unnormalised"), SM, "StateManager.compute_logw_and_logz", setup, post,
               registry=registry(), replayer="c04_logw")


def no_raw_exponential(ctx):
    """Finiteness clause, structural half: compute_logw_and_logz (and whatever package helper it hands likelihood values to) never
    applies a plain np.exp to a log-likelihood-scaled quantity — only the overflow-free log-add-exp / log-sum-exp primitives do
    the exponentials.  exp(b) with |b| up to 1e6 + |logz| overflows / underflows in binary64 although the result is algebraically
    the same, so the value contract above (over the reals) cannot see it.  Sufficient condition (a max-shifted exp would be safe):
    a flagged site is settled by the native oracle at |logL| = 1e6."""
    from pyvc import taint
    from . import c10
    res = taint.analyse(ctx.mods, sanitize=getattr(c10, "SANITIZE", {}))
    ft = res.get((SM, "StateManager.compute_logw_and_logz"))
    bad = []
    reach = {(SM, "StateManager.compute_logw_and_logz")}
    # helpers of the package that compute_logw_and_logz calls (one level: name-based)
    f = eff.qualname_index(ctx.mods).get((SM, "StateManager.compute_logw_and_logz"))
    called = {(eff.dotted(n.func) or "").split(".")[-1] for n in ast.walk(f) if isinstance(n, ast.Call)} if f else set()
    for (m, q) in res:
        if q.split(".")[-1] in called and q.split(".")[-1] not in ("get_history", "get_current"):
            reach.add((m, q))
    for key in sorted(reach):
        for ln, w in (res[key].uses if key in res else []):
            if w.startswith("call: np.exp(") or w.startswith("call: numpy.exp(") or w.startswith("call: math.exp("):
                bad.append(f"{key[0]}.{key[1]}:{ln} {w}")
    r = ctx.add(ObResult("C04/finite/no-plain-exp-of-likelihood-scaled-quantities", "violated" if bad or f is None else "discharged", "pyvc-eff", 0.0, 1,
                         " ; ".join(bad[:4]), kind="effect"))
    r.replayer = "c04_logw"


def empty(ctx):
    info = {}

    def setup(I, st):
        sm, h = make_full_state(st)
        st.assume(h["T"] == 0)
        return dict(self_val=sm, args=[fresh_scalar("real", "bf")])

    def post(I, o, pre):
        logw, logz = o.value
        LW = o.state.arr(logw)
        return [("empty-history:no-weights", LW.shape[0] == 0 if isinstance(LW.shape[0], int) else to_z3(LW.shape[0], "int") == 0),
                ("empty-history:logz-minus-inf", isinstance(logz, Opaque) and logz.tag == "inf" and logz.info["sign"] == -1)]

    ctx.verify("empty", SM, "StateManager.compute_logw_and_logz", setup, post, registry=registry())


def lemmas(ctx):
    # L2 (shift): l -> l + c, logz_t -> logz_t + beta_t c leaves every mixture term unchanged
    l, c, bt, zt, b = z3.Reals("l c bt zt b")
    ctx.lemma("lemma/shift:mixture-term-unchanged", [],
              real.exp(bt * (l + c) - (zt + bt * c)) == real.exp(bt * l - zt),
              detail="exp(beta_t (l+c) - (logz_t + beta_t c)) = exp(beta_t l - logz_t)")
    m = z3.Real("logmix")
    ctx.lemma("lemma/shift:logw-shifts-by-beta-c", [], (b * (l + c) - m) == (b * l - m) + b * c,
              detail="mis'(s) = mis(s) + beta c, hence normalised weights identical and logz shifts by beta c")
    from . import lean
    lean.require(ctx, "MisSum.lean", ["mixture_perm_invariant", "lse_shift", "normalised_shift_invariant"])
    # O6 finiteness (interval obligation, reals): all arguments of logaddexp.reduce stay bounded
    Z, Ln, x = z3.Reals("Zmax logN x")
    ctx.lemma("lemma/finite:arguments-bounded",
              [l >= -1000000, l <= 1000000, bt >= 0, bt <= 1, zt >= -Z, zt <= Z, Z >= 0, x <= 0, x >= -Ln, Ln >= 0],
              z3.And(bt * l - zt + x <= 1000000 + Z, bt * l - zt + x >= -1000000 - Z - Ln),
              detail="|beta_t l - logz_t + log(n_t/N)| <= 1e6 + Zmax + log N: far inside the double range")


def run(ctx):
    from . import lean as _lean
    _lean.require(ctx, "Sums.lean", ['prefix_unique', 'sum_cong_rule', 'sum_prefix_nonneg', 'sum_pos_rule', 'sum_scale', 'sum_add', 'sum_sub'])
    main(ctx, True)
    main(ctx, False)
    empty(ctx)
    no_raw_exponential(ctx)
    lemmas(ctx)
    ctx.trust("np.logaddexp.reduce = log sum exp", "np.concatenate/np.array contracts on history lists (pyvc/symlist.py)",
              "wf_history: every history list has T entries and batch t has n_t>=1 rows under every key (established by commit_current_to_history, C17)",
              "L-SUM rules: each statement is machine-checked in Lean/Mathlib over Finset sums (lemmas/Sums.lean; prefix_unique identifies the prefix function with the finite sum); what stays trusted is the transcription of those statements into the z3 axioms/rules of pyvc/theories/sums.py", "T-REAL exp/log axioms", "rounding not modelled (A1): finiteness is an interval argument over reals")
