"""C13 — likelihood evaluation strategy is transparent; calls are counted exactly (DESIGN §2/C13)."""
import ast
import z3

from pyvc.values import Ref, Arr, Opaque, BoundMethod, Unsupported, to_z3, fresh_scalar, fresh_arr, fresh_name
from pyvc import npmodel, symlist, eff
from pyvc.framework import ObResult
from .common import *  # noqa
from .records import *  # noqa
from . import c07


def make_core(st, vectorize, pool, blobs):
    def h_user(I, st_, args, kw, node):
        """The user's likelihood (A3): scalar form returns L(x) (or (L(x), blob(x))); the vectorised form is
        point-wise equal to the scalar one (as the property states)."""
        v = args[0]
        if isinstance(v, Ref) and v.kind == "arr":
            a = st_.arr(v)
            st_.ghost["__E__"] = st_.ghost.get("__E__", 0) + to_z3(a.shape[0], "int")
            return st_.new_arr(Arr((a.shape[0],), lambda i: Lf(a.at(i)), "real"))
        st_.ghost["__Epoints__"] = st_.ghost.get("__Epoints__", 0) + 1
        return (Lf(v), Bf(v)) if blobs else Lf(v)
    cfg = st.new_obj("SamplerConfig", __module__="tempest.config", __frozen__=True, vectorize=vectorize, pool=pool,
                     log_likelihood=Opaque("callable", handler=h_user), blobs_dtype="float" if blobs else None)
    core = st.new_obj("SamplerCore", __module__=CORE, config=cfg)
    return core


def pool_ext():
    def pool_map(I, st, args, kw, node):
        return symlist.sym_map(I, st, args[1:], kw, node)

    def mp_pool(I, st, args, kw, node):
        return Opaque("pool", workers=args[0])
    return {("method", "opaque:pool", "map"): pool_map, "multiprocess.Pool": mp_pool}


def log_like(ctx, arm, blobs):
    info = {}

    def setup(I, st):
        n = fresh_scalar("int", "n")
        st.assume(n >= 1)
        x = fresh_arr((n,), Vec, "x")
        pool = None
        if arm == "pool-object":
            pool = Opaque("pool")
        elif arm == "pool-int":
            pool = fresh_scalar("int", "workers")
        core = make_core(st, arm == "vectorised", pool, blobs)
        info.update(n=n, x=x)
        return dict(self_val=core, args=[st.new_arr(x)])

    def post(I, o, pre):
        st = o.state
        logl, bl = o.value
        n, x = info["n"], info["x"]
        LL = st.arr(logl)
        i = z3.Int("i!p")
        g = [("row-i-is-likelihood-at-x_i-in-input-order",
              z3.And(to_z3(LL.shape[0], "int") == n, z3.ForAll([i], z3.Implies(z3.And(i >= 0, i < n), LL.at(i) == Lf(x.at(i))))))]
        if blobs:
            B = st.arr(bl)
            g.append(("blob-row-i-belongs-to-x_i", z3.And(to_z3(B.shape[0], "int") == n,
                                                        z3.ForAll([i], z3.Implies(z3.And(i >= 0, i < n), B.at(i) == Bf(x.at(i)))))))
        else:
            g.append(("no-blobs-returned", bl is None))
        mapped = st.ghost.get("mapped", [])
        E = st.ghost.get("__E__", None)
        if arm == "vectorised":
            g.append(("evaluates-exactly-len-x-points", to_z3(E, "int") == n))
        else:
            g.append(("evaluates-exactly-len-x-points", len(mapped) == 1 and to_z3(mapped[0][1], "int") == n))
        return g

    reg = {(CORE, "SamplerCore._get_distribute_func"): "inline"}
    ctx.verify(f"{arm}{'-blobs' if blobs else ''}", CORE, "SamplerCore._log_like", setup, post, registry=reg, extras=pool_ext(),
               replayer="c13_strategies")


def distribute(ctx):
    for kind in ("none", "int", "object"):
        info = {}

        def setup(I, st, kind=kind):
            pool = None if kind == "none" else (fresh_scalar("int", "workers") if kind == "int" else Opaque("pool"))
            core = make_core(st, False, pool, False)
            return dict(self_val=core, args=[])

        def post(I, o, pre, kind=kind):
            v = o.value
            ok = isinstance(v, BoundMethod) and v.name == "map" or (isinstance(v, Opaque) and v.tag == "builtin" and v.info.get("name") == "map")
            return [("returns-a-usable-map-for-every-admissible-pool", bool(ok))]

        ctx.verify(f"pool-{kind}", CORE, "SamplerCore._get_distribute_func", setup, post, extras=pool_ext(), replayer="c13_strategies")


def call_graph(ctx):
    """T-EFF: the user's likelihood is reachable only through _log_like; nothing else reads vectorize/pool."""
    mods = ctx.mods
    sites = []
    readers = []
    for m, (tree, path, src) in mods.items():
        for n in ast.walk(tree):
            if isinstance(n, ast.Attribute) and n.attr == "log_likelihood" and isinstance(n.ctx, ast.Load):
                d = eff.dotted(n) or ""
                sites.append((m, n.lineno, d))
            if isinstance(n, ast.Attribute) and n.attr in ("vectorize",) and isinstance(n.ctx, ast.Load):
                readers.append((m, n.lineno, eff.dotted(n)))
    idx = eff.qualname_index(mods)

    def enclosing(m, ln):
        for (mm, q), f in idx.items():
            if mm == m and f.lineno <= ln <= f.end_lineno and ".<locals>." not in q:
                return q
        return "?"
    allowed = {("tempest.core", "SamplerCore._log_like"), ("tempest.core", "SamplerCore.__init__"),
               ("tempest.mcmc", "BaseMCMCRunner._evaluate_likelihood"), ("tempest.mcmc", "BaseMCMCRunner.__init__"),
               ("tempest.steps.mutate", "Mutator.run"), ("tempest.steps.mutate", "Mutator.__init__"),
               ("tempest.config", "SamplerConfig.validate"), ("tempest.config", "SamplerConfig.to_dict"),
               ("tempest.sampler", "Sampler.__init__")}
    bad = [(m, ln, d, enclosing(m, ln)) for (m, ln, d) in sites if (m, enclosing(m, ln)) not in allowed]
    r = ObResult(f"{ctx.prop}/call-graph/likelihood-only-reached-through-_log_like", "discharged" if not bad else "violated",
                 "pyvc-eff", 0.0, 1, "" if not bad else f"additional likelihood call sites: {bad}", kind="effect")
    r.replayer = "c13_strategies"
    ctx.add(r)
    okv = all((m, enclosing(m, ln)) in {("tempest.core", "SamplerCore._log_like"), ("tempest.config", "SamplerConfig.validate"),
                                        ("tempest.config", "SamplerConfig.to_dict"), ("tempest.sampler", "Sampler.vectorize")}
              for (m, ln, d) in readers)
    r = ObResult(f"{ctx.prop}/call-graph/strategy-flags-read-only-by-the-dispatcher", "discharged" if okv else "violated",
                 "pyvc-eff", 0.0, 1, "" if okv else f"vectorize read at {[(m, ln, enclosing(m, ln)) for m, ln, d in readers]}", kind="effect")
    r.replayer = "c13_strategies"
    ctx.add(r)


def run(ctx):
    for arm in ("vectorised", "serial", "pool-object", "pool-int"):
        log_like(ctx, arm, False)
    for arm in ("serial", "pool-object"):
        log_like(ctx, arm, True)
    distribute(ctx)
    call_graph(ctx)
    # call counting: the three sites that add to `calls`
    ctx.replayer_override = "c13_strategies"
    c07.mutate_warmup(ctx, False)
    c07.mutate_mcmc(ctx, False)
    c07.mutate_mcmc(ctx, True)
    for cls in ("RWMRunner", "TPCNRunner"):
        for blobs in (False, True):
            c07.mcmc_run(ctx, cls, blobs)
    from pyvc import replay
    res = replay.run_replayer("c13_strategies", {"input": None}, timeout=900)
    ctx.bounded.append({"clause": "whole-run transparency in binary64 (incl. -inf likelihood values, which the real-number model A1 cannot see) and exact call counts",
                        "bound": "kernels x blobs x hard-support x {serial, pool=1, reverse-completion pool-like, vectorised}, one seed", "result": res})
    if res.get("reproduced"):
        r = ObResult(f"{ctx.prop}/native/strategies-bit-identical-and-calls-exact", "violated", "native", 0.0, 1, str(res.get("detail")),
                     kind="bounded", witness={"replayer": "c13_strategies", "input": res.get("input")})
        r.replayed = res
        ctx.add(r)
    ctx.trust("A3: the user's likelihood is pure/total/deterministic; the vectorised form is point-wise equal to the scalar form",
              "A7: pool.map(f, xs) returns [f(x) for x in xs] in input order whatever the completion order (multiprocess.Pool.map and pool-like objects)",
              "numpy: np.array(list of floats/tuples), np.squeeze preserve row order")
    ctx.undecided_clauses.append("bit-identity of whole histories across strategies follows from row-identity of _log_like's result "
                                 "(nothing else reads vectorize/pool: checked); floating-point identity of the user's vectorised and scalar code is assumed")
