"""C16 — boundary maps fold every real number into the unit interval (DESIGN §2/C16).

Two runs of the same real source through the AST interpreter:
  * T-FP64 (pyvc/fp64.py): small concrete shapes, elements are binary64 terms -> range, value, idempotence,
    fixed points and the bounds predicate for *every finite double* (QF_FP, no quantifiers);
  * T-ARR over reals: symbolic shapes (n, d), symbolic index arrays of any length -> the frame (which
    coordinates are touched, argument not mutated) and the real-number value (modulo 1 / triangle wave),
    with inductive invariants on the two index loops; check_bounds against its iff-specification.
"""
import z3

from pyvc.interp import LoopSpec
from pyvc.values import Ref, Arr, Opaque, Unsupported, PyRaise, to_z3, fresh_scalar, fresh_arr, fresh_name, is_conc
from pyvc import npmodel, fp64
from pyvc.fp64 import F64, FPK, fpv, finite

MC = "tempest.mcmc"
ONE, ZERO = fpv(1.0), fpv(0.0)


def _le(a, b):
    return z3.fpLEQ(a, b)


def in_unit(x):
    return z3.And(z3.Not(z3.fpIsNaN(x)), _le(ZERO, x), _le(x, ONE))


# ----------------------------------------------------------------------------------------- T-FP64
def _single(I, outs):
    rets = [o for o in outs if o.kind == "return"]
    if len(rets) != 1 or len(outs) != 1:
        raise Unsupported("T-FP64 run expected a single returning path, got %s" % [(o.kind, o.value if o.kind == 'raise' else '') for o in outs])
    return rets[0]


def fp_fold(ctx, kind, shape_kind):
    """apply_boundary_conditions on a point with one designated coordinate and one non-designated one."""
    info = {}

    def setup(I, st):
        shape = (2,) if shape_kind == "1d" else (1, 2)
        u, (v, w) = fp64.fp_input(st, ["v", "w"], shape)
        st.assume(z3.And(finite(v), finite(w)))
        lst = st.new_list([0])
        info.update(v=v, w=w, u=u, lst=lst, u_arr=st.arr(u))
        P, R = (lst, None) if kind == "periodic" else (None, lst)
        info.update(P=P, R=R)
        return dict(args=[u, P, R])

    def at(a, j):
        return a.at(j) if shape_kind == "1d" else a.at(0, j)

    def post(I, o, pre):
        st = o.state
        out = st.arr(o.value)
        v, w = info["v"], info["w"]
        r = at(out, 0)
        fl = z3.fpRoundToIntegral(z3.RTN(), v)
        frac = z3.fpSub(fp64.RNE, v, fl)                       # correctly rounded v - floor(v)
        g = [("shape", tuple(out.shape) == tuple(info["u_arr"].shape)),
             ("other-coordinate-untouched", at(out, 1) == w),
             ("argument-not-mutated", z3.And(at(st.arr(info["u"]), 0) == v, at(st.arr(info["u"]), 1) == w)),
             ("range", in_unit(r))]
        if kind == "periodic":
            NEG1, BIG = fpv(-1.0), fpv(-2.0 ** 53)
            cases = [("negative-integers", z3.And(z3.fpLT(v, ZERO), z3.fpEQ(fl, v))),
                     ("(-1,0)", z3.And(z3.fpLT(v, ZERO), z3.fpGT(v, NEG1))),
                     ("(-inf,-2^53]", _le(v, BIG))]
            if ctx.tier != "quick" and shape_kind == "1d":
                # the two remaining cases take minutes of bit-blasting each: thorough tier only (stated in the evidence)
                cases += [("[0,inf)", z3.fpGEQ(v, ZERO)),
                          ("(-2^53,-1]-non-integers", z3.And(_le(v, NEG1), z3.fpGT(v, BIG), z3.Not(z3.fpEQ(fl, v))))]
            g += [(f"value:correctly-rounded-v-minus-floor-v:{nm}", z3.Implies(c, z3.fpEQ(r, frac))) for nm, c in cases]
            g += [
                  ("identity-on-[0,1)", z3.Implies(z3.And(_le(ZERO, v), z3.fpLT(v, ONE)), z3.fpEQ(r, v))),
                  ("one-only-for-tiny-negatives", z3.Implies(z3.fpEQ(r, ONE), z3.And(z3.fpLT(v, ZERO), z3.fpGEQ(v, fpv(-2.0 ** -53)))))]
            if ctx.tier == "quick":
                ctx.notes.append("T-FP64 periodic value clause: cases v>=0 and non-integer v in (-2^53,-1] are discharged in the thorough "
                                 "tier only (minutes of bit-blasting); quick covers them over the reals (T-ARR value clause) and by the FP "
                                 "range/identity/idempotence clauses")
        else:
            half = z3.fpMul(fp64.RNE, fl, fpv(0.5))
            even = z3.fpEQ(half, z3.fpRoundToIntegral(z3.RTN(), half))
            g += [("value:triangle-fold-of-correctly-rounded-fraction",
                   z3.fpEQ(r, z3.If(even, frac, z3.fpSub(fp64.RNE, ONE, frac)))),
                  ("identity-on-[0,1]", z3.Implies(z3.And(_le(ZERO, v), _le(v, ONE)), z3.fpEQ(r, v))),
                  ("large-magnitudes-are-even-integers", z3.Implies(z3.fpGEQ(z3.fpAbs(v), fpv(2.0 ** 53)), z3.fpEQ(r, ZERO)))]
        # idempotence: run the real function again on its own output
        o2 = _single(I, I.call_function(MC, "apply_boundary_conditions", st, [o.value, info["P"], info["R"]]))
        out2 = o2.state.arr(o2.value)
        r2 = at(out2, 0)
        if kind == "periodic":
            g.append(("idempotent", z3.Or(z3.fpEQ(r2, r), z3.And(z3.fpEQ(r, ONE), z3.fpEQ(r2, ZERO)))))
        else:
            g.append(("idempotent", z3.fpEQ(r2, r)))
        g.append(("idempotent:other-coordinate", at(out2, 1) == w))
        return g

    def witness(model, label):
        v, w = fp64.model_float(model, info["v"]), fp64.model_float(model, info["w"])
        if v is None:
            return {"replayer": "c16_fold", "input": None}
        return {"replayer": "c16_fold", "input": {"v": [float(v).hex(), float(w if w is not None else 0.5).hex()],
                                                   "periodic": [0] if kind == "periodic" else None,
                                                   "reflective": [0] if kind != "periodic" else None,
                                                   "ndim2": shape_kind != "1d"}}

    res = ctx.verify(f"fp64:{kind}:{shape_kind}", MC, "apply_boundary_conditions", setup, post,
                     extras=fp64.EXT_FP, witness=witness, replayer="c16_fold")
    for r in res:
        r.kind = "fp64"
    return res


def fp_bounds(ctx, shape_kind):
    info = {}

    def setup(I, st):
        shape = (2,) if shape_kind == "1d" else (1, 2)
        u, (v, w) = fp64.fp_input(st, ["v", "w"], shape)
        info.update(v=v, w=w, u=u)
        return dict(args=[u, info.get("P"), info.get("R")])

    def mk(P, R, tag):
        info["P"], info["R"] = P, R

        def setup2(I, st):
            d = setup(I, st)
            d["args"][1] = st.new_list(P) if P is not None else None
            d["args"][2] = st.new_list(R) if R is not None else None
            return d

        def post(I, o, pre):
            st = o.state
            v, w = info["v"], info["w"]
            res = o.value
            if isinstance(res, Ref):
                a = st.arr(res)
                ok = a.at(0) if a.ndim == 1 else a.at()
                shape_ok = (shape_kind == "2d" and tuple(a.shape) == (1,))
            else:
                ok = res
                shape_ok = shape_kind == "1d"
            ok = to_z3(ok) if isinstance(ok, bool) else ok
            special = set(P or []) | set(R or [])
            want = z3.And(*[in_unit(x) for j, x in enumerate((v, w)) if j not in special]) if len(special) < 2 else z3.BoolVal(True)
            return [("result-shape", shape_ok), ("accepts-iff-strict-coordinates-in-unit-interval", ok == want)]

        def witness(model, label):
            v, w = fp64.model_float(model, info["v"]), fp64.model_float(model, info["w"])
            if v is None or w is None:
                return {"replayer": "c16_fold", "input": None}
            return {"replayer": "c16_fold", "input": {"v": [float(v).hex(), float(w).hex()], "periodic": P, "reflective": R,
                                                       "ndim2": shape_kind != "1d"}}
        res = ctx.verify(f"fp64:bounds:{tag}:{shape_kind}", MC, "check_bounds", setup2, post, extras=fp_extras(),
                         witness=witness, replayer="c16_fold")
        for r in res:
            r.kind = "fp64"

    mk(None, None, "all-strict")
    mk([0], None, "periodic0")
    mk(None, [1], "reflective1")
    mk([0], [1], "all-special")
    mk([1], [], "periodic1-empty-reflective")


def fp_lemmas(ctx, which):
    for lab, pre, goal in fp64.fmod_exactness_lemmas()[which:which + 1]:
        r = ctx.lemma(f"A2-fp/{lab}", [pre], goal, kind="fp64",
                      detail="the fmod model's division/product/subtraction are exact (rounding-mode independent)")


# ----------------------------------------------------------------------------------------- T-ARR (reals)
FLOORI = z3.Function("floor_int", z3.RealSort(), z3.IntSort())


def floor_axiom():
    """floor characterised by its defining property; instantiated by E-matching on the floor terms that occur
    (more robust inside quantified invariants than the built-in to_int)."""
    t = z3.Real("t!fl")
    return z3.ForAll([t], z3.And(z3.ToReal(FLOORI(t)) <= t, t < z3.ToReal(FLOORI(t)) + 1), patterns=[FLOORI(t)])


def fl(x):
    return z3.ToReal(FLOORI(x))


def pm(x):
    """x modulo 1 over the reals."""
    return x - fl(x)


def tri(x):
    """period-2 triangle wave: distance to the nearest even integer."""
    e = 2 * fl((x + 1) / 2)
    return z3.If(x - e >= 0, x - e, e - x)


def index_array(st, name, d):
    p = fresh_scalar("int", "len_" + name)
    A = fresh_arr((p,), "int", name)
    k = z3.Int(fresh_name("k"))
    st.assume(p >= 0)
    st.assume(z3.ForAll([k], z3.Implies(z3.And(k >= 0, k < p), z3.And(A.at(k) >= 0, A.at(k) < d)), patterns=[A.at(k)]))
    from pyvc import pysets
    In = pysets.member_of_array(st, A)
    return st.new_arr(A), A, In, p


def arr_extras():
    import ast
    from pyvc import pysets

    def np_floor(I, st, args, kw, node):
        return npmodel.lift1(I, st, lambda x: float(__import__("math").floor(x)) if is_conc(x) else fl(to_z3(x, "real")),
                             args[0], "real")

    def binop(I, st, op, l, r, node):
        if isinstance(op, ast.Mod) and is_conc(r) and not isinstance(r, bool) and r > 0:
            A = npmodel.arr_of(st, l)
            if (A is not None and A.sort == "real") or npmodel.is_real_like(l):
                b = to_z3(float(r), "real")
                return npmodel.lift1(I, st, lambda x: to_z3(x, "real") - b * fl(to_z3(x, "real") / b), l, "real")
        return npmodel.binop(I, st, op, l, r, node)
    e = pysets.extras(base_binop=binop)
    e["numpy.floor"] = np_floor
    e[("method", "scalar", "astype")] = fp64.scalar_astype
    return e


def fp_extras():
    from pyvc import pysets
    e = dict(fp64.EXT_FP)
    e.update(pysets.extras(base_binop=fp64.binop))
    return e


PMF = z3.Function("coord_map_periodic", z3.RealSort(), z3.RealSort())
TRIF = z3.Function("coord_map_reflective", z3.RealSort(), z3.RealSort())
ELEM = {}     # kind -> (symbol v, term E(v)): the per-coordinate map the real code computes (extracted by the scalar run)


def elem_map(ctx, kind):
    """Scalar run over the reals (one coordinate, designated): extracts the element-wise term E(v) the real source
    computes and proves E = the specified fold, its range and idempotence (quantifier-free + floor axiom).  The
    array-level proof then uses E only through these facts (modular: caller against contract)."""
    info = {}

    def setup(I, st):
        st.assume(floor_axiom())
        v = z3.Real("v!" + kind)
        u = st.new_arr(Arr((1,), lambda i: v, "real"))
        lst = st.new_list([0])
        info.update(v=v)
        return dict(args=[u, lst if kind == "periodic" else None, lst if kind != "periodic" else None])

    def post(I, o, pre):
        E = to_z3(o.state.arr(o.value).at(0), "real")
        v = info["v"]
        ELEM[kind] = (v, E)
        EE = z3.substitute(E, (v, E))
        spec = pm(v) if kind == "periodic" else tri(v)
        g = [("value:" + ("v-modulo-1" if kind == "periodic" else "period-2-triangle-wave"), E == spec),
             ("range", z3.And(E >= 0, E < 1) if kind == "periodic" else z3.And(E >= 0, E <= 1)),
             ("idempotent", EE == E),
             ("identity-on-the-unit-interval", z3.Implies(z3.And(v >= 0, v < 1) if kind == "periodic" else z3.And(v >= 0, v <= 1), E == v))]
        return g

    def witness(model, label):
        from pyvc.replay import zval
        x = zval(model, info["v"])
        if not isinstance(x, (int, float)):
            return {"replayer": "c16_fold", "input": None}
        return {"replayer": "c16_fold", "input": {"v": [float(x).hex(), (0.5).hex()],
                                                   "periodic": [0] if kind == "periodic" else None,
                                                   "reflective": [0] if kind != "periodic" else None}}
    return ctx.verify(f"reals:coordinate-map:{kind}", MC, "apply_boundary_conditions", setup, post, extras=arr_extras(),
                      witness=witness, replayer="c16_fold")


def elem_axioms(kind):
    F = PMF if kind == "periodic" else TRIF
    if kind not in ELEM:
        raise Unsupported(f"the per-coordinate {kind} map could not be extracted from the source (see reals:coordinate-map:{kind})")
    t = z3.Real("t!" + kind)
    return [z3.ForAll([t], F(F(t)) == F(t), patterns=[F(F(t))])]          # proved: reals:coordinate-map/idempotent


def _match(pat, term, hole, env):
    """syntactic matching of `pat` (with one hole) against `term`."""
    if pat.eq(hole):
        if "v" in env:
            return env["v"].eq(term)
        env["v"] = term
        return True
    if z3.is_app(pat) and z3.is_app(term):
        if not pat.decl().eq(term.decl()) or pat.num_args() != term.num_args():
            return False
        if pat.num_args() == 0:
            return pat.eq(term)
        return all(_match(p, t, hole, env) for p, t in zip(pat.children(), term.children()))
    return pat.eq(term)


def abstract(term, cache=None):
    """Replace every instance E(t) of an extracted per-coordinate term by the map symbol F(t).  Sound: E(t) = F(t)
    is the definition of F (and E's properties are proved by the scalar run); afterwards the array-level VCs are
    free of floor arithmetic."""
    cache = {} if cache is None else cache
    if not z3.is_expr(term) or not z3.is_app(term):
        return term
    k = term.get_id()
    if k in cache:
        return cache[k]
    out = None
    for kind, F in (("reflective", TRIF), ("periodic", PMF)):
        if kind in ELEM:
            v, E = ELEM[kind]
            env = {}
            if z3.is_app(E) and not E.eq(v) and _match(E, term, v, env) and "v" in env:
                out = F(abstract(env["v"], cache))
                break
    if out is None:
        if term.num_args() == 0:
            out = term
        else:
            kids = [abstract(c, cache) for c in term.children()]
            out = term if all(a.eq(b) for a, b in zip(kids, term.children())) else term.decl()(*kids)
    cache[k] = out
    return out


def _ids(e):
    seen, todo = set(), [e]
    while todo:
        x = todo.pop()
        if x.get_id() in seen:
            continue
        seen.add(x.get_id())
        todo.extend(x.children())
    return seen


def arr_fold(ctx, two_d, with_p, with_r):
    info = {}
    tag = ("2d" if two_d else "1d") + (":periodic" if with_p else "") + (":reflective" if with_r else "") + \
        ("" if (with_p or with_r) else ":none")

    def rows(a, i, j):
        return a.at(i, j) if two_d else a.at(j)

    def setup(I, st):
        n, d = fresh_scalar("int", "n"), fresh_scalar("int", "d")
        st.assume(z3.And(n >= 1, d >= 1))
        u0 = fresh_arr((n, d) if two_d else (d,), "real", "u")
        uref = st.new_arr(u0)
        info.update(n=n, d=d, u0=u0, uref=uref)
        P = R = None
        if with_p:
            P, PA, InP, lp = index_array(st, "periodic", d)
            info.update(PA=PA, InP=InP, lp=lp)
            for ax in elem_axioms("periodic"):
                st.assume(ax)
        if with_r:
            R, RA, InR, lr = index_array(st, "reflective", d)
            info.update(RA=RA, InR=InR, lr=lr)
            for ax in elem_axioms("reflective"):
                st.assume(ax)
        if with_p and with_r:   # SamplerConfig.validate rejects overlapping index sets (C18)
            j = z3.Int(fresh_name("j"))
            st.assume(z3.ForAll([j], z3.Not(z3.And(info["InP"](j), info["InR"](j))), patterns=[info["InP"](j)]))
            st.assume(z3.ForAll([j], z3.Not(z3.And(info["InP"](j), info["InR"](j))), patterns=[info["InR"](j)]))
        return dict(args=[uref, P, R])

    def mk_inv(which):
        def inv(v):
            X, In, f = (info["PA"], info["InP"], PMF) if which == "p" else (info["RA"], info["InR"], TRIF)
            u = v["u"]
            base = v.pre["u"]          # the array at loop entry
            n, d = info["n"], info["d"]
            i, j, q = z3.Int(fresh_name("i")), z3.Int(fresh_name("j")), z3.Int(fresh_name("q"))
            rng = z3.And(i >= 0, i < n, j >= 0, j < d) if two_d else z3.And(j >= 0, j < d)
            shape_ok = z3.And(*[to_z3(a, "int") == to_z3(b, "int") for a, b in zip(u.shape, base.shape)]) \
                if len(u.shape) == len(base.shape) else z3.BoolVal(False)
            qs = [i, j] if two_d else [j]
            body = z3.And(z3.Implies(z3.Not(In(j)), rows(u, i, j) == rows(base, i, j)),
                          z3.Or(rows(u, i, j) == rows(base, i, j), rows(u, i, j) == f(rows(base, i, j))))
            done_rng = z3.And(i >= 0, i < n, q >= 0, q < v.k) if two_d else z3.And(q >= 0, q < v.k)
            done = rows(u, i, X.at(q)) == f(rows(base, i, X.at(q)))
            return z3.And(shape_ok,
                          z3.ForAll(qs, z3.Implies(rng, body)),
                          z3.ForAll([i, q] if two_d else [q], z3.Implies(done_rng, done)))
        return inv

    def post(I, o, pre):
        st = o.state
        out = st.arr(o.value)
        u0, n, d = info["u0"], info["n"], info["d"]
        i, j = z3.Int(fresh_name("i")), z3.Int(fresh_name("j"))
        rng = z3.And(i >= 0, i < n, j >= 0, j < d) if two_d else z3.And(j >= 0, j < d)
        qs = [i, j] if two_d else [j]
        F = z3.BoolVal(False)
        inp = info["InP"](j) if with_p else F
        inr = info["InR"](j) if with_r else F
        x, y = rows(u0, i, j), rows(out, i, j)
        now = st.arr(info["uref"])
        g = [("shape-preserved", z3.And(*[to_z3(a, "int") == to_z3(b, "int") for a, b in zip(out.shape, u0.shape)])
              if len(out.shape) == len(u0.shape) else False),
             ("argument-not-mutated", z3.ForAll(qs, z3.Implies(rng, rows(now, i, j) == x))),
             ("non-designated-coordinates-untouched", z3.ForAll(qs, z3.Implies(z3.And(rng, z3.Not(inp), z3.Not(inr)), y == x)))]
        if with_p:
            g.append(("periodic-coordinates:receive-the-periodic-coordinate-map", z3.ForAll(qs, z3.Implies(z3.And(rng, inp), y == PMF(x)))))
        if with_r:
            g.append(("reflective-coordinates:receive-the-reflective-coordinate-map", z3.ForAll(qs, z3.Implies(z3.And(rng, inr), y == TRIF(x)))))
        return g

    loops = {0: LoopSpec(lambda v: mk_inv("p")(v), label="periodic-loop"),
             1: LoopSpec(lambda v: mk_inv("r")(v), label="reflective-loop")}
    if not with_p:
        # loop ordinals follow source order; with periodic=None the first `for` is never reached and the reflective loop
        # is still ordinal 1 (ordinals count loops in the source, not loops executed)
        pass
    ex = arr_extras()

    def setitem(I, st, base, sl, value, mod, node):
        npmodel.setitem(I, st, base, sl, value, mod, node)
        if isinstance(base, Ref) and base.kind == "arr":
            A = st.arr(base)
            if A.sort == "real":
                st.set_arr(base, Arr(A.shape, lambda *i, A=A: abstract(to_z3(A.at(*i), "real")), "real"))
    ex["__setitem__"] = setitem
    return ctx.verify(f"reals:{tag}", MC, "apply_boundary_conditions", setup, post, loops=loops, extras=ex,
                      replayer="c16_fold")


def arr_bounds(ctx, two_d, with_p, with_r):
    info = {}
    tag = ("2d" if two_d else "1d") + (":periodic" if with_p else "") + (":reflective" if with_r else "") + \
        ("" if (with_p or with_r) else ":none")

    def setup(I, st):
        n, d = fresh_scalar("int", "n"), fresh_scalar("int", "d")
        st.assume(z3.And(n >= 1, d >= 1))
        u0 = fresh_arr((n, d) if two_d else (d,), "real", "u")
        info.update(n=n, d=d, u0=u0)
        P = R = None
        if with_p:
            P, PA, InP, lp = index_array(st, "periodic", d)
            info.update(InP=InP)
        if with_r:
            R, RA, InR, lr = index_array(st, "reflective", d)
            info.update(InR=InR)
        return dict(args=[st.new_arr(u0), P, R])

    def post(I, o, pre):
        st = o.state
        u0, n, d = info["u0"], info["n"], info["d"]
        j = z3.Int(fresh_name("j"))
        F = z3.BoolVal(False)
        sp = z3.Or(info["InP"](j) if with_p else F, info["InR"](j) if with_r else F)
        res = o.value

        enum = [v for k_, v in st.ghost.items() if isinstance(k_, tuple) and k_ and k_[0] == "enum"]

        def want(i, with_witness=False):
            x = u0.at(i, j) if two_d else u0.at(j)
            body = z3.And(x >= 0, x <= 1)
            if with_witness and len(enum) == 1:
                # same statement with the enumeration position of j named in it (pos(j) is the witness the proof
                # needs; mentioning it makes the L-ENUM axiom fire on the skolemised coordinate)
                mem, pos, m = enum[0]
                body = z3.And(body, pos(j) >= 0)
            return z3.ForAll([j], z3.Implies(z3.And(j >= 0, j < d, z3.Not(sp)), body))
        if two_d:
            if not isinstance(res, Ref):
                return [("result-shape", False)]
            a = st.arr(res)
            i = z3.Int(fresh_name("i"))
            return [("result-shape", z3.And(a.ndim == 1, to_z3(a.shape[0], "int") == n) if a.ndim == 1 else False),
                    ("accepted-rows-have-strict-coordinates-in-unit-interval",
                     z3.ForAll([i], z3.Implies(z3.And(i >= 0, i < n, to_z3(a.at(i))), want(i, True)))),
                    ("rows-with-strict-coordinates-in-unit-interval-are-accepted",
                     z3.ForAll([i], z3.Implies(z3.And(i >= 0, i < n, want(i)), to_z3(a.at(i)))))]
        ok = res
        if isinstance(res, Ref):
            a = st.arr(res)
            if a.ndim != 0:
                return [("result-shape", False)]
            ok = a.at()
        ok = I.truth(ok, st)
        ok = to_z3(ok) if isinstance(ok, bool) else ok
        return [("result-shape", True), ("accepted-point-has-strict-coordinates-in-unit-interval", z3.Implies(ok, want(None, True))),
                ("point-with-strict-coordinates-in-unit-interval-is-accepted", z3.Implies(want(None), ok))]

    return ctx.verify(f"reals:bounds:{tag}", MC, "check_bounds", setup, post, extras=arr_extras(), replayer="c16_fold")


def real_lemmas(ctx):
    """Consequences used by C03/L2 (symmetric proposal on the folded space): characterisation of pre-images."""
    x, y = z3.Reals("x y")
    k = z3.Int("k")
    ctx_lemma = ctx.lemma
    fl = lambda t: z3.ToReal(z3.ToInt(t))          # these stand-alone lemmas use the solver's built-in floor
    pm = lambda t: t - fl(t)
    tri = lambda t: z3.If(t - 2 * fl((t + 1) / 2) >= 0, t - 2 * fl((t + 1) / 2), 2 * fl((t + 1) / 2) - t)
    ev = lambda t: 2 * fl((t + 1) / 2)      # nearest even integer
    d1 = "fold(x)=fold(y) <=> x-y in Z: the pre-images of a point are {u'+k}, paired off by k -> -k with equal |v-u|"
    ctx_lemma("lemma/periodic-preimages:integer-shift-same-image", [x == y + z3.ToReal(k)], pm(x) == pm(y), detail=d1)
    ctx_lemma("lemma/periodic-preimages:same-image-integer-shift", [pm(x) == pm(y)], x - y == fl(x) - fl(y), detail=d1)
    d2 = "tri(x)=tri(y) <=> x-y in 2Z or x+y in 2Z: pre-images {±u'+2k}"
    ctx_lemma("lemma/reflective-preimages:even-shift-same-image", [x == y + 2 * z3.ToReal(k)], tri(x) == tri(y), detail=d2)
    ctx_lemma("lemma/reflective-preimages:mirror-even-shift-same-image", [x == -y + 2 * z3.ToReal(k)], tri(x) == tri(y), detail=d2)
    ctx_lemma("lemma/reflective-preimages:same-image-shift-or-mirror", [tri(x) == tri(y)],
              z3.Or(x - y == ev(x) - ev(y), x + y == ev(x) + ev(y)), detail=d2)
    ctx_lemma("lemma/fold-ranges-and-fixed-points", [],
              z3.And(tri(x) >= 0, tri(x) <= 1, pm(x) >= 0, pm(x) < 1,
                     z3.Implies(z3.And(x >= 0, x <= 1), tri(x) == x),
                     z3.Implies(z3.And(x >= 0, x < 1), pm(x) == x),
                     tri(tri(x)) == tri(x), pm(pm(x)) == pm(x)))
    ctx.expect_sat("lemma/canary", [x == y + z3.ToReal(k), x != y])


def fp_model_crosscheck(ctx):
    """A2-fp differential test (bounded, never counted as proof): the binary64 terms the interpreter builds from the
    real source are evaluated on concrete doubles by z3 and compared bit-for-bit with the installed numpy running the
    real function."""
    import json, os, random, struct, subprocess, tempfile
    from pyvc.framework import ObResult
    from pyvc.state import State
    rnd = random.Random(ctx.seed)
    vals = [0.0, -0.0, 5e-324, -5e-324, 1e-300, -1e-300, 1e-20, -1e-20, 2.0 ** -54, -(2.0 ** -54), 0.5, 1.0, -1.0, 1.5, -1.5, 2.0, -2.0,
            2.5, -2.5, 3.0, 0.9999999999999999, 1.0000000000000002, -0.9999999999999999, 2.0 ** 52 + 0.5, -(2.0 ** 52) - 0.5,
            2.0 ** 53, 2.0 ** 63, -(2.0 ** 63), 1e19, -1e19, 1e300, -1e300, 1.7976931348623157e308, 0.1, -0.1, 7.3, -7.3]
    n_rand = 60 if ctx.tier == "quick" else 600
    for _ in range(n_rand):
        vals.append(struct.unpack("<d", struct.pack("<Q", rnd.getrandbits(64)))[0])
        vals.append(rnd.uniform(-4, 4))
    vals = [v for v in vals if v == v and abs(v) != float("inf")]
    terms = {}
    for kind in ("periodic", "reflective"):
        I = ctx.interp(extras=fp64.EXT_FP)
        st = State()
        u, (v, w) = fp64.fp_input(st, ["v", "w"], (2,))
        lst = st.new_list([0])
        outs = I.call_function(MC, "apply_boundary_conditions", st, [u, lst if kind == "periodic" else None,
                                                                      lst if kind != "periodic" else None])
        o = _single(I, outs)
        terms[kind] = (v, o.state.arr(o.value).at(0))
    prog = ("import sys, json, numpy as np\nfrom tempest import mcmc\nvals=[float.fromhex(x) for x in json.load(open(sys.argv[1]))]\n"
            "out={'periodic':[float(mcmc.apply_boundary_conditions(np.array([x,0.5]),[0],None)[0]).hex() for x in vals],"
            "'reflective':[float(mcmc.apply_boundary_conditions(np.array([x,0.5]),None,[0])[0]).hex() for x in vals]}\nprint(json.dumps(out))")
    with tempfile.NamedTemporaryFile("w", suffix=".json", delete=False) as f:
        json.dump([x.hex() for x in vals], f)
        path = f.name
    env = dict(os.environ, PYTHONPATH=os.environ.get("VERIF_REPO", "/repo"), PYTHONWARNINGS="ignore")
    r = subprocess.run(["/venv/bin/python", "-c", prog, path], capture_output=True, text=True, env=env, cwd=tempfile.gettempdir())
    os.unlink(path)
    lines = [l for l in r.stdout.splitlines() if l.startswith("{")]
    if not lines:
        ctx.add(ObResult("C16/A2-fp/model-vs-numpy", "error", kind="bounded", detail="native run failed: " + r.stderr[-400:]))
        return
    native = json.loads(lines[-1])
    mism = []
    for kind, (v, term) in terms.items():
        for x, hx in zip(vals, native[kind]):
            got = z3.simplify(z3.substitute(term, (v, fpv(x))))
            want = float.fromhex(hx)
            same = z3.is_true(z3.simplify(z3.Or(z3.fpEQ(got, fpv(want)), z3.And(z3.fpIsNaN(got), z3.BoolVal(want != want)))))
            if not same:
                mism.append((kind, x.hex(), hx, str(got)))
    ctx.bounded.append({"clause": "A2-fp: binary64 model of numpy %, floor, where, == (as built from the real source) agrees with the installed numpy",
                        "bound": f"{len(vals)} doubles per map (edge set + {2 * n_rand} random, seed {ctx.seed})", "cases": 2 * len(vals),
                        "mismatches": len(mism)})
    if mism:
        ctx.add(ObResult("C16/A2-fp/model-vs-numpy", "error", kind="bounded",
                         detail=f"the T-FP64 model disagrees with numpy on the real function (engine/model defect, not a verdict): {mism[:3]}"))
    else:
        ctx.add(ObResult("C16/A2-fp/model-vs-numpy", "discharged", backend="pyvc-own", kind="bounded",
                         detail=f"{2 * len(vals)} concrete evaluations agree bit-for-bit"))


def run(ctx):
    ctx.split_first = True
    for kind in ("periodic", "reflective"):
        elem_map(ctx, kind)
    thunks = []
    for two_d in (False, True):
        for (wp, wr) in ((True, True), (True, False), (False, True), (False, False)):
            thunks.append(lambda c, a=two_d, b=wp, d=wr: arr_fold(c, a, b, d))
            thunks.append(lambda c, a=two_d, b=wp, d=wr: arr_bounds(c, a, b, d))
    thunks.append(real_lemmas)

    def fp(f, *a):
        def t(c):
            c.timeout_ms = 600000 if c.tier == "quick" else 1800000
            f(c, *a)
        return t
    for kind in ("periodic", "reflective"):
        for sk in ("1d", "2d"):
            thunks.append(fp(fp_fold, kind, sk))
    for sk in ("1d", "2d"):
        thunks.append(fp(fp_bounds, sk))
    thunks.append(fp(fp_lemmas, 0))
    thunks.append(fp(fp_lemmas, 1))
    def crosscheck_guarded(c):
        try:
            fp_model_crosscheck(c)
        except (Unsupported, PyRaise, AttributeError, TypeError, KeyError, IndexError, ValueError, z3.Z3Exception) as e:
            from pyvc.framework import ObResult
            r = c.add(ObResult("C16/A2-fp/model-vs-numpy", "unknown", kind="bounded",
                               detail=f"the binary64 run of the source is outside the supported subset ({type(e).__name__}: {str(e)[:160]})"))
            r.replayer = "c16_fold"
    thunks.append(crosscheck_guarded)
    ctx.parallel(thunks)
    ctx.trust("A1 for the T-ARR run only: floats as reals (the binary64 behaviour of the same source is the T-FP64 run)",
              "A2-fp: numpy float64 `%` = npy_divmod (exact fmod, sign fix-up, +0 for zero), np.floor = roundToIntegral(RTN), "
              "+,- = IEEE RNE, == = fp.eq, astype(int) = cvttsd2si; element-wise operations act coordinate by coordinate "
              "(so the 2-coordinate T-FP64 instances stand for every shape; the shape generality itself is the T-ARR proof)",
              "z3 QF_FP decision procedure (bit-blasting)",
              "floor over the reals characterised by floor(t) <= t < floor(t)+1 (T-ARR run)",
              "L-ENUM: list(set) enumerates the members bijectively in unspecified order; set/update/difference as predicates",
              "SamplerConfig.validate rejects overlapping periodic/reflective index sets and out-of-range indices (C18) — used as precondition",
              "symmetric-proposal consequence: from the pre-image lemmas, q(u->u') = sum_k phi(u'+k-u) (periodic) resp. "
              "sum_k [phi(u'+2k-u) + phi(-u'+2k-u)] (reflective) per coordinate; symmetric for a density that is even under full "
              "negation (periodic) resp. even in the reflected coordinate alone (reflective): the re-indexing of the infinite sum is a "
              "textbook step, not machine-checked.  For a *correlated* multivariate proposal the reflective case does NOT follow "
              "(increments (e0,e1) vs (e0,-e1)): recorded as known finding under C03 (RWM + reflective + correlated scale)")
    ctx.undecided_clauses.append("closeness of the binary64 reflective fold to the real triangle wave (|res - tri(v)| <= 2^-53) is not an SMT "
                                 "obligation; it is checked by the native replayer's exact-rational oracle on the directed search set only (bounded)")
