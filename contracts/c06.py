"""C06 — resampling returns exactly n valid indices and is unbiased (DESIGN §2/C06)."""
import z3

from pyvc.interp import LoopSpec
from pyvc.values import Ref, Arr, Opaque, Unsupported, to_z3, fresh_scalar, fresh_arr
from pyvc import npmodel
from pyvc.theories import sums
from .common import *  # noqa

RS = "tempest.steps.resample"
SQRTEPS = 1.4901161193847656e-08


def pos(u0, q, size):
    """comb position q.  u0 is the one shared offset (a z3 Real); a callable u0 stands for per-position offsets u0(q)"""
    return ((u0(q) if callable(u0) else u0) + z3.ToReal(q)) / z3.ToReal(size)


def offset_of(st):
    """the uniform offset of the comb as drawn by the code: a z3 Real for the one shared np.random.random() draw, a function of the
    position when the code draws one offset per position (then the comb is not systematic: see the `one-shared-offset` obligation)"""
    kind, val = st.ghost["draws"][-1]
    if kind == "random":
        return val, True
    a = st.arr(val)
    return (lambda q: a.at(q)), False


def charac(P, idx, q, u0, size, n, absorb_last=False):
    """sample q selects the first index whose cumulative weight reaches its comb position: P(i-1) < pos_q <= P(i).
    No escape clause for the last index: the weights the comb runs over sum to one, so every position (< 1) has its cell.
    absorb_last=True is the binary64 safety arm only: there the running total may end a rounding error below the last position and
    the last index takes it (index *safety* is what that arm proves, not the copy counts)."""
    iq = idx.at(q)
    upper = pos(u0, q, size) <= P(iq)
    if absorb_last:
        upper = z3.Or(upper, iq == n - 1)
    return z3.And(z3.Or(iq == 0, P(iq - 1) < pos(u0, q, size)), upper)


def systematic(ctx, arm):
    info = {}

    def setup(I, st):
        size = fresh_scalar("int", "size")
        n = fresh_scalar("int", "n")
        w = fresh_arr((n,), "real", "w")
        i = z3.Int("i!w")
        st.assume(z3.And(size >= 1, n >= 1))
        st.assume(z3.ForAll([i], z3.Implies(z3.And(i >= 0, i < n), w.at(i) >= 0)))
        wr = st.new_arr(w)
        S = sums.total(st, w)
        if arm == "sum-exactly-one":
            st.assume(S == 1)
        else:
            st.assume(z3.And(S != 1, S > 0))
        info["rounded"] = arm == "rounded-total"
        info.update(size=size, n=n, w=w, wr=wr)
        return dict(args=[size, wr])

    def facts(v):
        st = v.state
        W = v["weights"]
        P = sums.prefix_fn(st, W)
        u0 = offset_of(st)[0]
        return W, P, u0

    def outer(v):
        W, P, u0 = facts(v)
        size, n = info["size"], to_z3(W.shape[0], "int")
        k, j, idx = v.k, v["j"], v["indeces"]
        q = z3.Int("q!o")
        return z3.And(
            n == info["n"], to_z3(idx.shape[0], "int") == size,
            j >= 0, j < n, v["cumulative_sum"] == P(j),
            z3.Or(j == 0, z3.And(k >= 1, P(j - 1) < pos(u0, k - 1, size))),
            z3.ForAll([q], z3.Implies(z3.And(q >= 0, q < k), z3.And(idx.at(q) >= 0, idx.at(q) <= j))),
            z3.ForAll([q], z3.Implies(z3.And(q >= 0, q < k - 1), idx.at(q) <= idx.at(q + 1))),
            z3.ForAll([q], z3.Implies(z3.And(q >= 0, q < k), charac(P, idx, q, u0, size, n, absorb_last=info["rounded"]))))

    def inner(v):
        W, P, u0 = facts(v)
        size, n = info["size"], to_z3(W.shape[0], "int")
        j, i = v["j"], v["i"]
        return z3.And(j >= v.pre["j"], j < n, j >= 0, v["cumulative_sum"] == P(j),
                      z3.Or(j == 0, P(j - 1) < pos(u0, i, size)))

    def post(I, o, pre):
        st = o.state
        idx = st.arr(o.value)
        size = info["size"]
        # the weights the comb ran over (renormalised or not) and their prefix sums
        W = None
        for (a, P) in st.ghost.get("sumarrs", []):
            W, Pw = a, P
        lst = st.ghost["sumarrs"]
        W, Pw = lst[-1]
        n = info["n"]
        u0, shared = offset_of(st)
        q = z3.Int("q!p")
        g = [("one-shared-offset", z3.BoolVal(shared and len([d for d in st.ghost["draws"] if d[0] in ("random", "rand")]) == 1)),
             ("length", to_z3(idx.shape[0], "int") == size),
             ("range", z3.ForAll([q], z3.Implies(z3.And(q >= 0, q < size), z3.And(idx.at(q) >= 0, idx.at(q) < n)))),
             ("monotone", z3.ForAll([q], z3.Implies(z3.And(q >= 0, q < size - 1), idx.at(q) <= idx.at(q + 1)))),
             ("characterisation", z3.ForAll([q], z3.Implies(z3.And(q >= 0, q < size),
                                                            charac(st.ghost["final_P"], idx, q, u0, size, n, absorb_last=info["rounded"]))))]
        if info["rounded"]:
            return g[:4]          # binary64 safety arm: exactly `size` indices, each valid, non-decreasing — whatever the rounding of the total
        g.append(("comb-runs-over-weights-summing-to-one", st.ghost["final_P"](n - 1) == 1))
        return g

    def outer_rec(v):
        f = outer(v)
        v.state.ghost["final_P"] = facts(v)[1]
        return f

    def witness(model, label):
        from pyvc.replay import zval
        n = zval(model, info["n"])
        size = zval(model, info["size"])
        if not (isinstance(n, int) and 1 <= n <= 64 and isinstance(size, int) and 1 <= size <= 64):
            return {"replayer": "c06_systematic", "input": {}}
        w = [zval(model, info["w"].at(i)) for i in range(n)]
        u0 = None
        for d in model.decls():
            if d.name().startswith("u0!"):
                u0 = zval(model, d())
        return {"replayer": "c06_systematic", "input": {"size": size, "w": w, "u0": u0 if u0 is not None else 0.5}}

    def h_sum_rounded(I, st, args, kw, node):
        """binary64 model of np.sum(weights): the pairwise-summed total differs from the sequentially accumulated running total of
        the comb loop by a relative rounding error (|eps| <= 1e-12 covers 1e4 terms); after dividing by it the weights the loop
        accumulates end within that error of 1 — above or below"""
        a = st.arr(args[0])
        eps = fresh_scalar("real", "eps_sum")
        st.assume(z3.And(eps >= -z3.RealVal("1e-12"), eps <= z3.RealVal("1e-12")))
        return sums.total(st, a) * (1 + eps)
    ex_r = {"numpy.sum": h_sum_rounded} if arm == "rounded-total" else None
    ctx.verify(arm, TOOLS, "systematic_resample", setup, post, witness=witness, replayer="c06_systematic", extras=ex_r,
               loops={0: LoopSpec(outer_rec, label="comb"),
                      1: LoopSpec(inner, label="advance", variant=(lambda v: ("int", info["n"] - 1 - v["j"])) if ctx.prop == "C18" else None)})


def counting_lemmas(ctx):
    """L1: the number of comb points falling into a cumulative-weight cell of length L is floor(L) or ceil(L):
    #{k in Z : A < k + u0... } is expressed with floors; proved for all reals by z3 (LIRA)."""
    A, L = z3.Reals("A L")
    fl = lambda x: z3.ToReal(z3.ToInt(x))
    cnt = fl(A + L) - fl(A)     # number of integers in (A, A+L]
    ctx.lemma("lemma/copies-floor-or-ceil", [L >= 0],
              z3.Or(cnt == fl(L), cnt == fl(L) + 1), detail="|Z ∩ (A, A+L]| ∈ {⌊L⌋, ⌊L⌋+1}; equals ⌈L⌉ when L is not an integer")
    Li = z3.Int("Li")
    ctx.lemma("lemma/copies-integer-cell", [Li >= 0, L == z3.ToReal(Li)], z3.ToInt(A + L) - z3.ToInt(A) == Li,
              detail="integer cell length ⇒ exactly L copies")
    ctx.expect_sat("lemma/canary", [L >= 0, cnt == fl(L) + 1])


def resampler(ctx, scheme):
    """Resampler.run: the index vector handed to the gathers has exactly n_particles valid entries."""
    info = {}

    def h_choice(I, st, args, kw, node):
        """Assumed contract of np.random.choice(a, size, replace=True, p): requires p>=0, |sum p - 1| <= sqrt(eps),
        len(p)==len(a); returns `size` elements of a."""
        a = st.arr(args[0])
        size, p = kw["size"], st.arr(kw["p"])
        q = z3.Int("q!c")
        S = sums.total(st, p)
        I.oblige(f"call:np.random.choice:p-is-a-distribution@{node.lineno}", st,
                 z3.And(to_z3(p.shape[0], "int") == to_z3(a.shape[0], "int"),
                        z3.ForAll([q], z3.Implies(z3.And(q >= 0, q < to_z3(p.shape[0], "int")), p.at(q) >= 0)),
                        S - 1 <= z3.RealVal(repr(SQRTEPS)), 1 - S <= z3.RealVal(repr(SQRTEPS))), node)
        pick = fresh_arr((size,), "int", "pick")
        st.assume(z3.ForAll([q], z3.Implies(z3.And(q >= 0, q < to_z3(size, "int")),
                                            z3.And(pick.at(q) >= 0, pick.at(q) < to_z3(a.shape[0], "int")))))
        st.ghost["idx"] = Arr((size,), lambda k: a.at(pick.at(k)), "int")
        return st.new_arr(st.ghost["idx"])

    def h_syst(I, st, args, kw, node):
        """Contract of tools.systematic_resample (verified above)."""
        size = args[0]
        w = st.arr(kw.get("weights", args[1] if len(args) > 1 else None))
        n = to_z3(w.shape[0], "int")
        q = z3.Int("q!s")
        I.oblige(f"call:systematic_resample:requires@{node.lineno}", st,
                 z3.And(to_z3(size, "int") >= 1, n >= 1,
                        z3.ForAll([q], z3.Implies(z3.And(q >= 0, q < n), w.at(q) >= 0))), node)
        I.oblige(f"call:systematic_resample:random_state-left-None@{node.lineno}", st,
                 kw.get("random_state", args[2] if len(args) > 2 else None) is None, node)
        idx = fresh_arr((size,), "int", "sidx")
        st.assume(z3.ForAll([q], z3.Implies(z3.And(q >= 0, q < to_z3(size, "int")), z3.And(idx.at(q) >= 0, idx.at(q) < n))))
        st.ghost["idx"] = idx
        return st.new_arr(idx)

    def h_get_history(I, st, args, kw, node):
        sm, key = args[0], args[1]
        N, d = st.cell(sm)["__N__"], st.cell(sm)["n_dim"]
        if key in ("u", "x"):
            return st.new_arr(fresh_arr((N, d), "real", "H" + key))
        return st.new_arr(fresh_arr((N,), "real", "H" + key))

    def h_predict(I, st, args, kw, node):
        a = st.arr(args[1])
        return st.new_arr(fresh_arr((a.shape[0],), "int", "labels"))

    reg = state_registry()
    reg[(SM, "StateManager.get_history")] = h_get_history
    reg[(TOOLS, "systematic_resample")] = h_syst

    def setup(I, st):
        n = fresh_scalar("int", "n_particles")
        st.assume(n >= 1)
        beta = fresh_scalar("real", "beta")
        st.assume(z3.And(beta > 0, beta <= 1))
        sm = make_state_manager(st, {"beta": beta})
        N = st.cell(sm)["__N__"]
        st.assume(z3.And(st.cell(sm)["__T__"] >= 1, st.cell(sm)["n_dim"] >= 1))
        w = fresh_arr((N,), "real", "weights")
        q = z3.Int("q!w")
        st.assume(z3.ForAll([q], z3.Implies(z3.And(q >= 0, q < N), w.at(q) >= 0)))
        # postcondition of Reweighter._finalize_iteration (C05): weights / sum(weights).  In exact arithmetic the total is 1; the
        # contract only grants numpy's own tolerance band (what a rounded normalisation satisfies), so a draw routine that needs
        # the total to be *exactly* 1 (e.g. searchsorted on the cumulative sum) does not verify
        S_ = sums.total(st, w)
        st.assume(z3.And(S_ - 1 <= z3.RealVal(repr(SQRTEPS)), 1 - S_ <= z3.RealVal(repr(SQRTEPS))))
        clus = st.new_obj("HierarchicalGaussianMixture", __module__="abstract")
        rs = st.new_obj("Resampler", __module__=RS, state=sm, n_particles=n, resample=scheme, clusterer=clus,
                        clustering=True, have_blobs=False)
        info.update(n=n, N=N, sm=sm)
        return dict(self_val=rs, args=[st.new_arr(w)])

    def post(I, o, pre):
        st = o.state
        cur = current_of(st, info["sm"])
        g = []
        for k in ("u", "x", "logl", "assignments"):
            a = st.arr(cur[k])
            g.append((f"exactly-n-particles:{k}", to_z3(a.shape[0], "int") == info["n"]))
        return g

    ctx.verify(scheme, RS, "Resampler.run", setup, post, registry=reg, replayer="c06_resampler",
               extras={"numpy.random.choice": h_choice,
                       ("method", "HierarchicalGaussianMixture", "predict"): h_predict})


def run(ctx):
    from . import lean as _lean
    _lean.require(ctx, "Sums.lean", ['prefix_unique', 'sum_prefix_nonneg', 'sum_prefix_mono', 'sum_scale', 'sum_div_const'])
    systematic(ctx, "sum-exactly-one")
    systematic(ctx, "renormalised")
    systematic(ctx, "rounded-total")
    counting_lemmas(ctx)
    resampler(ctx, "mult")
    resampler(ctx, "syst")
    ctx.trust("np.random.random() in [0,1)", "np.random.choice: returns `size` elements of a when p is a distribution over a; "
              "E[copies of i] = size*p_i (law of the primitive, assumed)",
              "L-SUM rules: each statement is machine-checked in Lean/Mathlib over Finset sums (lemmas/Sums.lean; prefix_unique identifies the prefix function with the finite sum); what stays trusted is the transcription of those statements into the z3 axioms/rules of pyvc/theories/sums.py",
              "counting step: copies(i) = floor(n*P(i) - u0) - floor(n*P(i-1) - u0) from the characterisation (textbook; not machine-checked)",
              "E[copies(i)] = n*w_i for systematic resampling: integral over u0 of the floor difference (textbook; not machine-checked)")
    ctx.undecided_clauses.append("exact unbiasedness E[copies]=n*w_i is a statement about the law of u0: reduced to the "
                                 "characterisation + counting lemma, the integral itself is not machine-checked")
