"""C05 — temperature schedule monotone, bounded, ESS-controlled (DESIGN §2/C05).

Functions under contract: Reweighter._compute_metric_and_weights, _find_beta_upper_limit,
_find_beta_bisection, _finalize_iteration, run; SamplerCore._initialize_fresh.
"""
import z3

from pyvc.interp import LoopSpec
from pyvc.values import Ref, Arr, Opaque, Unsupported, to_z3, fresh_scalar, fresh_arr
from pyvc import npmodel
from .common import *  # noqa

CORE = "tempest.core"


# --------------------------------------------------------------------------- fixtures
def make_reweighter(I, st, dynamic, history="any", pbar=True):
    n = fresh_scalar("int", "n_particles")
    er = fresh_scalar("real", "ess_ratio")
    etol = fresh_scalar("real", "ESS_TOL")
    btol = fresh_scalar("real", "BETA_TOL")
    st.assume(z3.And(n >= 1, er > 0, etol > 0, btol > 0))
    beta0 = fresh_scalar("real", "beta_prev")
    it0 = fresh_scalar("int", "iter0")
    st.assume(z3.And(beta0 >= 0, beta0 <= 1))
    sm = make_state_manager(st, {"beta": beta0, "iter": it0, "logz": fresh_scalar("real", "logz0"),
                                 "ess": fresh_scalar("real", "ess0"), "calls": fresh_scalar("int", "calls0")})
    T = st.cell(sm)["__T__"]
    if history == "empty":
        st.assume(T == 0)
    elif history == "nonempty":
        st.assume(T >= 1)
    vv = None
    if dynamic:
        vv = fresh_scalar("real", "vv_target")
        st.assume(vv > 0)
    rw = st.new_obj("Reweighter", __module__=RW, state=sm, pbar=Opaque("pbar") if pbar else None,
                    n_particles=n, ess_ratio=er, volume_variation=vv,
                    target_metric=(vv if dynamic else er * z3.ToReal(n)),
                    ESS_TOLERANCE=etol, BETA_TOLERANCE=btol)
    return rw, sm, dict(n=n, er=er, beta0=beta0, it0=it0, vv=vv, T=T, N=st.cell(sm)["__N__"])


def sum_override(I, st, args, kw, node):
    """np.sum of W(beta,.) is the spec function SUMW(beta) (sum is a function of the contents)."""
    a = npmodel.arr_of(st, args[0])
    if a is not None and a.prov is not None and a.prov[0] == "W":
        return SW(a.prov[1])
    return npmodel.np_sum(I, st, args, kw, node)


def max_override(I, st, args, kw, node):
    a = npmodel.arr_of(st, args[0])
    if a is not None and a.prov is not None and a.prov[0] == "LOGW":
        b = a.prov[1]
        i = z3.Int("i!mx")
        st.assume(z3.ForAll([i], LOGWf(b, i) <= MAXLW(b)))
        return MAXLW(b)
    return npmodel.np_max(I, st, args, kw, node)


def h_metric(dynamic):
    def h(I, st, args, kw, node):
        """Contract of _compute_metric_and_weights (verified below as O0): pure function of
        (history, beta) -> (W(beta,.), ESS(beta), metric(beta))."""
        rw, beta = args[0], args[1]
        b = to_z3(beta, "real")
        sm = st.cell(rw)["state"]
        N = st.cell(sm)["__N__"]
        w = Arr((N,), lambda i: Wf(b, to_z3(i, "int")), "real", prov=("W", b))
        return (st.new_arr(w), ESS(b), MET(b) if dynamic else ESS(b))
    return h


def registry_b(dynamic):
    reg = state_registry()
    reg[(SM, "StateManager.get_history_length")] = h_get_history_length
    reg[(SM, "StateManager.compute_logw_and_logz")] = h_compute_logw_and_logz
    reg[(RW, "Reweighter._compute_metric_and_weights")] = h_metric(dynamic)
    return reg


EXTRAS = dict(pbar_ext())
EXTRAS["numpy.sum"] = sum_override
EXTRAS["numpy.max"] = max_override


# --------------------------------------------------------------------------- O0: _compute_metric_and_weights
def o0(ctx, dynamic):
    info = {}

    def h_ess(I, st, args, kw, node):
        """Contract of tools.effective_sample_size (proved under C20): ess_spec of the argument."""
        a = st.arr(args[0])
        return ESSF(lam(a), to_z3(a.shape[0], "int"))

    def h_vv(I, st, args, kw, node):
        a = st.arr(args[1])
        info["vv_arg"] = a
        return VVF(lam(a), to_z3(a.shape[0], "int"))

    def h_get_history(I, st, args, kw, node):
        return st.new_arr(fresh_arr((st.cell(args[0])["__N__"], st.cell(args[0])["n_dim"]), "real", "Uhist"))

    reg = state_registry()
    reg[(SM, "StateManager.compute_logw_and_logz")] = h_compute_logw_and_logz
    reg[(SM, "StateManager.get_history")] = h_get_history
    reg[(TOOLS, "effective_sample_size")] = h_ess
    reg[(TOOLS, "volume_variation")] = h_vv

    def setup(I, st):
        rw, sm, v = make_reweighter(I, st, dynamic, history="nonempty")
        b = fresh_scalar("real", "beta")
        st.assume(z3.And(b >= 0, b <= 1))
        info.update(v, rw=rw, sm=sm, b=b, cur=dict(current_of(st, sm)))
        return dict(self_val=rw, args=[b])

    def post(I, o, pre):
        st = o.state
        w, ess_est, metric = o.value
        W = st.arr(w)
        b = info["b"]
        i = z3.Int("i!p")
        g = [("weights-length", to_z3(W.shape[0], "int") == info["N"]),
             ("weights-value", z3.ForAll([i], z3.Implies(z3.And(i >= 0, i < info["N"]),
                                                        W.at(i) == real.exp(LOGWf(b, i) - MAXLW(b))))),
             ("ess-is-ess-of-weights", ess_est == ESSF(lam(W), info["N"]))]
        if not dynamic:
            g.append(("metric-is-ess", metric == ess_est))
        else:
            a = info.get("vv_arg")
            j = z3.Int("j!p")
            sw = npmodel.np_sum(I, st, [W], {}, None)
            g.append(("metric-uses-normalised-weights",
                      z3.And(to_z3(a.shape[0], "int") == info["N"],
                             z3.ForAll([j], z3.Implies(z3.And(j >= 0, j < info["N"]), a.at(j) == W.at(j) / sw)),
                             metric == VVF(lam(a), to_z3(a.shape[0], "int")))))
        cur = current_of(st, info["sm"])
        pure = all(cur[k] is info["cur"][k] for k in CURRENT_KEYS)
        g.append(("pure:modifies-nothing", bool(pure)))
        return g

    ctx.verify("dynamic" if dynamic else "ess", RW, "Reweighter._compute_metric_and_weights", setup, post,
               registry=reg, extras={"numpy.max": max_override, **pbar_ext()}, replayer="c05_schedule")


# --------------------------------------------------------------------------- O1: _find_beta_upper_limit
def o1(ctx):
    info = {}

    def setup(I, st):
        rw, sm, v = make_reweighter(I, st, False, history="nonempty")
        bc = fresh_scalar("real", "beta_current")
        tgt = fresh_scalar("real", "ess_target")
        st.assume(z3.And(bc >= 0, bc <= 1))
        info.update(bc=bc, tgt=tgt)
        return dict(self_val=rw, args=[bc, tgt])

    def inv(v):
        bc, tgt = info["bc"], info["tgt"]
        lo, hi = v["beta_low"], v["beta_high"]
        return z3.And(bc <= lo, lo <= hi, hi <= 1, ESS(to_z3(lo, "real")) >= tgt)

    def post(I, o, pre):
        r = to_z3(o.value, "real")
        bc, tgt = info["bc"], info["tgt"]
        return [("range", z3.And(bc <= r, r <= 1)),
                ("stays-when-ess-low", z3.Implies(ESS(bc) < tgt, r == bc)),
                ("ess-floor", z3.Implies(ESS(bc) >= tgt, ESS(r) >= tgt))]

    def variant(v):
        return ("halving", to_z3(v["beta_high"], "real") - to_z3(v["beta_low"], "real"), v.attr("self.BETA_TOLERANCE"))

    ctx.verify("", RW, "Reweighter._find_beta_upper_limit", setup, post, loops={0: LoopSpec(inv, variant=variant if ctx.prop == "C18" else None)},
               registry=registry_b(False), extras=EXTRAS, replayer="c05_schedule")


# --------------------------------------------------------------------------- O2: _find_beta_bisection
AuxS = z3.DeclareSort("Aux")
AUXf = z3.Function("AUX", R, AuxS)
MFN = z3.Function("metric_fn", R, R)


def o2(ctx, dynamic):
    info = {}

    def metric_fn(I, st, args, kw, node):
        b = to_z3(args[0], "real")
        return (MFN(b), AUXf(b))

    def setup(I, st):
        rw, sm, v = make_reweighter(I, st, dynamic, history="nonempty")
        lo, hi, tgt = fresh_scalar("real", "lo0"), fresh_scalar("real", "hi0"), fresh_scalar("real", "target")
        st.assume(lo <= hi)
        info.update(lo=lo, hi=hi)
        return dict(self_val=rw, args=[lo, hi, tgt, Opaque("callable", handler=metric_fn)])

    def inv(v):
        return z3.And(info["lo"] <= v["beta_min"], v["beta_min"] <= v["beta_max"], v["beta_max"] <= info["hi"])

    def post(I, o, pre):
        b, aux = o.value
        b = to_z3(b, "real")
        return [("range", z3.And(info["lo"] <= b, b <= info["hi"])),
                ("aux-belongs-to-returned-beta", aux == AUXf(b))]

    def variant(v):
        return ("halving", to_z3(v["beta_max"], "real") - to_z3(v["beta_min"], "real"), v.attr("self.BETA_TOLERANCE"))

    ctx.verify("dynamic" if dynamic else "ess", RW, "Reweighter._find_beta_bisection", setup, post,
               loops={0: LoopSpec(inv, variant=variant if ctx.prop == "C18" else None)}, registry=registry_b(dynamic), extras=EXTRAS, replayer="c05_schedule")


# --------------------------------------------------------------------------- _finalize_iteration
def o_fin(ctx):
    info = {}

    def setup(I, st):
        rw, sm, v = make_reweighter(I, st, False, history="nonempty")
        b = fresh_scalar("real", "beta")
        w = st.new_arr(Arr((v["N"],), lambda i: Wf(b, to_z3(i, "int")), "real", prov=("W", b)))
        e, z = fresh_scalar("real", "ess"), fresh_scalar("real", "logz")
        info.update(v, sm=sm, b=b, e=e, z=z)
        return dict(self_val=rw, args=[b, w, e, z])

    def post(I, o, pre):
        st = o.state
        cur = current_of(st, info["sm"])
        res = st.arr(o.value)
        i = z3.Int("i!p")
        b = info["b"]
        return [("records-beta-logz-ess", z3.And(cur["beta"] == b, cur["logz"] == info["z"], cur["ess"] == info["e"])),
                ("returns-normalised", z3.And(to_z3(res.shape[0], "int") == info["N"],
                                              z3.ForAll([i], z3.Implies(z3.And(i >= 0, i < info["N"]),
                                                                        res.at(i) == Wf(b, i) / SW(b))))),
                ("frame:iter-untouched", cur["iter"] is pre_cur(info, pre)["iter"])]

    def pre_cur(info, pre):
        return current_of(pre, info["sm"])

    ctx.verify("", RW, "Reweighter._finalize_iteration", setup, post, registry=registry_b(False), extras=EXTRAS, replayer="c05_schedule")


# --------------------------------------------------------------------------- run
def h_upper(I, st, args, kw, node):
    """Contract of _find_beta_upper_limit (O1)."""
    bc, tgt = to_z3(args[1], "real"), to_z3(args[2], "real")
    I.oblige(f"call:_find_beta_upper_limit:requires-beta-in-unit@{node.lineno}", st, z3.And(bc >= 0, bc <= 1), node)
    r = fresh_scalar("real", "beta_upper")
    st.assume(z3.And(bc <= r, r <= 1, z3.Implies(ESS(bc) < tgt, r == bc), z3.Implies(ESS(bc) >= tgt, ESS(r) >= tgt)))
    st.ghost["beta_upper"] = r
    st.ghost["ess_target"] = tgt
    return r


def h_bisect(I, st, args, kw, node):
    """Contract of _find_beta_bisection (O2): beta in [lo,hi], aux = metric_fn(beta)[1]."""
    lo, hi, fn = to_z3(args[1], "real"), to_z3(args[2], "real"), args[4]
    I.oblige(f"call:_find_beta_bisection:requires-lo<=hi@{node.lineno}", st, lo <= hi, node)
    b = fresh_scalar("real", "beta_bis")
    st.assume(z3.And(lo <= b, b <= hi))
    r = I.call_value(fn, [b], {}, st, None, node)
    outs = r.outs
    if len(outs) != 1 or outs[0].kind != "return":
        raise Unsupported("metric_fn forks")
    I._adopt(st, outs[0].state)
    st.ghost["bisected"] = True
    return (b, outs[0].value[1])


def h_finalize(I, st, args, kw, node):
    """Contract of _finalize_iteration."""
    rw, beta, w, e, z = args
    W = st.arr(w)
    b = to_z3(beta, "real")
    i = z3.Int("i!f")
    N = st.cell(st.cell(rw)["state"])["__N__"]
    I.oblige(f"call:_finalize_iteration:weights-are-W(beta)@{node.lineno}", st,
             z3.And(to_z3(W.shape[0], "int") == N,
                    z3.ForAll([i], z3.Implies(z3.And(i >= 0, i < N), W.at(i) == Wf(b, i)))), node,
             note="the weights handed on belong to the recorded temperature")
    cur = current_of(st, st.cell(rw)["state"])
    cur["logz"], cur["beta"], cur["ess"] = z, beta, e
    return st.new_arr(Arr((N,), lambda k: Wf(b, to_z3(k, "int")) / SW(b), "real", prov=("Wnorm", b)))


def o_run(ctx, dynamic, history):
    info = {}
    reg = registry_b(dynamic)
    reg[(RW, "Reweighter._find_beta_upper_limit")] = h_upper
    reg[(RW, "Reweighter._find_beta_bisection")] = h_bisect
    reg[(RW, "Reweighter._finalize_iteration")] = h_finalize

    def setup(I, st):
        rw, sm, v = make_reweighter(I, st, dynamic, history=history)
        info.update(v, sm=sm)
        return dict(self_val=rw, args=[])

    def post(I, o, pre):
        st = o.state
        cur = current_of(st, info["sm"])
        res = st.arr(o.value)
        b0, n, er = info["beta0"], info["n"], info["er"]
        g = [("iter-incremented-by-one", cur["iter"] == info["it0"] + 1)]
        i = z3.Int("i!p")
        if history == "empty":
            g += [("first:beta-zero", to_z3(cur["beta"], "real") == 0),
                  ("first:logz-zero", to_z3(cur["logz"], "real") == 0),
                  ("first:uniform-weights", z3.And(to_z3(res.shape[0], "int") == n,
                                                   z3.ForAll([i], z3.Implies(z3.And(i >= 0, i < n),
                                                                             to_z3(res.at(i), "real") == 1 / z3.ToReal(n)))))]
            return g
        b = to_z3(cur["beta"], "real")
        tgt = er * z3.ToReal(n)
        g += [("beta-monotone-bounded", z3.And(b0 <= b, b <= 1)),
              ("coherent:logz-at-recorded-beta", cur["logz"] == LOGZf(b)),
              ("coherent:ess-at-recorded-beta", cur["ess"] == ESS(b)),
              ("coherent:weights-at-recorded-beta",
               z3.And(to_z3(res.shape[0], "int") == info["N"],
                      z3.ForAll([i], z3.Implies(z3.And(i >= 0, i < info["N"]), res.at(i) == Wf(b, i) / SW(b)))))]
        bu = st.ghost.get("beta_upper")
        if not dynamic:
            g.append(("ess-floor-when-advancing", z3.Or(b == b0, ESS(b) >= tgt)))
        else:
            g.append(("not-beyond-ess-limited-temperature", b <= bu if bu is not None else False))
            g.append(("stays-when-ess-low", z3.Implies(ESS(b0) < tgt, b == b0)))
        return g

    ctx.verify(f"{'dynamic' if dynamic else 'ess'}-{history}", RW, "Reweighter.run", setup, post,
               registry=reg, extras=EXTRAS, replayer="c05_schedule")


def o_init(ctx):
    info = {}

    def setup(I, st):
        sm = make_state_manager(st, {})
        core = st.new_obj("SamplerCore", __module__=CORE, state=sm)
        info["sm"] = sm
        return dict(self_val=core, args=[])

    def post(I, o, pre):
        cur = current_of(o.state, info["sm"])
        return [("beta-starts-at-zero", z3.And(to_z3(cur["beta"], "real") == 0, to_z3(cur["logz"], "real") == 0,
                                               to_z3(cur["iter"], "int") == 0, to_z3(cur["calls"], "int") == 0))]

    ctx.verify("", CORE, "SamplerCore._initialize_fresh", setup, post, registry=state_registry(), replayer="c05_schedule")


def run(ctx):
    for dyn in (False, True):
        o0(ctx, dyn)
    o1(ctx)
    for dyn in (False, True):
        o2(ctx, dyn)
    o_fin(ctx)
    for dyn in (False, True):
        for hist in ("empty", "nonempty"):
            o_run(ctx, dyn, hist)
    o_init(ctx)
    ctx.trust("C04 contract of StateManager.compute_logw_and_logz (pure; returns LOGW(beta,.), LOGZ(beta))",
              "C20 contract of tools.effective_sample_size / volume_variation (value = spec function of the argument)",
              "ProgressBar methods touch only the progress bar")
    ctx.undecided_clauses.append("beta never decreases across state import (load_state) — covered by C08, not here")
