"""C07 — every stored or returned particle is a coherent (u, x, logL, blob) record (DESIGN §2/C07)."""
import z3

from pyvc.interp import LoopSpec
from pyvc.values import Ref, Arr, Opaque, Unsupported, to_z3, fresh_scalar, fresh_arr, fresh_name
from pyvc import npmodel, symlist
from pyvc.theories import sums, real
from .common import *  # noqa
from .records import *  # noqa


# --------------------------------------------------------------------------- Mutator.run, beta = 0
def mutate_warmup(ctx, blobs, prop_prefix=None):
    info = {}

    def setup(I, st):
        cube_axiom(st)
        n = fresh_scalar("int", "n_particles")
        st.assume(n >= 1)
        calls0 = fresh_scalar("int", "calls0")
        logz0 = fresh_scalar("real", "logz0")
        sm, h = make_record_state(st, {"beta": 0.0, "calls": calls0, "logz": logz0, "iter": fresh_scalar("int", "it")}, blobs=blobs)
        mut = st.new_obj("Mutator", __module__=MUT, state=sm, prior_transform=Opaque("callable", handler=h_prior_transform),
                         log_likelihood=Opaque("callable", handler=make_loglike(blobs=blobs)), pbar=Opaque("pbar"),
                         n_particles=n, n_dim=fresh_scalar("int", "n_dim"), n_steps=1, n_max_steps=20, sampler="tpcn",
                         periodic=None, reflective=None, have_blobs=blobs)
        info.update(n=n, sm=sm, calls0=calls0, logz0=logz0, mut=mut)
        return dict(self_val=mut, args=[Opaque("mode_stats")])

    def post(I, o, pre):
        st = o.state
        cur = current_of(st, info["sm"])
        n = info["n"]
        u, x, logl = st.arr(cur["u"]), st.arr(cur["x"]), st.arr(cur["logl"])
        b = st.arr(cur["blobs"]) if blobs and cur["blobs"] is not None else None
        i = z3.Int("i!p")
        anyfin = z3.Exists([i], z3.And(i >= 0, i < n, z3.Not(INFP(logl.at(i)))))
        E = st.ghost.get("__E__", 0)
        g = [("stored-arrays-have-n-particles", lengths(n, u, x, logl, b)),
             ("stored-particles-are-coherent-records", coherent(u, x, logl, b, n)),
             ("blobs-stored-iff-enabled", (cur["blobs"] is not None) == blobs if blobs else True),
             ("calls-counts-the-evaluated-points", z3.And(cur["calls"] == info["calls0"] + n, to_z3(E, "int") == n)),
             ("assignments-all-zero", True)]
        return g

    ctx.verify("warmup-blobs" if blobs else "warmup", MUT, "Mutator.run", setup, post, registry=state_registry(),
               extras=ext_records(), replayer=getattr(ctx, "replayer_override", None) or "c07_records")


# --------------------------------------------------------------------------- BaseMCMCRunner.run
def h_propose(cls):
    def h(I, st, args, kw, node):
        """Contract of {TPCN,RWM}Runner._propose (C03/C16): returns apply_boundary_conditions(proposal, periodic,
        reflective), i.e. a point whose periodic/reflective coordinates lie in [0,1]; reads self only."""
        p = fresh_scalar(Vec, "prop")
        st.assume(FOLDED(p))
        return p
    return h


def h_check_bounds(I, st, args, kw, node):
    """Contract of mcmc.check_bounds (C16/O7) on a batch: row-wise, True iff every coordinate that is neither
    periodic nor reflective lies in [0,1]."""
    a = st.arr(args[0])
    return st.new_arr(Arr((a.shape[0],), lambda i: STRICT_OK(a.at(i)), "bool"))


def propose_folds(ctx, cls):
    """The kernel's _propose really ends in apply_boundary_conditions(proposal, self.periodic, self.reflective)."""
    import ast
    from pyvc.framework import ObResult
    info = ctx.fuc(MCMC, f"{cls}._propose")
    f = [n for n in ast.walk(ctx.mods[MCMC][0]) if isinstance(n, ast.ClassDef) and n.name == cls][0]
    fn = [n for n in f.body if isinstance(n, ast.FunctionDef) and n.name == "_propose"][0]
    rets = [n for n in ast.walk(fn) if isinstance(n, ast.Return)]
    ok = bool(rets)
    for r in rets:
        v = r.value
        if isinstance(v, ast.Name):
            # returned name must be last assigned from apply_boundary_conditions(...)
            asg = [a for a in ast.walk(fn) if isinstance(a, ast.Assign) and any(isinstance(t, ast.Name) and t.id == v.id for t in a.targets)]
            v = asg[-1].value if asg else None
        good = isinstance(v, ast.Call) and ast.unparse(v.func) == "apply_boundary_conditions" and len(v.args) == 3 \
            and ast.unparse(v.args[1]) == "self.periodic" and ast.unparse(v.args[2]) == "self.reflective"
        ok = ok and good
    r = ObResult(f"{ctx.prop}/mcmc.{cls}._propose/returns-folded-proposal", "discharged" if ok else "violated", "pyvc-eff", 0.0, 1,
                 "" if ok else f"{cls}._propose does not return apply_boundary_conditions(proposal, self.periodic, self.reflective)",
                 line=fn.lineno, kind="effect")
    r.replayer = "c07_records"
    ctx.add(r)


def mcmc_run(ctx, cls, blobs):
    info = {}

    def h_accept(I, st, args, kw, node):
        n = st.cell(args[0])["n_walkers"]
        return st.new_arr(fresh_arr((n,), "real", "factor"))

    def h_adapt(I, st, args, kw, node):
        c = st.cell(args[0])
        sg = c["sigmas"]
        st.set_arr(sg, fresh_arr(st.arr(sg).shape, "real", "sigmas"))
        return None

    def h_conv(I, st, args, kw, node):
        if ctx.prop != "C18":
            return fresh_scalar("bool", "converged")
        # contract of _check_convergence (its two statements): iteration >= adaptive steps, where the adaptive step count is capped
        # by n_max * n_dim (postcondition of _calculate_adaptive_steps, checked separately under C18)
        c = st.cell(args[0])
        A = fresh_scalar("int", "adaptive_steps")
        st.assume(A <= to_z3(c["n_max"], "int") * to_z3(c["n_dim"], "int"))
        return to_z3(c["iteration"], "int") >= A

    reg = {(MCMC, f"{cls}._propose"): h_propose(cls), (MCMC, "BaseMCMCRunner._propose"): h_propose(cls),
           (MCMC, f"{cls}._compute_acceptance_factor"): h_accept, (MCMC, f"{cls}._adapt_sigma"): h_adapt,
           (MCMC, "BaseMCMCRunner._check_convergence"): h_conv, (MCMC, "BaseMCMCRunner._evaluate_likelihood"): "inline",
           (MCMC, "BaseMCMCRunner._update_progress_bar"): "inline", (MCMC, "check_bounds"): h_check_bounds}

    def setup(I, st):
        cube_axiom(st)
        n, d, K = fresh_scalar("int", "n_walkers"), fresh_scalar("int", "n_dim"), fresh_scalar("int", "K")
        st.assume(z3.And(n >= 1, d >= 1, K >= 1))
        u, x = fresh_arr((n,), Vec, "u"), fresh_arr((n,), Vec, "x")
        logl = fresh_arr((n,), "real", "logl")
        bl = fresh_arr((n,), BlobS, "blobs") if blobs else None
        st.assume(coherent(u, x, logl, bl, n))
        beta = fresh_scalar("real", "beta")
        st.assume(z3.And(beta > 0, beta <= 1))
        c0, it0 = fresh_scalar("int", "n_calls0"), fresh_scalar("int", "iteration0")
        st.assume(it0 >= 0)
        if ctx.prop == "C18":
            st.assume(it0 == 0)            # a runner is constructed per kernel call: __init__ sets iteration = 0
        runner = st.new_obj(cls, __module__=MCMC, beta=beta, mode_stats=Opaque("mode_stats"),
                            log_likelihood=Opaque("callable", handler=make_loglike(blobs=blobs)),
                            prior_transform=Opaque("callable", handler=h_prior_transform), progress_bar=None,
                            n_steps=fresh_scalar("int", "n_steps"), n_max=info.setdefault("n_max", fresh_scalar("int", "n_max")),
                            periodic=Opaque("idx"), reflective=Opaque("idx"), verbose=True,
                            u=st.new_arr(u), x=st.new_arr(x), logl=st.new_arr(logl), blobs=st.new_arr(bl) if blobs else None,
                            assignments=st.new_arr(fresh_arr((n,), "int", "assign")), n_walkers=n, n_dim=d, n_clusters=K,
                            n_calls=c0, sigma_0=fresh_scalar("real", "sigma0"), sigmas=st.new_arr(fresh_arr((K,), "real", "sig")),
                            iteration=it0)
        st.ghost["__E__"] = z3.IntVal(0)
        if ctx.prop == "C18":
            st.assume(info["n_max"] >= 1)  # SamplerConfig.__post_init__: n_max_steps >= 1 (C18 computed defaults)
        info.update(n=n, c0=c0, runner=runner, it0=it0, d=d)
        return dict(self_val=runner, args=[])

    def rec(v):
        st = v.state
        c = st.cell(v["self"])
        u, x, logl = st.arr(c["u"]), st.arr(c["x"]), st.arr(c["logl"])
        b = st.arr(c["blobs"]) if blobs else None
        return u, x, logl, b, c

    def inv_outer(v):
        u, x, logl, b, c = rec(v)
        n = info["n"]
        cap = [to_z3(c["iteration"], "int") <= info["n_max"] * info["d"], to_z3(c["n_max"], "int") == info["n_max"],
               to_z3(c["n_dim"], "int") == info["d"]] if ctx.prop == "C18" else []
        return z3.And(lengths(n, u, x, logl, b), coherent(u, x, logl, b, n), to_z3(c["n_walkers"], "int") == n,
                      c["n_calls"] - info["c0"] == to_z3(v.state.ghost["__E__"], "int"), c["iteration"] >= info["it0"],
                      to_z3(v.state.arr(c["assignments"]).shape[0], "int") == n, *cap)

    def inv_props(v):
        up = v["u_prime"]
        q = z3.Int(fresh_name("q"))
        return z3.And(to_z3(up.shape[0], "int") == info["n"],
                      z3.ForAll([q], z3.Implies(z3.And(q >= 0, q < v.k), FOLDED(up.at(q)))))

    def inv_true(v):
        return z3.BoolVal(True)

    def post(I, o, pre):
        st = o.state
        u, x, logl, b = [st.arr(a) if a is not None else None for a in o.value[:4]]
        n = info["n"]
        c = st.cell(info["runner"])
        return [("returned-arrays-have-n-walkers", lengths(n, u, x, logl, b)),
                ("returned-particles-are-coherent-records", coherent(u, x, logl, b, n)),
                ("blobs-returned-iff-enabled", (o.value[3] is not None) == blobs),
                ("n_calls-counts-the-evaluated-points", o.value[7] - info["c0"] == to_z3(st.ghost["__E__"], "int")),
                ("at-least-one-step", o.value[6] >= info["it0"] + 1)]

    class GhostE(LoopSpec):
        pass

    def on_interp(I):
        # the ghost evaluation counter is loop-carried state: havoc it with the loop
        orig = I.havoc_loop

        def hv(state, body, spec, extra=()):
            orig(state, body, spec, extra)
            if spec is not None and getattr(spec, "ghostE", False):
                state.ghost["__E__"] = fresh_scalar("int", "E")
        I.havoc_loop = hv

    def variant(v):
        c = v.state.cell(v["self"])
        return ("int", info["n_max"] * info["d"] - to_z3(c["iteration"], "int"))

    outer = LoopSpec(inv_outer, label="mcmc", variant=variant if ctx.prop == "C18" else None, modifies=("self.n_calls", "self.sigmas", "self.iteration", "self.u", "self.x",
                                                         "self.logl", "self.blobs"))
    outer.ghostE = True
    ctx.verify(f"{cls}-{'blobs' if blobs else 'noblobs'}", MCMC, "BaseMCMCRunner.run", setup, post, registry=reg, extras=ext_records(),
               loops={0: outer, 1: LoopSpec(inv_props, label="proposals"), 2: LoopSpec(inv_true, label="adapt", modifies=("self.sigmas",))},
               on_interp=on_interp, replayer=getattr(ctx, "replayer_override", None) or "c07_records")


# --------------------------------------------------------------------------- Resampler.run
def h_syst(I, st, args, kw, node):
    """Contract of tools.systematic_resample (C06): `size` valid indices into the weight vector."""
    size = args[0]
    w = st.arr(kw.get("weights", args[1] if len(args) > 1 else None))
    idx = fresh_arr((size,), "int", "sidx")
    q = z3.Int(fresh_name("q"))
    st.assume(z3.ForAll([q], z3.Implies(z3.And(q >= 0, q < to_z3(size, "int")),
                                        z3.And(idx.at(q) >= 0, idx.at(q) < to_z3(w.shape[0], "int")))))
    return st.new_arr(idx)


def resampler(ctx, scheme, blobs):
    info = {}

    def h_predict(I, st, args, kw, node):
        a = st.arr(args[1])
        return st.new_arr(fresh_arr((a.shape[0],), "int", "labels"))

    reg = state_registry()
    reg[(SM, "StateManager.get_history")] = "inline"
    reg[(TOOLS, "systematic_resample")] = h_syst
    ex = ext_records()
    ex[("method", "HierarchicalGaussianMixture", "predict")] = h_predict

    def setup(I, st):
        cube_axiom(st)
        n = fresh_scalar("int", "n_particles")
        st.assume(n >= 1)
        beta = fresh_scalar("real", "beta")
        st.assume(z3.And(beta > 0, beta <= 1))
        sm, h = make_record_state(st, {"beta": beta}, blobs=blobs)
        st.assume(h["T"] >= 1)
        rs = st.new_obj("Resampler", __module__=RES, state=sm, n_particles=n, resample=scheme,
                        clusterer=st.new_obj("HierarchicalGaussianMixture", __module__="abstract"), clustering=True, have_blobs=blobs)
        # weights: one per stored sample (postcondition of Reweighter.run, C05)
        N, tt, off, la = symlist.flat_maps(st, str(h["lens"]), h["T"], h["lens"])
        w = fresh_arr((N,), "real", "weights")
        info.update(n=n, sm=sm, h=h, N=N)
        return dict(self_val=rs, args=[st.new_arr(w)])

    def post(I, o, pre):
        st = o.state
        cur = current_of(st, info["sm"])
        n = info["n"]
        u, x, logl = st.arr(cur["u"]), st.arr(cur["x"]), st.arr(cur["logl"])
        b = st.arr(cur["blobs"]) if blobs else None
        return [("resampled-arrays-have-n-particles", lengths(n, u, x, logl, b, st.arr(cur["assignments"]))),
                ("resampled-particles-are-whole-history-records", coherent(u, x, logl, b, n, finite=True))]

    ctx.verify(f"{scheme}-{'blobs' if blobs else 'noblobs'}", RES, "Resampler.run", setup, post, registry=reg, extras=ex,
               replayer=getattr(ctx, "replayer_override", None) or "c07_records")


# --------------------------------------------------------------------------- commit_current_to_history
def commit(ctx, blobs):
    info = {}

    def setup(I, st):
        cube_axiom(st)
        n = fresh_scalar("int", "n")
        st.assume(n >= 1)
        u, x, logl = fresh_arr((n,), Vec, "u"), fresh_arr((n,), Vec, "x"), fresh_arr((n,), "real", "logl")
        bl = fresh_arr((n,), BlobS, "blobs") if blobs else None
        st.assume(coherent(u, x, logl, bl, n, finite=True))
        cur = {"u": st.new_arr(u), "x": st.new_arr(x), "logl": st.new_arr(logl), "blobs": st.new_arr(bl) if blobs else None,
               "beta": fresh_scalar("real", "beta"), "logz": fresh_scalar("real", "logz"), "iter": fresh_scalar("int", "iter"),
               "calls": fresh_scalar("int", "calls"), "steps": fresh_scalar("int", "steps"), "ess": fresh_scalar("real", "ess"),
               "efficiency": fresh_scalar("real", "eff"), "acceptance": fresh_scalar("real", "acc"),
               "assignments": st.new_arr(fresh_arr((n,), "int", "asg"))}
        sm, h = make_record_state(st, cur, blobs=blobs)
        info.update(n=n, sm=sm, h=h, u=u, x=x, logl=logl, bl=bl)
        return dict(self_val=sm, args=[])

    def post(I, o, pre):
        st = o.state
        T = info["h"]["T"]
        hist = st.cell(st.cell(info["sm"])["_history"])["__dict__"]
        g = []
        i = z3.Int("i!p")
        t = z3.Int("t!p")
        for k, src in (("u", info["u"]), ("x", info["x"]), ("logl", info["logl"])) + ((("blobs", info["bl"]),) if blobs else ()):
            c = st.cell(hist[k])
            new = c["__symelem__"](T)
            g.append((f"appends-exactly-one-batch:{k}", z3.And(to_z3(c["__symlen__"], "int") == T + 1,
                                                              to_z3(new.shape[0], "int") == info["n"],
                                                              z3.ForAll([i], z3.Implies(z3.And(i >= 0, i < info["n"]), new.at(i) == src.at(i))))))
            old = info["h"]["fns"][k]
            g.append((f"earlier-batches-untouched:{k}",
                      z3.ForAll([t, i], z3.Implies(z3.And(t >= 0, t < T, i >= 0, i < info["h"]["lens"](t)),
                                                   c["__symelem__"](t).at(i) == old(t, i)))))
        for k in ("beta", "logz"):
            c = st.cell(hist[k])
            g.append((f"appends-exactly-one-value:{k}", to_z3(c["__symlen__"], "int") == T + 1))
        return g

    reg = state_registry()
    ctx.verify("blobs" if blobs else "noblobs", SM, "StateManager.commit_current_to_history", setup, post, registry=reg,
               extras=ext_records(), replayer=getattr(ctx, "replayer_override", None) or "c07_records")


# --------------------------------------------------------------------------- Mutator.run, beta > 0
def mutate_mcmc(ctx, blobs):
    info = {}

    def h_parallel_mcmc(I, st, args, kw, node):
        """Contract of mcmc.parallel_mcmc = {TPCN,RWM}Runner(...).run() (verified above): given coherent input
        records returns coherent records of the same length, and the number of evaluated points."""
        u, x, logl = st.arr(kw["u"]), st.arr(kw["x"]), st.arr(kw["logl"])
        b = st.arr(kw["blobs"]) if kw.get("blobs") is not None else None
        n = u.shape[0]
        I.oblige(f"call:parallel_mcmc:requires-coherent-records@{node.lineno}", st,
                 z3.And(lengths(n, u, x, logl, b), coherent(u, x, logl, b, n)), node)
        I.oblige(f"call:parallel_mcmc:blobs-passed-iff-enabled@{node.lineno}", st, (kw.get("blobs") is not None) == blobs, node)
        I.oblige(f"call:parallel_mcmc:kernel-and-boundaries-from-config@{node.lineno}", st,
                 kw.get("sample") is info["sampler"] and kw.get("periodic") is info["periodic"] and kw.get("reflective") is info["reflective"], node)
        nu, nx, nl = fresh_arr((n,), Vec, "u2"), fresh_arr((n,), Vec, "x2"), fresh_arr((n,), "real", "logl2")
        nb = fresh_arr((n,), BlobS, "b2") if b is not None else None
        st.assume(coherent(nu, nx, nl, nb, n))
        calls = fresh_scalar("int", "mcmc_calls")
        st.ghost["__E__"] = st.ghost.get("__E__", 0) + calls
        info["out"] = (nu, nx, nl, nb, calls)
        return (st.new_arr(nu), st.new_arr(nx), st.new_arr(nl), st.new_arr(nb) if nb is not None else None,
                fresh_scalar("real", "eff"), fresh_scalar("real", "acc"), fresh_scalar("int", "steps"), calls)

    reg = state_registry()
    reg[(MCMC, "parallel_mcmc")] = h_parallel_mcmc

    def setup(I, st):
        cube_axiom(st)
        n = fresh_scalar("int", "n_particles")
        st.assume(n >= 1)
        beta = fresh_scalar("real", "beta")
        st.assume(z3.And(beta > 0, beta <= 1))
        u, x, logl = fresh_arr((n,), Vec, "u"), fresh_arr((n,), Vec, "x"), fresh_arr((n,), "real", "logl")
        bl = fresh_arr((n,), BlobS, "blobs") if blobs else None
        st.assume(coherent(u, x, logl, bl, n))
        calls0 = fresh_scalar("int", "calls0")
        sm, h = make_record_state(st, {"beta": beta, "calls": calls0, "u": st.new_arr(u), "x": st.new_arr(x), "logl": st.new_arr(logl),
                                       "blobs": st.new_arr(bl) if blobs else None,
                                       "assignments": st.new_arr(fresh_arr((n,), "int", "asg"))}, blobs=blobs)
        info.update(sampler="rwm", periodic=Opaque("idx"), reflective=Opaque("idx"))
        mut = st.new_obj("Mutator", __module__=MUT, state=sm, prior_transform=Opaque("callable", handler=h_prior_transform),
                         log_likelihood=Opaque("callable", handler=make_loglike(blobs=blobs)), pbar=Opaque("pbar"),
                         n_particles=n, n_dim=fresh_scalar("int", "n_dim"), n_steps=1, n_max_steps=20, sampler=info["sampler"],
                         periodic=info["periodic"], reflective=info["reflective"], have_blobs=blobs)
        info.update(n=n, sm=sm, calls0=calls0)
        return dict(self_val=mut, args=[Opaque("mode_stats")])

    def post(I, o, pre):
        st = o.state
        cur = current_of(st, info["sm"])
        n = info["n"]
        u, x, logl = st.arr(cur["u"]), st.arr(cur["x"]), st.arr(cur["logl"])
        b = st.arr(cur["blobs"]) if blobs else None
        return [("stored-arrays-have-n-particles", lengths(n, u, x, logl, b)),
                ("stored-particles-are-coherent-records", coherent(u, x, logl, b, n)),
                ("calls-counts-the-evaluated-points", cur["calls"] == info["calls0"] + to_z3(st.ghost.get("__E__", 0), "int"))]

    ctx.verify("mcmc-blobs" if blobs else "mcmc", MUT, "Mutator.run", setup, post, registry=reg, extras=ext_records(),
               replayer=getattr(ctx, "replayer_override", None) or "c07_records")


def run(ctx):
    ctx.weak_ids |= set(['._propose/'])     # helper-level contracts: arbitrated by the property-level native contract when they fail
    for blobs in (False, True):
        for scheme in ("mult", "syst"):
            resampler(ctx, scheme, blobs)
        commit(ctx, blobs)
        mutate_mcmc(ctx, blobs)
    mutate_warmup(ctx, False)
    mutate_warmup(ctx, True)
    # posterior trimming / resampling moves whole records (x, logl, blob, log-weight of one history particle per returned row)
    from . import c12
    import itertools
    ctx.parallel([(lambda c, rs=rs, tr=tr, hb=hb: c12.posterior(c, rs, tr, True, True, hb, replayer="c07_records", records_only=True))
                  for hb in (False, True) for rs, tr in itertools.product((False, True), repeat=2)])
    for cls in ("RWMRunner", "TPCNRunner"):
        propose_folds(ctx, cls)
        for blobs in (False, True):
            mcmc_run(ctx, cls, blobs)
    ctx.trust("A3: prior_transform / log_likelihood are pure, total, deterministic (uninterpreted T, L, B)",
              "C13 contract of SamplerCore._log_like (row i = likelihood at x_i, in order)",
              "C06 contracts of systematic_resample / np.random.choice (valid indices)",
              "C16 contracts of apply_boundary_conditions (folded coordinates in [0,1]) and check_bounds (iff strict coordinates in [0,1])",
              "numpy indexing model (T-ARR): gather, boolean-mask select/store, scatter through arange[mask]; np.concatenate on history lists",
              "wf_history + INV-REC hold of the history on entry (established by commit, verified here)")
