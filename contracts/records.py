"""Record-level model of particles (C07, C11, C13): unit-cube points and physical points are tokens of an
uninterpreted sort Vec; the user's callables are uninterpreted, pure, total functions (assumption A3)."""
import z3

from pyvc.values import Ref, Arr, Opaque, Unsupported, to_z3, fresh_scalar, fresh_arr, fresh_name
from pyvc import npmodel, symlist
from .common import *  # noqa

MCMC, MUT, RES, CORE = "tempest.mcmc", "tempest.steps.mutate", "tempest.steps.resample", "tempest.core"

Vec = z3.DeclareSort("Vec")
BlobS = z3.DeclareSort("Blob")
Tf = z3.Function("prior_transform", Vec, Vec)
Lf = z3.Function("loglike", Vec, z3.RealSort())
Bf = z3.Function("blob", Vec, BlobS)
INCUBE = z3.Function("in_unit_cube", Vec, z3.BoolSort())
FOLDED = z3.Function("folded_coords_in_unit", Vec, z3.BoolSort())
STRICT_OK = z3.Function("strict_coords_in_unit", Vec, z3.BoolSort())
INFP = z3.Function("is_inf", z3.RealSort(), z3.BoolSort())


def cube_axiom(st):
    v = z3.Const("v!cube", Vec)
    st.assume(z3.ForAll([v], INCUBE(v) == z3.And(FOLDED(v), STRICT_OK(v)), patterns=[INCUBE(v)]))
    st.assume(z3.ForAll([v], INCUBE(v) == z3.And(FOLDED(v), STRICT_OK(v)), patterns=[z3.MultiPattern(FOLDED(v), STRICT_OK(v))]))


def coherent(u, x, logl, blobs, n, finite=False):
    """INV-REC over the first n rows of (u, x, logl, blobs)."""
    i = z3.Int(fresh_name("i"))
    body = [x.at(i) == Tf(u.at(i)), logl.at(i) == Lf(x.at(i)), INCUBE(u.at(i))]
    if blobs is not None:
        body.append(blobs.at(i) == Bf(x.at(i)))
    if finite:
        body.append(z3.Not(INFP(logl.at(i))))
    return z3.ForAll([i], z3.Implies(z3.And(i >= 0, i < to_z3(n, "int")), z3.And(*body)))


def lengths(n, *arrs):
    return z3.And(*[to_z3(a.shape[0], "int") == to_z3(n, "int") for a in arrs if a is not None])


def h_prior_transform(I, st, args, kw, node):
    v = args[0]
    if isinstance(v, Ref):
        raise Unsupported("prior_transform applied to a coordinate array in the record-level model")
    return Tf(v)


def make_loglike(owner_key="__E__", blobs=False):
    def h(I, st, args, kw, node):
        """Contract of SamplerCore._log_like (C13/O1, O2): row i of the result is what the user's likelihood
        returns at x_i, in input order; the user's function is evaluated at exactly len(x) points."""
        x = st.arr(args[0] if not (isinstance(args[0], Ref) and args[0].kind == "obj") else args[1])
        st.ghost[owner_key] = st.ghost.get(owner_key, 0) + to_z3(x.shape[0], "int")
        ll = Arr((x.shape[0],), lambda i: Lf(x.at(i)), "real", prov=("loglike_of", x))
        bb = st.new_arr(Arr((x.shape[0],), lambda i: Bf(x.at(i)), BlobS, prov=("blob_of", x))) if blobs else None
        return (st.new_arr(ll), bb)
    return h


def ext_records():
    ex = {}

    def rand(I, st, args, kw, node):
        st.ghost["rng"] = st.ghost.get("rng", []) + [("advance", node.lineno)]
        if len(args) == 2:
            a = fresh_arr((args[0],), Vec, "urand")
            q = z3.Int(fresh_name("q"))
            st.assume(z3.ForAll([q], INCUBE(a.at(q)), patterns=[a.at(q)]))
            return st.new_arr(a)
        a = fresh_arr((args[0],), "real", "rand")
        q = z3.Int(fresh_name("q"))
        st.assume(z3.ForAll([q], z3.And(a.at(q) >= 0, a.at(q) < 1), patterns=[a.at(q)]))
        return st.new_arr(a)

    def choice(I, st, args, kw, node):
        """np.random.choice(a, size=m, replace=True[, p]): m elements of a (requires len(a) >= 1)."""
        a = st.arr(args[0]) if isinstance(args[0], Ref) else None
        if a is None:
            raise Unsupported("choice(int)")
        size = kw.get("size", args[1] if len(args) > 1 else None)
        I.oblige(f"call:np.random.choice:population-nonempty@{node.lineno}", st, to_z3(a.shape[0], "int") >= 1, node)
        pick = fresh_arr((size,), "int", "pick")
        q = z3.Int(fresh_name("q"))
        st.assume(z3.ForAll([q], z3.Implies(z3.And(q >= 0, q < to_z3(size, "int")),
                                            z3.And(pick.at(q) >= 0, pick.at(q) < to_z3(a.shape[0], "int"))), patterns=[pick.at(q)]))
        return st.new_arr(Arr((size,), lambda k: a.at(pick.at(k)), a.sort, prov=("choice", a, pick)))

    def isinf(I, st, v, node):
        a = npmodel.arr_of(st, v)
        return st.new_arr(Arr(a.shape, lambda i: INFP(to_z3(a.at(i), "real")), "bool"))

    def log_frac(I, st, args, kw, node):
        return npmodel.np_log(I, st, args, kw, node)

    ex["numpy.random.rand"] = rand
    ex["numpy.random.choice"] = choice
    ex["__isinf__"] = isinf
    ex.update(pbar_ext())
    return ex


def make_record_history(st, T, blobs=False, finite=True):
    """Well-formed history whose every batch satisfies INV-REC."""
    lens = z3.Function(fresh_name("n_t"), z3.IntSort(), z3.IntSort())
    t, j = z3.Int(fresh_name("t")), z3.Int(fresh_name("j"))
    Tz = to_z3(T, "int")
    st.assume(z3.ForAll([t], z3.Implies(z3.And(t >= 0, t < Tz), lens(t) >= 1), patterns=[lens(t)]))
    Hu = z3.Function(fresh_name("Hu"), z3.IntSort(), z3.IntSort(), Vec)
    Hx = z3.Function(fresh_name("Hx"), z3.IntSort(), z3.IntSort(), Vec)
    Hl = z3.Function(fresh_name("Hlogl"), z3.IntSort(), z3.IntSort(), z3.RealSort())
    Hb = z3.Function(fresh_name("Hblobs"), z3.IntSort(), z3.IntSort(), BlobS)
    body = [Hx(t, j) == Tf(Hu(t, j)), Hl(t, j) == Lf(Hx(t, j)), INCUBE(Hu(t, j))]
    if blobs:
        body.append(Hb(t, j) == Bf(Hx(t, j)))
    if finite:
        body.append(z3.Not(INFP(Hl(t, j))))
    st.assume(z3.ForAll([t, j], z3.Implies(z3.And(t >= 0, t < Tz, j >= 0, j < lens(t)), z3.And(*body)),
                        patterns=[Hu(t, j)]))
    st.assume(z3.ForAll([t, j], z3.Implies(z3.And(t >= 0, t < Tz, j >= 0, j < lens(t)), z3.And(*body)),
                        patterns=[Hx(t, j)]))
    st.assume(z3.ForAll([t, j], z3.Implies(z3.And(t >= 0, t < Tz, j >= 0, j < lens(t)), z3.And(*body)),
                        patterns=[Hl(t, j)]))
    d = {}
    fns = {"u": Hu, "x": Hx, "logl": Hl, "blobs": Hb}
    for k, (f, srt) in {"u": (Hu, Vec), "x": (Hx, Vec), "logl": (Hl, "real"), "blobs": (Hb, BlobS)}.items():
        if k == "blobs" and not blobs:
            d[k] = symlist.new_symlist(st, 0, lambda kk: None, lens=lens, kind="array")
            st.cell(d[k])["__lenskey__"] = str(lens)
            continue
        el = lambda kk, f=f, srt=srt: Arr((lens(to_z3(kk, "int")),), lambda jj, kk=kk: f(to_z3(kk, "int"), to_z3(jj, "int")), srt)
        r = symlist.new_symlist(st, T, el, lens=lens, kind="array")
        st.cell(r)["__lenskey__"] = str(lens)
        st.cell(r)["__key__"] = k
        d[k] = r
    for k in ("beta", "logz", "iter", "calls", "steps", "efficiency", "ess", "acceptance"):
        f = z3.Function(fresh_name("H" + k), z3.IntSort(), z3.IntSort() if k in ("iter", "calls", "steps") else z3.RealSort())
        fns[k] = f
        d[k] = symlist.new_symlist(st, T, (lambda kk, f=f: f(to_z3(kk, "int"))))
    return st.new_dict(d), fns, lens


def make_record_state(st, current, T=None, blobs=False, finite=True):
    T = T if T is not None else fresh_scalar("int", "T")
    st.assume(T >= 0)
    hist, fns, lens = make_record_history(st, T, blobs=blobs, finite=finite)
    cur = {k: None for k in CURRENT_KEYS}
    cur.update(current)
    sm = st.new_obj("StateManager", __module__=SM, _current=st.new_dict(cur), _history=hist, _results_dict=None,
                    n_dim=fresh_scalar("int", "n_dim"))
    return sm, dict(T=T, fns=fns, lens=lens)
