"""C15 — weighted mixture and hierarchical clustering models satisfy their invariants (DESIGN §2/C15)."""
import ast
import z3

from pyvc.interp import LoopSpec
from pyvc.values import Ref, Arr, Opaque, Unsupported, PyRaise, to_z3, fresh_scalar, fresh_arr, fresh_name, is_conc
from pyvc import npmodel, symlist, eff
from pyvc.framework import ObResult
from pyvc.theories import sums, real
from .common import *  # noqa

CL = "tempest.cluster"
GM = "GaussianMixture"
EPS = z3.RealVal("1/10000000000")


def nonneg2(a, n, m):
    i, j = z3.Int(fresh_name("i")), z3.Int(fresh_name("j"))
    return z3.ForAll([i, j], z3.Implies(z3.And(i >= 0, i < n, j >= 0, j < m), a.at(i, j) >= 0), patterns=[a.at(i, j)])


# ------------------------------------------------------------------------------------------ the E-step
def e_step(ctx, cov_type):
    """GaussianMixture._e_step from the real source: for mixture weights >= 0 (the M-step's postcondition) it returns an (n, K)
    array of non-negative responsibilities, each at most 1 (each entry is one non-negative summand of its row total s divided by
    s + 1e-10); the fallback arm (singular covariance) keeps the same facts.  pdf is the assumed scipy contract (values >= 0, or
    raises ValueError / LinAlgError)."""
    info = {}
    from pyvc.interp import _Outcomes
    from pyvc.state import Outcome

    def pdf(I, st, args, kw, node):
        X = st.arr(args[0])
        a = fresh_arr((X.shape[0],), "real", "pdf")
        q = z3.Int(fresh_name("q"))
        st.assume(z3.ForAll([q], a.at(q) >= 0, patterns=[a.at(q)]))
        out = st.new_arr(a)
        if st.ghost.get("in_fallback"):
            return out              # second call, inside the handler: reg_covar * I is positive definite, pdf does not raise
        bad = st.clone()
        bad.ghost["in_fallback"] = True
        bad2 = st.clone()
        bad2.ghost["in_fallback"] = True
        return _Outcomes([Outcome("return", st, out), Outcome("raise", bad, ("ValueError", "singular covariance", node.lineno)),
                          Outcome("raise", bad2, ("LinAlgError", "singular covariance", node.lineno))])

    def setup(I, st):
        n, d, K = fresh_scalar("int", "n"), fresh_scalar("int", "d"), fresh_scalar("int", "K")
        st.assume(z3.And(n >= 1, d >= 1, K >= 1))
        w = fresh_arr((K,), "real", "weights")
        k = z3.Int(fresh_name("k"))
        st.assume(z3.ForAll([k], z3.Implies(z3.And(k >= 0, k < K), w.at(k) >= 0), patterns=[w.at(k)]))
        cov = fresh_arr((K, d, d) if cov_type == "full" else (K, d), "real", "cov")
        obj = st.new_obj(GM, __module__=CL, n_components=K, covariance_type=cov_type, reg_covar=z3.RealVal("1/1000000"))
        info.update(n=n, d=d, K=K)
        return dict(self_val=obj, args=[st.new_arr(fresh_arr((n, d), "real", "X")), st.new_arr(w), st.new_arr(fresh_arr((K, d), "real", "mu")),
                                        st.new_arr(cov)])

    def inv(v):
        R = v["responsibilities"]
        n, K = info["n"], info["K"]
        i, c = z3.Int(fresh_name("i")), z3.Int(fresh_name("c"))
        v.state.ghost["in_fallback"] = False
        return z3.And(to_z3(R.shape[0], "int") == n, to_z3(R.shape[1], "int") == K,
                      z3.ForAll([i, c], z3.Implies(z3.And(i >= 0, i < n, c >= 0, c < K), R.at(i, c) >= 0)))

    def post(I, o, pre):
        st = o.state
        R = st.arr(o.value)
        n, K = info["n"], info["K"]
        i, c = z3.Int(fresh_name("i")), z3.Int(fresh_name("c"))
        rng = z3.And(i >= 0, i < n, c >= 0, c < K)
        g = [("shape-n-by-K", z3.And(R.ndim == 2, to_z3(R.shape[0], "int") == n, to_z3(R.shape[1], "int") == K) if R.ndim == 2 else False)]
        # the un-normalised array whose rows were summed, and "entry <= row total" for it (rule with checked premise)
        raw = [a for (a, ax, P) in st.ghost.get("sumarrs2", []) if ax == 1]
        if raw:
            pe, ce = sums.elem_le_rowsum_rule(st, raw[-1])
            pn, cn = sums.nonneg2_rule(st, raw[-1], 1)
            g += [("raw-entries-nonnegative:entry<=row-total", pe, ce), ("raw-entries-nonnegative:row-totals>=0", pn, cn)]
        g += [("responsibilities-nonnegative", z3.Implies(rng, R.at(i, c) >= 0)),
              ("responsibilities-at-most-one", z3.Implies(rng, R.at(i, c) <= 1))]
        return g
    ex = pdf_ext()
    ex.update({"scipy.stats.multivariate_normal.pdf": pdf, "numpy.eye": np_eye, "numpy.diag": np_diag})
    ctx.verify(cov_type, CL, f"{GM}._e_step", setup, post, loops={0: LoopSpec(inv, label="components")},
               registry={(CL, f"{GM}._get_covariance"): "inline"}, extras=ex, replayer="c15_gmm")


# ------------------------------------------------------------------------------------------ O1-O3: the M-step
def m_step(ctx, cov_type):
    info = {}

    def setup(I, st):
        n, d, K = fresh_scalar("int", "n"), fresh_scalar("int", "d"), fresh_scalar("int", "K")
        st.assume(z3.And(n >= 1, d >= 1, K >= 1))
        X = fresh_arr((n, d), "real", "X")
        R = fresh_arr((n, K), "real", "resp")
        w = fresh_arr((n,), "real", "w")
        i = z3.Int(fresh_name("i"))
        st.assume(nonneg2(R, n, K))
        st.assume(z3.ForAll([i], z3.Implies(z3.And(i >= 0, i < n), w.at(i) >= 0), patterns=[w.at(i)]))
        lo = z3.Function(fresh_name("lo"), z3.IntSort(), z3.RealSort())
        hi = z3.Function(fresh_name("hi"), z3.IntSort(), z3.RealSort())
        b = z3.Int(fresh_name("b"))
        st.assume(z3.ForAll([i, b], z3.Implies(z3.And(i >= 0, i < n, b >= 0, b < d), z3.And(lo(b) <= X.at(i, b), X.at(i, b) <= hi(b))),
                            patterns=[X.at(i, b)]))
        obj = st.new_obj(GM, __module__=CL, n_components=K, covariance_type=cov_type)
        info.update(n=n, d=d, K=K, X=X, R=R, w=w, lo=lo, hi=hi)
        return dict(self_val=obj, args=[st.new_arr(X), st.new_arr(R), st.new_arr(w)])

    def facts(st):
        """the arrays the routine built (found through the T-SUM ghosts)"""
        wr = [a for (a, ax, P) in st.ghost.get("sumarrs2", []) if ax == 0][0]       # weighted_resp (first column-summed array)
        return wr

    def cov_inv(v):
        st = v.state
        cov = v["covariances"]
        K, d = info["K"], info["d"]
        j, a, b = z3.Int(fresh_name("j")), z3.Int(fresh_name("a")), z3.Int(fresh_name("b"))
        if cov_type == "full":
            body = z3.And(cov.at(j, a, b) == cov.at(j, b, a), z3.Implies(a == b, cov.at(j, a, b) >= 0))
            return z3.And(to_z3(cov.shape[0], "int") == K, to_z3(cov.shape[1], "int") == d, to_z3(cov.shape[2], "int") == d,
                          z3.ForAll([j, a, b], z3.Implies(z3.And(j >= 0, j < v.k, a >= 0, a < d, b >= 0, b < d), body)))
        return z3.And(to_z3(cov.shape[0], "int") == K, to_z3(cov.shape[1], "int") == d,
                      z3.ForAll([j, a], z3.Implies(z3.And(j >= 0, j < v.k, a >= 0, a < d), cov.at(j, a) >= 0)))

    def cov_hints(v):
        st = v.state
        hs = []
        if cov_type == "full":
            dots = st.ghost.get("dots", [])
            if dots:
                A, B, P = dots[-1]
                p1, c1 = sums.dot_cong_rule(st, A, B, A, B, imap=lambda a, b: (b, a))
                p2, c2 = sums.dot_nonneg_rule(st, A, B, diag_only=True)
                hs += [("gram-matrix-symmetric", p1, c1), ("gram-matrix-diagonal-nonnegative", p2, c2)]
            cols = [a for (a, P) in st.ghost.get("sumarrs", [])]
            if cols:
                p3 = sums.prefix_fn(st, cols[-1])
                hs.append(("component-mass-nonnegative", nonneg_prem(cols[-1]), nonneg_concl(st, cols[-1])))
        else:
            arrs2 = [(a, ax) for (a, ax, P) in st.ghost.get("sumarrs2", [])]
            if arrs2:
                a2, ax = arrs2[-1]
                p, c = sums.nonneg2_rule(st, a2, ax)
                hs.append(("weighted-squares-nonnegative", p, c))
            cols = [a for (a, P) in st.ghost.get("sumarrs", [])]
            if cols:
                hs.append(("component-mass-nonnegative", nonneg_prem(cols[-1]), nonneg_concl(st, cols[-1])))
        return hs

    def nonneg_prem(a):
        i = z3.Int(fresh_name("ip"))
        return z3.Implies(z3.And(i >= 0, i < to_z3(a.shape[0], "int")), to_z3(a.at(i), "real") >= 0)

    def nonneg_concl(st, a):
        P = sums.prefix_fn(st, a)
        m = z3.Int(fresh_name("m"))
        return z3.ForAll([m], z3.Implies(z3.And(m >= -1, m < to_z3(a.shape[0], "int")), P(m) >= 0), patterns=[P(m)])

    def post(I, o, pre):
        st = o.state
        W, M, C = [st.arr(x) for x in o.value]
        n, d, K = info["n"], info["d"], info["K"]
        wr = facts(st)
        k, b, a = z3.Int(fresh_name("k")), z3.Int(fresh_name("b")), z3.Int(fresh_name("a"))
        S = sums.prefix2_fn(st, wr, 0)                 # S(k, m): partial column sums of weighted_resp
        mass = lambda kk: S(kk, n - 1)
        steps = []
        pn, cn = sums.nonneg2_rule(st, wr, 0)
        steps.append(("weighted-responsibilities-nonnegative", pn, cn))
        colsum = [x for (x, P) in st.ghost.get("sumarrs", []) if x.prov and x.prov[0] == "axissum" and x.prov[1] is wr]
        # precondition (stated over the routine's own soft counts): the total weighted responsibility is positive
        if colsum:
            steps.append(("requires:positive-total-mass", z3.BoolVal(True), sums.total(st, colsum[0]) > 0))
        # O1
        steps.append(("weights:one-per-component", to_z3(W.shape[0], "int") == K, None))
        steps.append(("weights:nonnegative", z3.ForAll([k], z3.Implies(z3.And(k >= 0, k < K), W.at(k) >= 0)), None))
        steps.append(("weights:sum-to-one", sums.total(st, W) == 1, None))
        # O2: value and box (through the weighted-average lemma)
        dots = st.ghost.get("dots", [])
        Am, Bm, Pm = dots[0]
        steps.append(("means:shape", z3.And(to_z3(M.shape[0], "int") == K, to_z3(M.shape[1], "int") == d), None))
        steps.append(("means:value-is-weighted-sum-over-mass-plus-guard",
                      z3.ForAll([k, b], z3.Implies(z3.And(k >= 0, k < K, b >= 0, b < d),
                                                   M.at(k, b) * (mass(k) + EPS) == Pm(k, b, n - 1))), None))
        pt, ct = sums.cong2_rule(st, Am, wr, 1, 0)
        steps.append(("means:row-sums-of-the-transposed-weights-are-the-component-masses", pt, ct))
        pb, cb = sums.dot_bound_rule(st, Am, Bm, info["lo"], info["hi"])
        steps.append(("means:weighted-average-bound-premise", pb, cb))
        steps.append(("means:inside-the-bounding-box-up-to-the-stated-shrink-factor",
                      z3.ForAll([k, b], z3.Implies(z3.And(k >= 0, k < K, b >= 0, b < d),
                                                   z3.And(info["lo"](b) * mass(k) <= M.at(k, b) * (mass(k) + EPS),
                                                          M.at(k, b) * (mass(k) + EPS) <= info["hi"](b) * mass(k)))), None))
        # O3
        if cov_type == "full":
            steps.append(("covariances:symmetric-with-nonnegative-diagonal",
                          z3.ForAll([k, a, b], z3.Implies(z3.And(k >= 0, k < K, a >= 0, a < d, b >= 0, b < d),
                                                          z3.And(C.at(k, a, b) == C.at(k, b, a), z3.Implies(a == b, C.at(k, a, b) >= 0)))), None))
        else:
            steps.append(("covariances:nonnegative-variances",
                          z3.ForAll([k, a], z3.Implies(z3.And(k >= 0, k < K, a >= 0, a < d), C.at(k, a) >= 0)), None))
        return steps

    def setup_pos(I, st):
        r = setup(I, st)
        return r

    def on_interp(I):
        I.loopspecs[(CL, f"{GM}._compute_covariances")] = {i: LoopSpec(cov_inv, label="covariances", hints=cov_hints, reads_env=True) for i in range(4)}
    res = ctx.verify(cov_type, CL, f"{GM}._m_step", setup, post, registry={(CL, f"{GM}._compute_covariances"): "inline"},
                     on_interp=on_interp, replayer="c15_gmm", allowed_raises=())
    return res


# ------------------------------------------------------------------------------------------ O7/O8: HierarchicalGaussianMixture.fit
HGM = "HierarchicalGaussianMixture"
from pyvc.values import Opt  # noqa: E402
from pyvc import pysets      # noqa: E402


class Cl:
    """ghost description of the symbolic cluster list (a symlist of integer arrays)"""

    def __init__(self, st, name="clusters"):
        self.C = fresh_scalar("int", "C")
        self.LEN = z3.Function(fresh_name("len_c"), z3.IntSort(), z3.IntSort())
        self.E = z3.Function(fresh_name("elem_c"), z3.IntSort(), z3.IntSort(), z3.IntSort())

    def elem(self, c):
        cz = to_z3(c, "int")
        return Arr((self.LEN(cz),), lambda j, cz=cz: self.E(cz, to_z3(j, "int")), "int", prov=("cluster", self, cz))


def new_cluster_list(st, cl):
    r = symlist.new_symlist(st, cl.C, lambda k: cl.elem(k), lens=lambda t: cl.LEN(to_z3(t, "int")), kind="array")
    st.cell(r)["__cl__"] = cl
    return r


def partition_axioms(st, cl, n):
    """PART: the clusters are a partition of range(n) — stated as a bijection between samples and (cluster, position) pairs."""
    OWNER = z3.Function(fresh_name("owner"), z3.IntSort(), z3.IntSort())
    POS = z3.Function(fresh_name("pos"), z3.IntSort(), z3.IntSort())
    x, c, j = z3.Int(fresh_name("x")), z3.Int(fresh_name("c")), z3.Int(fresh_name("j"))
    st.assume(z3.ForAll([x], z3.Implies(z3.And(x >= 0, x < n), z3.And(OWNER(x) >= 0, OWNER(x) < cl.C, POS(x) >= 0, POS(x) < cl.LEN(OWNER(x)),
                                                                   cl.E(OWNER(x), POS(x)) == x)), patterns=[OWNER(x)]))
    st.assume(z3.ForAll([c, j], z3.Implies(z3.And(c >= 0, c < cl.C, j >= 0, j < cl.LEN(c)),
                                           z3.And(cl.E(c, j) >= 0, cl.E(c, j) < n, OWNER(cl.E(c, j)) == c, POS(cl.E(c, j)) == j)),
                        patterns=[cl.E(c, j)]))
    return OWNER, POS


def hier_fit(ctx, normalize, min_points_given):
    info = {}
    tag = ("normalize" if normalize else "raw") + (":min_points" if min_points_given else ":default-min")

    # ---- contracts of the mixture model used inside (proved above / assumed)
    def gm_new(I, st, args, kw, node):
        return st.new_obj(GM, __module__="abstract", n_components=kw.get("n_components", 1), random_state=kw.get("random_state"))

    def gm_fit(I, st, args, kw, node):
        g, data = args[0], st.arr(args[1])
        w = st.arr(kw.get("sample_weight", args[2] if len(args) > 2 else None))
        I.oblige(f"call:GaussianMixture.fit:rows-and-weights@{node.lineno}", st,
                 z3.And(to_z3(data.shape[0], "int") >= 1, to_z3(w.shape[0], "int") == to_z3(data.shape[0], "int")), node)
        k = st.cell(g)["n_components"]
        st.cell(g)["means_"] = st.new_arr(fresh_arr((k, data.shape[1]), "real", "gm_means"))
        st.cell(g)["covariances_"] = st.new_arr(fresh_arr((k, data.shape[1], data.shape[1]), "real", "gm_cov"))
        return g

    def gm_bic(I, st, args, kw, node):
        return fresh_scalar("real", "bic")

    def gm_predict(I, st, args, kw, node):
        g, data = args[0], st.arr(args[1])
        k = to_z3(st.cell(g)["n_components"], "int")
        lab = fresh_arr((data.shape[0],), "int", "gm_labels")
        q = z3.Int(fresh_name("q"))
        st.assume(z3.ForAll([q], z3.Implies(z3.And(q >= 0, q < to_z3(data.shape[0], "int")), z3.And(lab.at(q) >= 0, lab.at(q) < k)),
                            patterns=[lab.at(q)]))      # O6 (GaussianMixture.predict: argmax over k columns)
        a = Arr(lab.shape, lab.fn, "int", prov=("gm_labels", st.cell(g)["n_components"]))
        return st.new_arr(a)

    def h_tol(I, st, args, kw, node):
        return fresh_scalar("real", "bic_tol")

    # ---- list operations on the cluster list
    def symcomp(I, st, e, it, mod):
        g = e.generators[0]
        src = ast.unparse(e)
        if len(g.ifs) == 1 and isinstance(it, Opaque) and it.tag == "range":
            # [indices[i] for i in range(len(indices)) if labels[i] == v]  -> the sub-array at the positions with label v
            cond = g.ifs[0]
            if not (isinstance(cond, ast.Compare) and len(cond.ops) == 1 and isinstance(cond.ops[0], ast.Eq)):
                raise Unsupported("filtered comprehension: only `labels[i] == const` filters")
            saved = dict(st.env)
            i = z3.Int(fresh_name("i"))
            I.assign(g.target, i, st, mod)
            npc = len(st.pc)
            st.pc.append(z3.And(i >= 0, i < to_z3(it.info["hi"], "int")))
            try:
                cnd = to_z3(I.eval(cond, st, mod))
                elt = to_z3(I.eval(e.elt, st, mod), "int")
            finally:
                del st.pc[npc:]
                st.env = saved
            n = it.info["hi"]
            mask = Arr((n,), lambda k: z3.substitute(cnd, (i, to_z3(k, "int"))), "bool")
            m, sel, inv = npmodel.mask_selection(I, st, mask)
            base = Arr((n,), lambda k: z3.substitute(elt, (i, to_z3(k, "int"))), "int")
            lab_src = st.env.get("labels")
            par = st.ghost.get("__iter_elem__")
            val = I.eval(cond.comparators[0], st, mod)
            child = Arr((m,), lambda q: base.at(sel(to_z3(q, "int"))), "int",
                        prov=("child", par[1] if par else None, val, st.arr(lab_src) if lab_src is not None else None, par[2] if par else None, mask))
            return st.new_arr(child)
        if not g.ifs and "labels == i" in src:
            # cluster_weights_: total sample weight per label / total weight (per-label sums; L-SUM-partition not machine-checked)
            n = to_z3(it.info["hi"], "int") if isinstance(it, Opaque) else None
            CW = z3.Function(fresh_name("cluster_weight"), z3.IntSort(), z3.RealSort())
            st.ghost["cluster_weights_fn"] = CW
            return symlist.new_symlist(st, it.info["hi"], lambda k: CW(to_z3(k, "int")))
        return symlist.symcomp(I, st, e, it, mod)

    def list_pop(I, st, args, kw, node):
        lst, idx = args[0], args[1] if len(args) > 1 else -1
        c = st.cell(lst)
        if "__cl__" not in c:
            return npmodel.list_pop(I, st, args, kw, node)
        if isinstance(idx, Opt):
            I.oblige(f"clusters.pop:index-is-not-None@{node.lineno}", st, idx.flag, node)
            st.assume(idx.flag)
            idx = idx.value
        if idx is None:
            raise PyRaise("TypeError", "pop(None)")
        cl = c["__cl__"]
        iz = to_z3(idx, "int")
        I.oblige(f"clusters.pop:index-in-range@{node.lineno}", st, z3.And(iz >= 0, iz < cl.C), node)
        st.ghost["popped"] = (iz, cl)
        new = Cl(st)
        cc = z3.Int(fresh_name("c"))
        j = z3.Int(fresh_name("j"))
        st.assume(new.C == cl.C - 1)
        st.assume(z3.ForAll([cc], new.LEN(cc) == z3.If(cc < iz, cl.LEN(cc), cl.LEN(cc + 1)), patterns=[new.LEN(cc)]))
        st.assume(z3.ForAll([cc, j], new.E(cc, j) == z3.If(cc < iz, cl.E(cc, j), cl.E(cc + 1, j)), patterns=[new.E(cc, j)]))
        c["__cl__"] = new
        c["__symlen__"] = new.C
        c["__symelem__"] = lambda k: new.elem(k)
        c["__lens__"] = lambda t: new.LEN(to_z3(t, "int"))
        return st.new_arr(cl.elem(iz))

    def list_extend(I, st, args, kw, node):
        lst, items = args[0], args[1]
        c = st.cell(lst)
        if "__cl__" not in c:
            return npmodel.list_extend(I, st, args, kw, node)
        if isinstance(items, Opt):
            I.oblige(f"clusters.extend:split-is-not-None@{node.lineno}", st, items.flag, node)
            st.assume(items.flag)
            items = items.value
        if not (isinstance(items, tuple) and len(items) == 2):
            raise Unsupported("clusters.extend of something that is not a pair of children")
        a, b = st.arr(items[0]), st.arr(items[1])
        pp = st.ghost.get("popped")
        cl = c["__cl__"]
        mp = info["min_points"]
        ok_prov = a.prov is not None and b.prov is not None and a.prov[0] == "child" and b.prov[0] == "child"
        if not ok_prov or pp is None:
            I.oblige(f"clusters.extend:children-of-the-popped-cluster@{node.lineno}", st, False, node,
                     note="the pair appended to the cluster list is not a recorded split of the cluster that was just removed")
        else:
            (_, pa, va, la, ra, ma), (_, pb, vb, lb, rb, mb) = a.prov, b.prov
            I.oblige(f"clusters.extend:children-of-the-popped-cluster@{node.lineno}", st,
                     z3.And(to_z3(pa, "int") == pp[0], to_z3(pb, "int") == pp[0]), node,
                     note="the two children must come from the cluster that was just removed: otherwise its points are lost and another "
                          "cluster's points are duplicated")
            complementary = (la is lb and la is not None and la.prov is not None and la.prov[0] == "gm_labels" and la.prov[1] == 2
                             and {va, vb} == {0, 1}) or (a.prov[4] == "havocked-valid" and b.prov[4] == "havocked-valid")
            I.oblige(f"clusters.extend:children-partition-their-parent@{node.lineno}", st, bool(complementary), node,
                     note="child lists are the label-0 and label-1 positions of one 2-component prediction")
        I.oblige(f"clusters.extend:children-not-below-min_points@{node.lineno}", st,
                 z3.And(to_z3(a.shape[0], "int") >= mp, to_z3(b.shape[0], "int") >= mp), node)
        new = Cl(st)
        cc, j = z3.Int(fresh_name("c")), z3.Int(fresh_name("j"))
        st.assume(new.C == cl.C + 2)
        st.assume(z3.ForAll([cc], new.LEN(cc) == z3.If(cc < cl.C, cl.LEN(cc), z3.If(cc == cl.C, to_z3(a.shape[0], "int"), to_z3(b.shape[0], "int"))),
                            patterns=[new.LEN(cc)]))
        st.assume(z3.ForAll([cc, j], new.E(cc, j) == z3.If(cc < cl.C, cl.E(cc, j), z3.If(cc == cl.C, to_z3(a.at(j), "int"), to_z3(b.at(j), "int"))),
                            patterns=[new.E(cc, j)]))
        c["__cl__"] = new
        c["__symlen__"] = new.C
        c["__symelem__"] = lambda k: new.elem(k)
        c["__lens__"] = lambda t: new.LEN(to_z3(t, "int"))
        st.ghost["splits"] = st.ghost.get("splits", 0) + 1
        st.ghost["popped"] = None
        return None

    def np_colstat(name):
        def h(I, st, args, kw, node):
            a = st.arr(args[0])
            if kw.get("axis", args[1] if len(args) > 1 else None) != 0 or a.ndim != 2:
                raise Unsupported(f"np.{name} axis")
            return st.new_arr(fresh_arr((a.shape[1],), "real", name))
        return h

    def np_full(I, st, args, kw, node):
        shp = npmodel._shape_arg(st, args[0])
        v = args[1]
        return st.new_arr(Arr(shp, lambda *i: v, "int" if isinstance(v, int) else "real"))

    def np_eye(I, st, args, kw, node):
        n = args[0]
        return st.new_arr(Arr((n, n), lambda i, j: z3.If(to_z3(i, "int") == to_z3(j, "int"), z3.RealVal(1), z3.RealVal(0)), "real"))

    def np_outer(I, st, args, kw, node):
        a, b = st.arr(args[0]), st.arr(args[1])
        return st.new_arr(Arr((a.shape[0], b.shape[0]), lambda i, j: a.at(i) * b.at(j), "real"))

    def np_mean0(I, st, args, kw, node):
        a = st.arr(args[0])
        if kw.get("axis") == 0 and a.ndim == 2:
            return st.new_arr(fresh_arr((a.shape[1],), "real", "colmean"))
        return npmodel.np_mean(I, st, args, kw, node)

    def scatter(I, st, base, A, X, value, node):
        """labels[indices] = v with an integer index array: the listed positions receive v."""
        In = pysets.member_of_array(st, X)
        n = to_z3(A.shape[0], "int")
        q = z3.Int(fresh_name("q"))
        I.oblige(f"scatter-indices-in-range@{node.lineno}", st,
                 z3.ForAll([q], z3.Implies(z3.And(q >= 0, q < to_z3(X.shape[0], "int")), z3.And(X.at(q) >= 0, X.at(q) < n))), node)
        st.set_arr(base, Arr(A.shape, lambda i: z3.If(In(to_z3(i, "int")), to_z3(value, "int"), to_z3(A.at(i), "int")), "int"))

    reg = {(CL, f"{GM}.__new__"): gm_new, (CL, f"{HGM}._compute_bic_tolerance"): h_tol, (CL, f"{HGM}._normalize_data"): "inline",
           (CL, f"{HGM}._denormalize_data"): "inline", (CL, f"{HGM}._denormalize_covariance"): "inline"}
    ex = {("method", GM, "fit"): gm_fit, ("method", GM, "bic"): gm_bic, ("method", GM, "predict"): gm_predict,
          "__symcomp__": symcomp, ("method", "list", "pop"): list_pop, ("method", "list", "extend"): list_extend,
          "numpy.min": np_colstat("colmin"), "numpy.max": np_colstat("colmax"), "numpy.full": np_full, "numpy.eye": np_eye,
          "numpy.outer": np_outer, "numpy.mean": np_mean0, "__scatter__": scatter,
          ("const", "numpy.inf"): lambda I, st: st.ghost.setdefault("__INF__", fresh_scalar("real", "INF"))}

    def setup(I, st):
        n, d = fresh_scalar("int", "n"), fresh_scalar("int", "d")
        st.assume(z3.And(n >= 1, d >= 1))
        X = fresh_arr((n, d), "real", "X")
        w = fresh_arr((n,), "real", "w")
        maxit = fresh_scalar("int", "max_iterations")
        st.assume(maxit >= 0)
        mp = fresh_scalar("int", "min_points") if min_points_given else None
        if mp is not None:
            st.assume(mp >= 1)
        tm = fresh_scalar("real", "threshold_modifier")
        st.assume(tm > 0)
        obj = st.new_obj(HGM, __module__=CL, n_init=1, max_iterations=maxit, min_points=mp, covariance_type="full", verbose=False,
                         normalize=normalize, threshold_modifier=tm, labels_=None, cluster_centers_=st.new_list([]),
                         cluster_covariances_=st.new_list([]), cluster_weights_=st.new_list([]), n_clusters_=0, _gmm_ready=False,
                         _data_min=None, _data_max=None)
        info.update(n=n, d=d, obj=obj, maxit=maxit, min_points=(mp if mp is not None else 2 * d))
        return dict(self_val=obj, args=[st.new_arr(X), st.new_arr(w)])

    # ---- invariants
    def cl_of(v):
        r = v.state.env["clusters"]
        c = v.state.cell(r)
        if "__cl__" in c:
            return c["__cl__"]
        return None

    def fresh_clusters(st):
        cl = Cl(st)
        info["cl_head"] = cl
        r = new_cluster_list(st, cl)
        st.ghost["__havoc_lists__"] = set(st.ghost.get("__havoc_lists__", ())) | {r.oid}
        return r

    def inv_outer(v):
        st = v.state
        r = st.env["clusters"]
        c = st.cell(r)
        n, mp = info["n"], info["min_points"]
        it = to_z3(st.env["iteration"], "int")
        if "__cl__" not in c:
            # entry: the literal [[0, 1, ..., n-1]]
            items = c["__list__"]
            ok = len(items) == 1 and symlist.is_symlist(st, items[0])
            if not ok:
                return z3.BoolVal(False)
            one = st.cell(items[0])
            k = z3.Int(fresh_name("k"))
            return z3.And(it == 0, to_z3(one["__symlen__"], "int") == n,
                          z3.ForAll([k], z3.Implies(z3.And(k >= 0, k < n), to_z3(one["__symelem__"](k), "int") == k)))
        cl = c["__cl__"]
        cc, jj = z3.Int(fresh_name("c")), z3.Int(fresh_name("j"))
        splits_ok = st.ghost.get("popped") is None
        return z3.And(z3.BoolVal(bool(splits_ok)), cl.C >= 1, it >= 0, it <= info["maxit"], cl.C <= 1 + it,
                      z3.Or(cl.C == 1, z3.ForAll([cc], z3.Implies(z3.And(cc >= 0, cc < cl.C), cl.LEN(cc) >= mp))),
                      z3.ForAll([cc], z3.Implies(z3.And(cc >= 0, cc < cl.C), cl.LEN(cc) >= 1)),
                      z3.ForAll([cc, jj], z3.Implies(z3.And(cc >= 0, cc < cl.C, jj >= 0, jj < cl.LEN(cc)),
                                                     z3.And(cl.E(cc, jj) >= 0, cl.E(cc, jj) < n))))

    def fresh_split(st):
        m1, m2 = fresh_scalar("int", "m_child1"), fresh_scalar("int", "m_child2")
        gp = fresh_scalar("int", "parent_of_best_split")
        a = Arr((m1,), fresh_arr((m1,), "int", "child1").fn, "int", prov=("child", gp, 0, None, "havocked-valid", None))
        b = Arr((m2,), fresh_arr((m2,), "int", "child2").fn, "int", prov=("child", gp, 1, None, "havocked-valid", None))
        return Opt(fresh_scalar("bool", "best_split_present"), (st.new_arr(a), st.new_arr(b)))

    def fresh_optint(nm):
        return lambda st: Opt(fresh_scalar("bool", nm + "_present"), fresh_scalar("int", nm))

    def as_opt(v):
        if isinstance(v, Opt):
            return v.flag, v.value
        if v is None:
            return z3.BoolVal(False), None
        return z3.BoolVal(True), v

    def inv_inner(v):
        st = v.state
        fs, split = as_opt(st.env.get("best_split"))
        fp, pidx = as_opt(st.env.get("best_parent_idx"))
        mp = info["min_points"]
        if split is None:
            return z3.Not(fs) if not z3.is_false(fs) else z3.BoolVal(True)
        a, b = st.arr(split[0]), st.arr(split[1])
        pa = a.prov[1] if (a.prov and a.prov[0] == "child") else None
        pb = b.prov[1] if (b.prov and b.prov[0] == "child") else None
        if pa is None or pb is None or pidx is None:
            return z3.Not(fs)
        valid = (a.prov[4] == "havocked-valid" and b.prov[4] == "havocked-valid") or \
            (a.prov[3] is b.prov[3] and a.prov[3] is not None and {a.prov[2], b.prov[2]} == {0, 1}
             and a.prov[3].prov is not None and a.prov[3].prov[0] == "gm_labels" and a.prov[3].prov[1] == 2)
        q = z3.Int(fresh_name("q"))
        n = info["n"]
        return z3.Implies(fs, z3.And(fp, to_z3(pidx, "int") == to_z3(pa, "int"), to_z3(pidx, "int") == to_z3(pb, "int"),
                                     to_z3(pidx, "int") >= 0, to_z3(pidx, "int") < v.k, z3.BoolVal(bool(valid)),
                                     to_z3(a.shape[0], "int") >= mp, to_z3(b.shape[0], "int") >= mp,
                                     z3.ForAll([q], z3.Implies(z3.And(q >= 0, q < to_z3(a.shape[0], "int")), z3.And(a.at(q) >= 0, a.at(q) < n))),
                                     z3.ForAll([q], z3.Implies(z3.And(q >= 0, q < to_z3(b.shape[0], "int")), z3.And(b.at(q) >= 0, b.at(q) < n)))))

    def inv_label(v):
        st = v.state
        lab = v["labels"]
        cl = st.cell(st.env["clusters"]).get("__cl__")
        n = info["n"]
        if cl is None:
            return z3.BoolVal(False)
        OWNER = st.ghost.get("OWNER")
        if OWNER is None or st.ghost.get("OWNER_cl") is not cl:
            OWNER, POS = partition_axioms(st, cl, n)      # PART holds at the end of the split loop (invariant + L-PART)
            st.ghost["OWNER"], st.ghost["OWNER_cl"] = OWNER, cl
        x = z3.Int(fresh_name("x"))
        L = [symlist.length(st, st.env[nm]) for nm in ("cluster_centers", "cluster_covariances")]
        return z3.And(to_z3(lab.shape[0], "int") == n, *[to_z3(q, "int") == v.k for q in L],
                      z3.ForAll([x], z3.Implies(z3.And(x >= 0, x < n), lab.at(x) == z3.If(OWNER(x) < v.k, OWNER(x), -1))))

    def post(I, o, pre):
        st = o.state
        c = st.cell(info["obj"])
        n = info["n"]
        K = to_z3(c["n_clusters_"], "int")
        lab = st.arr(c["labels_"]) if isinstance(c["labels_"], Ref) else None
        x = z3.Int(fresh_name("x"))
        g = [("fitted:at-least-one-cluster", K >= 1),
             ("cap:K-at-most-1+max_iterations", K <= 1 + info["maxit"]),
             ("labels:every-training-point-has-one-label-in-[0,K)",
              z3.And(to_z3(lab.shape[0], "int") == n, z3.ForAll([x], z3.Implies(z3.And(x >= 0, x < n), z3.And(lab.at(x) >= 0, lab.at(x) < K))))
              if lab is not None else False),
             ("per-cluster-attributes-have-K-entries",
              z3.And(*[to_z3(symlist.length(st, c[k]) if isinstance(c[k], Ref) and c[k].kind == "list" else st.arr(c[k]).shape[0], "int") == K
                       for k in ("cluster_centers_", "cluster_covariances_", "cluster_weights_")])),
             ("gmm-ready-after-fit", to_z3(I.truth(c["_gmm_ready"], st))),
             ("normalisation-bounds-set-iff-normalize", (c["_data_min"] is not None and c["_data_max"] is not None) == normalize)]
        cl = st.cell(st.env["clusters"]).get("__cl__") if False else None
        return g

    def on_interp(I):
        pass

    loops = {0: LoopSpec(inv_outer, label="split-search", reads_env=True, fresh={"clusters": fresh_clusters},
                         variant=(lambda v: ("int", info["maxit"] - to_z3(v.state.env["iteration"], "int"))) if ctx.prop == "C18" else None),
             1: LoopSpec(inv_inner, label="candidates", reads_env=True, fresh={"best_split": fresh_split, "best_parent_idx": fresh_optint("best_parent_idx"),
                                                                "best_bic_threshold": lambda st: fresh_scalar("real", "thr")}),
             2: LoopSpec(inv_label, label="labelling", reads_env=True, fresh={"cluster_centers": ("list", "array", "real", None),
                                                               "cluster_covariances": ("list", "array", "real", None)})}

    class _F(dict):
        def __getitem__(self, k):
            if k == "cluster_centers":
                return ("list", "array", "real", (info["d"],))
            if k == "cluster_covariances":
                return ("list", "array", "real", (info["d"], info["d"]))
            return dict.__getitem__(self, k)
    loops[2].fresh = _F(loops[2].fresh)
    return ctx.verify(tag, CL, f"{HGM}.fit", setup, post, loops=loops, registry=reg, extras=ex, replayer="c15_gmm",
                      allowed_raises=())


# ------------------------------------------------------------------------------------------ O6: label ranges of predict
def h_argext(I, st, args, kw, node):
    """np.argmax / np.argmin(a, axis=1): one column index per row, in [0, number of columns) (requires >= 1 column)."""
    a = st.arr(args[0])
    axis = kw.get("axis", args[1] if len(args) > 1 else None)
    if a.ndim != 2 or axis not in (1, -1):
        raise Unsupported("argmax/argmin axis")
    ncol = to_z3(a.shape[1], "int")
    I.oblige(f"argmax-over-at-least-one-column@{node.lineno}", st, ncol >= 1, node,
             note="argmax of an empty axis raises ValueError")
    lab = fresh_arr((a.shape[0],), "int", "arg")
    q = z3.Int(fresh_name("q"))
    st.assume(z3.ForAll([q], z3.Implies(z3.And(q >= 0, q < to_z3(a.shape[0], "int")), z3.And(lab.at(q) >= 0, lab.at(q) < ncol)), patterns=[lab.at(q)]))
    return st.new_arr(lab)


def pdf_ext(may_raise=True):
    from pyvc.interp import _Outcomes
    from pyvc.state import Outcome

    def logpdf(I, st, args, kw, node):
        X = st.arr(args[0])
        out = st.new_arr(fresh_arr((X.shape[0],), "real", "logpdf"))
        if not may_raise:
            return out
        bad = st.clone()
        return _Outcomes([Outcome("return", st, out), Outcome("raise", bad, ("ValueError", "singular covariance", node.lineno))])

    def pdf(I, st, args, kw, node):
        X = st.arr(args[0])
        a = fresh_arr((X.shape[0],), "real", "pdf")
        q = z3.Int(fresh_name("q"))
        st.assume(z3.ForAll([q], a.at(q) >= 0, patterns=[a.at(q)]))
        out = st.new_arr(a)
        if not may_raise:
            return out
        bad = st.clone()
        return _Outcomes([Outcome("return", st, out), Outcome("raise", bad, ("ValueError", "singular covariance", node.lineno))])
    return {"scipy.stats.multivariate_normal.logpdf": logpdf, "scipy.stats.multivariate_normal.pdf": pdf}


def np_eye(I, st, args, kw, node):
    n = args[0]
    return st.new_arr(Arr((n, n), lambda i, j: z3.If(to_z3(i, "int") == to_z3(j, "int"), z3.RealVal(1), z3.RealVal(0)), "real"))


def np_diag(I, st, args, kw, node):
    a = st.arr(args[0])
    if a.ndim == 1:
        return st.new_arr(Arr((a.shape[0], a.shape[0]), lambda i, j: z3.If(to_z3(i, "int") == to_z3(j, "int"), to_z3(a.at(i), "real"), z3.RealVal(0)), "real"))
    return st.new_arr(Arr((a.shape[0],), lambda i: a.at(i, i), "real"))


def gm_predict_range(ctx, cov_type):
    info = {}

    def setup(I, st):
        n, d, K = fresh_scalar("int", "n"), fresh_scalar("int", "d"), fresh_scalar("int", "K")
        st.assume(z3.And(n >= 1, d >= 1, K >= 1))
        cov = fresh_arr((K, d, d) if cov_type == "full" else (K, d), "real", "cov")
        obj = st.new_obj(GM, __module__=CL, n_components=K, covariance_type=cov_type, reg_covar=z3.RealVal("1/1000000"),
                         weights_=st.new_arr(fresh_arr((K,), "real", "w")), means_=st.new_arr(fresh_arr((K, d), "real", "mu")),
                         covariances_=st.new_arr(cov))
        info.update(n=n, K=K)
        return dict(self_val=obj, args=[st.new_arr(fresh_arr((n, d), "real", "X"))])

    def inv(v):
        lp = v["log_probabilities"]
        return z3.And(to_z3(lp.shape[0], "int") == info["n"], to_z3(lp.shape[1], "int") == info["K"])

    def post(I, o, pre):
        lab = o.state.arr(o.value)
        q = z3.Int(fresh_name("q"))
        return [("one-label-per-row-in-[0,K)", z3.And(to_z3(lab.shape[0], "int") == info["n"],
                                                       z3.ForAll([q], z3.Implies(z3.And(q >= 0, q < info["n"]), z3.And(lab.at(q) >= 0, lab.at(q) < info["K"])))))]
    ex = pdf_ext()
    ex.update({"numpy.argmax": h_argext, "numpy.eye": np_eye, "numpy.diag": np_diag,
               ("const", "numpy.inf"): lambda I, st: st.ghost.setdefault("__INF__", fresh_scalar("real", "INF"))})
    ctx.verify(cov_type, CL, f"{GM}.predict", setup, post, loops={0: LoopSpec(inv, label="components")},
               registry={(CL, f"{GM}._get_covariance"): "inline"}, extras=ex, replayer="c15_gmm")


def hier_predict_range(ctx, normalize, gmm_ready):
    info = {}
    from pyvc.interp import _Outcomes
    from pyvc.state import Outcome

    def h_probs(I, st, args, kw, node):
        """Contract of _compute_gaussian_probabilities: one row per query point, one column per cluster; may raise."""
        obj, X = args[0], st.arr(args[1])
        out = st.new_arr(fresh_arr((X.shape[0], st.cell(obj)["n_clusters_"]), "real", "probs"))
        bad = st.clone()
        return _Outcomes([Outcome("return", st, out), Outcome("raise", bad, ("Exception", "probability computation failed", node.lineno))])

    def h_norm(I, st, args, kw, node):
        a = st.arr(args[0])
        axis = kw.get("axis")
        if a.ndim != 3 or axis != 2:
            raise Unsupported("np.linalg.norm shape")
        return st.new_arr(fresh_arr((a.shape[0], a.shape[1]), "real", "dist"))

    def setup(I, st):
        n, d, K = fresh_scalar("int", "n"), fresh_scalar("int", "d"), fresh_scalar("int", "K")
        st.assume(z3.And(n >= 1, d >= 1, K >= 1))       # fitted model (C14 typestate): K >= 1
        CF = z3.Function(fresh_name("center"), z3.IntSort(), z3.IntSort(), z3.RealSort())
        centers = symlist.new_symlist(st, K, lambda k: Arr((d,), lambda j, k=k: CF(to_z3(k, "int"), to_z3(j, "int")), "real"),
                                      lens=lambda t: d, kind="array")
        st.cell(centers)["__uniform_shape__"] = (d,)
        obj = st.new_obj(HGM, __module__=CL, normalize=normalize, verbose=False, n_clusters_=K, cluster_centers_=centers,
                         _gmm_ready=gmm_ready, _data_min=st.new_arr(fresh_arr((d,), "real", "dmin")) if normalize else None,
                         _data_max=st.new_arr(fresh_arr((d,), "real", "dmax")) if normalize else None)
        info.update(n=n, K=K)
        return dict(self_val=obj, args=[st.new_arr(fresh_arr((n, d), "real", "X"))])

    def post(I, o, pre):
        lab = o.state.arr(o.value)
        q = z3.Int(fresh_name("q"))
        return [("one-label-per-row-in-[0,K)", z3.And(to_z3(lab.shape[0], "int") == info["n"],
                                                       z3.ForAll([q], z3.Implies(z3.And(q >= 0, q < info["n"]), z3.And(lab.at(q) >= 0, lab.at(q) < info["K"])))))]
    ex = {"numpy.argmax": h_argext, "numpy.argmin": h_argext, "numpy.linalg.norm": h_norm}
    reg = {(CL, f"{HGM}._normalize_data"): "inline", (CL, f"{HGM}._compute_gaussian_probabilities"): h_probs}
    ctx.verify(("normalize" if normalize else "raw") + (":gmm" if gmm_ready else ":nearest-centre"), CL, f"{HGM}.predict", setup, post,
               registry=reg, extras=ex, replayer="c15_gmm")


# ------------------------------------------------------------------------------------------ posterior cluster probabilities
def gaussian_probabilities(ctx, normalize):
    """HierarchicalGaussianMixture._compute_gaussian_probabilities (the 'full' covariance structure, the only one the sampler
    configures): for a fitted model (K >= 1 clusters, K centres / covariances / weights) it returns an (n, K) array,
    or raises when scipy rejects even the fallback covariance — the contract `predict` is checked against."""
    info = {}

    def h_lse(I, st, args, kw, node):
        a = st.arr(args[0])
        if not (a.ndim == 2 and kw.get("axis") in (1, -1) and kw.get("keepdims")):
            raise Unsupported("logsumexp shape")
        L = z3.Function(fresh_name("lse"), z3.IntSort(), z3.RealSort())
        return st.new_arr(Arr((a.shape[0], 1), lambda r, c: L(to_z3(r, "int")), "real"))

    def h_outer(I, st, args, kw, node):
        a, b = st.arr(args[0]), st.arr(args[1])
        return st.new_arr(Arr((a.shape[0], b.shape[0]), lambda i, j: to_z3(a.at(i), "real") * to_z3(b.at(j), "real"), "real"))

    def setup(I, st):
        n, d, K = fresh_scalar("int", "n"), fresh_scalar("int", "d"), fresh_scalar("int", "K")
        st.assume(z3.And(n >= 1, d >= 1, K >= 1))
        CF = z3.Function(fresh_name("center"), z3.IntSort(), z3.IntSort(), z3.RealSort())
        CV = z3.Function(fresh_name("cov"), z3.IntSort(), z3.IntSort(), z3.IntSort(), z3.RealSort())
        WF = z3.Function(fresh_name("cw"), z3.IntSort(), z3.RealSort())
        centers = symlist.new_symlist(st, K, lambda k: Arr((d,), lambda j, k=k: CF(to_z3(k, "int"), to_z3(j, "int")), "real"), lens=lambda t: d, kind="array")
        st.cell(centers)["__uniform_shape__"] = (d,)
        covs = symlist.new_symlist(st, K, lambda k: Arr((d, d), lambda a, b, k=k: CV(to_z3(k, "int"), to_z3(a, "int"), to_z3(b, "int")), "real"),
                                   lens=lambda t: d, kind="array")
        st.cell(covs)["__uniform_shape__"] = (d, d)
        wts = symlist.new_symlist(st, K, lambda k: WF(to_z3(k, "int")), kind="scalar")
        kk = z3.Int(fresh_name("k"))
        st.assume(z3.ForAll([kk], z3.Implies(z3.And(kk >= 0, kk < K), WF(kk) >= 0), patterns=[WF(kk)]))
        obj = st.new_obj(HGM, __module__=CL, normalize=normalize, verbose=False, n_clusters_=K, cluster_centers_=centers,
                         cluster_covariances_=covs, cluster_weights_=wts, covariance_type="full",
                         _data_min=st.new_arr(fresh_arr((d,), "real", "dmin")) if normalize else None,
                         _data_max=st.new_arr(fresh_arr((d,), "real", "dmax")) if normalize else None)
        info.update(n=n, K=K)
        return dict(self_val=obj, args=[st.new_arr(fresh_arr((n, d), "real", "X"))])

    def inv(v):
        lp = v["log_probabilities"]
        return z3.And(to_z3(lp.shape[0], "int") == info["n"], to_z3(lp.shape[1], "int") == info["K"])

    def post(I, o, pre):
        R = o.state.arr(o.value)
        i, c = z3.Int(fresh_name("i")), z3.Int(fresh_name("c"))
        # only what `predict` relies on (one row per query point, one column per cluster); C15 makes no statement about the values
        return [("shape-n-by-K", z3.And(to_z3(R.shape[0], "int") == info["n"], to_z3(R.shape[1], "int") == info["K"]) if R.ndim == 2 else False)]
    ex = pdf_ext()
    ex.update({"numpy.eye": np_eye, "numpy.diag": np_diag, "numpy.outer": h_outer, "scipy.special.logsumexp": h_lse})
    ctx.verify("normalize" if normalize else "raw", CL, f"{HGM}._compute_gaussian_probabilities", setup, post,
               loops={0: LoopSpec(inv, label="clusters")}, registry={(CL, f"{HGM}._normalize_data"): "inline"}, extras=ex,
               allowed_raises=("ValueError", "Exception", "LinAlgError"), replayer="c15_gmm")


# ------------------------------------------------------------------------------------------ initial responsibilities: no 0/0
def initial_responsibilities(ctx):
    """The statements of _initialize_parameters between the k-means++ loop and the first M-step, executed with free centres:
    every row of the un-normalised responsibilities contains the value 1 (the nearest centre: exp(0)), so the row sum is >= 1
    and the row-wise normalisation can never be 0/0 — also in binary64, where exp(-d^2/2) underflows for far points."""
    from pyvc.state import State
    fdef = eff.qualname_index(ctx.mods).get((CL, f"{GM}._initialize_parameters"))
    ctx.fuc(CL, f"{GM}._initialize_parameters")
    if fdef is None:
        return
    body = fdef.body
    # slice: from the first statement that assigns `responsibilities` to the statement before the call of _m_step
    start = next((k for k, s_ in enumerate(body) if isinstance(s_, ast.Assign) and any(isinstance(t, ast.Name) and t.id == "responsibilities" for t in s_.targets)), None)
    end = next((k for k, s_ in enumerate(body) if isinstance(s_, ast.Assign) and isinstance(s_.value, ast.Call)
                and (eff.dotted(s_.value.func) or "").endswith("_m_step")), None)
    if start is None or end is None or end <= start:
        ctx.add(ObResult("C15/cluster.GaussianMixture._initialize_parameters/slice-found", "unknown",
                         detail="could not locate the responsibility initialisation statements")).replayer = "c15_gmm"
        return
    stmts = body[start:end]

    def rowmin(I, st, args, kw, node):
        a = st.arr(args[0])
        if not (a.ndim == 2 and kw.get("axis") in (1, -1)):
            raise Unsupported("np.min shape")
        M = z3.Function(fresh_name("rowmin"), z3.IntSort(), z3.RealSort())
        AM = z3.Function(fresh_name("argmin"), z3.IntSort(), z3.IntSort())
        i, j = z3.Int(fresh_name("i")), z3.Int(fresh_name("j"))
        nr, nc = to_z3(a.shape[0], "int"), to_z3(a.shape[1], "int")
        I.oblige(f"min-over-at-least-one-column@{node.lineno}", st, nc >= 1, node)
        st.assume(z3.ForAll([i], z3.Implies(z3.And(i >= 0, i < nr), z3.And(AM(i) >= 0, AM(i) < nc, to_z3(a.at(i, AM(i)), "real") == M(i))), patterns=[M(i)]))
        st.assume(z3.ForAll([i, j], z3.Implies(z3.And(i >= 0, i < nr, j >= 0, j < nc), M(i) <= to_z3(a.at(i, j), "real")), patterns=[a.at(i, j)]))
        st.ghost["rowmin"] = (M, AM)
        if kw.get("keepdims"):
            return st.new_arr(Arr((a.shape[0], 1), lambda r, c: M(to_z3(r, "int")), "real"))
        return st.new_arr(Arr((a.shape[0],), lambda r: M(to_z3(r, "int")), "real"))

    I = ctx.interp(extras={"numpy.min": rowmin})
    I.cur.append((CL, f"{GM}._initialize_parameters"))
    I.loopspecs[(CL, f"{GM}._initialize_parameters")] = {k: LoopSpec(lambda v: z3.And(
        to_z3(v["responsibilities"].shape[0], "int") == n, to_z3(v["responsibilities"].shape[1], "int") == K), label="columns") for k in range(6)}
    st = State()
    n, d, K = fresh_scalar("int", "n"), fresh_scalar("int", "d"), fresh_scalar("int", "K")
    st.assume(z3.And(n >= 1, d >= 1, K >= 1))
    X = fresh_arr((n, d), "real", "X")
    mu = fresh_arr((K, d), "real", "means")
    obj = st.new_obj(GM, __module__=CL, n_components=K)
    st.env = {"self": obj, "X": st.new_arr(X), "means": st.new_arr(mu), "n_samples": n, "n_features": d,
              "sample_weight": st.new_arr(fresh_arr((n,), "real", "w"))}
    try:
        outs = [o for o in I.exec_block(stmts, st, CL)]
    except __import__("pyvc.values", fromlist=["x"]).engine_errors() as e:
        ctx.add(ObResult("C15/cluster.GaussianMixture._initialize_parameters/initial-responsibilities/vc-generation", "unknown",
                         detail=f"outside the supported subset: {type(e).__name__}: {str(e)[:200]}")).replayer = "c15_gmm"
        return
    falls = [o for o in outs if o.kind == "fall"]
    if len(falls) != 1:
        ctx.add(ObResult("C15/cluster.GaussianMixture._initialize_parameters/initial-responsibilities/vc-generation", "unknown",
                         detail="statements fork or raise")).replayer = "c15_gmm"
        return
    stf = falls[0].state
    # the array that was exponentiated and row-summed for the normalisation
    cand = [(a, ax, P) for (a, ax, P) in stf.ghost.get("sumarrs2", []) if ax == 1 and a.prov and a.prov[0] == "exp"]
    res = []
    for ob in I.obligations:
        from pyvc import discharge
        discharge.discharge(ob, ctx.timeout_ms)
        res.append(ctx.add(ObResult(f"C15/cluster.GaussianMixture._initialize_parameters/initial-responsibilities/{ob.label.split('/', 1)[-1]}",
                                    ob.status, ob.backend or "z3", ob.time, 1, ob.note or "", line=ob.line)))
    if not cand:
        r = ctx.add(ObResult("C15/cluster.GaussianMixture._initialize_parameters/initial-responsibilities/normaliser-found", "unknown",
                             detail="no row sum of an exponentiated array found before the first M-step"))
        r.replayer = "c15_gmm"
        return
    E, ax, P = cand[-1]
    i = z3.Int(fresh_name("i"))
    pe, ce = sums.elem_le_rowsum_rule(stf, E)
    r1 = ctx.lemma("cluster.GaussianMixture._initialize_parameters/initial-responsibilities/exponentials-nonnegative", list(stf.pc), pe, kind="vc")
    k0 = z3.Int(fresh_name("k0"))
    goal = z3.Implies(z3.And(i >= 0, i < n), z3.Exists([k0], z3.And(k0 >= 0, k0 < K, to_z3(E.at(i, k0), "real") == 1)))
    r2 = ctx.lemma("cluster.GaussianMixture._initialize_parameters/initial-responsibilities/every-row-contains-exp(0)=1", list(stf.pc), goal, kind="vc",
                   detail="the nearest centre has exponent 0 after the row minimum is subtracted: the entry is exactly 1 (also in binary64), "
                          "so the row cannot underflow to all zeros")
    r3 = ctx.lemma("cluster.GaussianMixture._initialize_parameters/initial-responsibilities/row-sum-at-least-one", list(stf.pc) + [ce, goal, i >= 0, i < n],
                   P(i, K - 1) >= 1, kind="vc", detail="the normaliser of every row is >= 1: the row-wise division is never 0/0")
    for r in (r1, r2, r3):
        r.replayer = "c15_gmm"


# ------------------------------------------------------------------------------------------ O5: what fit() stores
def gm_fit_state(ctx):
    """GaussianMixture.fit against the contracts of its steps: the stored (weights_, means_, covariances_) are the three outputs of
    one and the same M-step call (so O1-O3 hold of the fitted model), n_iter_ >= 1, and best_params is never None at the end."""
    info = {}
    TOK = [0]

    def mstep_out(st, K, d, what):
        TOK[0] += 1
        tok = z3.IntVal(TOK[0]) if what != "havoc" else fresh_scalar("int", "mstep_token")
        mk = lambda shape, nm: st.new_arr(Arr(shape, fresh_arr(shape, "real", nm).fn, "real", prov=("mstep", tok)))
        return (mk((K,), "W"), mk((K, d), "M"), mk((K, d, d), "C")), tok

    def h_init(I, st, args, kw, node):
        X = st.arr(args[1])
        out, tok = mstep_out(st, info["K"], X.shape[1], "init")
        return out

    def h_mstep(I, st, args, kw, node):
        X = st.arr(args[1])
        R = st.arr(args[2])
        i, c = z3.Int(fresh_name("i")), z3.Int(fresh_name("c"))
        I.oblige(f"call:_m_step:responsibilities-nonnegative@{node.lineno}", st,
                 z3.And(to_z3(R.shape[0], "int") == to_z3(X.shape[0], "int"), to_z3(R.shape[1], "int") == info["K"],
                        z3.ForAll([i, c], z3.Implies(z3.And(i >= 0, i < to_z3(R.shape[0], "int"), c >= 0, c < info["K"]), R.at(i, c) >= 0))), node,
                 note="precondition of the M-step contract: the responsibilities handed over are those an E-step returned")
        out, tok = mstep_out(st, info["K"], X.shape[1], "em")
        return out

    def h_estep(I, st, args, kw, node):
        X = st.arr(args[1])
        W, M, C = [st.arr(a) for a in args[2:5]]
        toks = [a.prov[1] for a in (W, M, C) if a.prov and a.prov[0] == "mstep"]
        I.oblige(f"call:_e_step:parameters-of-one-M-step@{node.lineno}", st,
                 len(toks) == 3 and z3.And(toks[0] == toks[1], toks[1] == toks[2]), node)
        R = fresh_arr((X.shape[0], info["K"]), "real", "resp")
        i, c = z3.Int(fresh_name("i")), z3.Int(fresh_name("c"))
        # postcondition of _e_step (proved above for weights >= 0: the M-step / initialisation postcondition)
        st.assume(z3.ForAll([i, c], z3.Implies(z3.And(i >= 0, i < to_z3(X.shape[0], "int"), c >= 0, c < info["K"]),
                                               z3.And(R.at(i, c) >= 0, R.at(i, c) <= 1)), patterns=[R.at(i, c)]))
        return st.new_arr(R)

    def h_lb(I, st, args, kw, node):
        lb = fresh_scalar("real", "lower_bound")
        INF = st.ghost["__INF__"]
        st.assume(lb + INF >= to_z3(info["tol"], "real"))      # finite: (lb - (-inf)) < tol is false (A1)
        st.assume(lb > -INF)
        return lb

    def setup(I, st):
        n, d, K = fresh_scalar("int", "n"), fresh_scalar("int", "d"), fresh_scalar("int", "K")
        mi, ni = fresh_scalar("int", "max_iter"), fresh_scalar("int", "n_init")
        tol = fresh_scalar("real", "tol")
        st.assume(z3.And(n >= 1, d >= 1, K >= 1, mi >= 1, ni >= 1, tol > 0))
        INF = fresh_scalar("real", "INF")
        st.assume(INF > 0)
        st.ghost["__INF__"] = INF
        obj = st.new_obj(GM, __module__=CL, n_components=K, covariance_type="full", max_iter=mi, n_init=ni, tol=tol,
                         reg_covar=z3.RealVal("1/1000000"), random_state=None, weights_=None, means_=None, covariances_=None,
                         converged_=False, n_iter_=0, lower_bound_=None)
        w = fresh_arr((n,), "real", "sw")
        info.update(n=n, d=d, K=K, obj=obj, tol=tol, mi=mi)
        return dict(self_val=obj, args=[st.new_arr(fresh_arr((n, d), "real", "X")), st.new_arr(w)])

    def tokens(st, vals):
        ts = []
        for v in vals:
            a = st.arr(v) if isinstance(v, Ref) else None
            if a is None or not (a.prov and a.prov[0] == "mstep"):
                return None
            ts.append(a.prov[1])
        return ts

    def same_step(st, vals):
        ts = tokens(st, vals)
        if ts is None:
            return z3.BoolVal(False)
        return z3.And(ts[0] == ts[1], ts[1] == ts[2])

    def fresh_params(st):
        out, tok = mstep_out(st, info["K"], info["d"], "havoc")
        info["havoc_params"] = out
        return out

    def fresh_best(st):
        out, tok = mstep_out(st, info["K"], info["d"], "havoc")
        return Opt(fresh_scalar("bool", "best_present"), out + (fresh_scalar("int", "best_iter"),))

    def inv_outer(v):
        st = v.state
        bp = st.env.get("best_params")
        INF = st.ghost["__INF__"]
        blb = to_z3(st.env["best_lower_bound"], "real")
        if bp is None:
            return z3.And(v.k == 0, blb == -INF)
        if isinstance(bp, Opt):
            flag, val = bp.flag, bp.value
        else:
            flag, val = z3.BoolVal(True), bp
        return z3.And(z3.Implies(v.k >= 1, flag), z3.Implies(z3.Not(flag), blb == -INF),
                      z3.Implies(flag, z3.And(same_step(st, val[:3]), to_z3(val[3], "int") >= 1)))

    def inv_inner(v):
        st = v.state
        INF = st.ghost["__INF__"]
        lb = to_z3(st.env["lower_bound"], "real")
        return z3.And(same_step(st, [st.env[nm] for nm in ("weights", "means", "covariances")]),
                      z3.If(v.k == 0, lb == -INF, lb > -INF))

    def post(I, o, pre):
        st = o.state
        c = st.cell(info["obj"])
        return [("stored-parameters-are-the-outputs-of-one-M-step", same_step(st, [c["weights_"], c["means_"], c["covariances_"]])),
                ("at-least-one-EM-iteration-recorded", to_z3(c["n_iter_"], "int") >= 1)]

    def three(nm):
        idx = {"weights": 0, "means": 1, "covariances": 2}[nm]

        def f(st):
            if idx == 0 or "havoc_params" not in info or info.get("havoc_owner") is not st:
                info["havoc_params"], _ = mstep_out(st, info["K"], info["d"], "havoc")
                info["havoc_owner"] = st
            return info["havoc_params"][idx]
        return f

    reg = {(CL, f"{GM}._initialize_parameters"): h_init, (CL, f"{GM}._m_step"): h_mstep, (CL, f"{GM}._e_step"): h_estep,
           (CL, f"{GM}._compute_lower_bound"): h_lb}
    ex = {("const", "numpy.inf"): lambda I, st: st.ghost["__INF__"], "numpy.random.RandomState": lambda I, st, args, kw, node: Opaque("rng")}
    ctx.verify("", CL, f"{GM}.fit", setup, post, registry=reg, extras=ex, replayer="c15_gmm", allowed_raises=(),
               loops={0: LoopSpec(inv_outer, label="restarts", reads_env=True, fresh={"best_params": fresh_best, "covariances": three("covariances"),
                                                                      "means": three("means"), "weights": three("weights")}),
                      1: LoopSpec(inv_inner, label="em", reads_env=True, fresh={"covariances": three("covariances"), "means": three("means"),
                                                                "weights": three("weights")})})


def lemma_partition_step(ctx):
    """L-PART, machine-checked: if (OWN, POS) / E is a bijection between range(n) and the (cluster, position) pairs of C clusters, and
    the label-0 / label-1 positions of cluster p are enumerated by sa / sb (L-MASK selection facts: order isomorphisms onto the
    positions carrying each label), then after `clusters.pop(p); clusters.extend([E(p, sa(.)), E(p, sb(.))])` the explicitly
    constructed (OWN2, POS2) / E2 is again such a bijection, for C + 1 clusters.  Base case (one cluster arange(n)) is OWN = 0, POS = id."""
    I=z3.IntSort()
    n,C,p,m1,m2=z3.Ints("n C p m1 m2")
    LEN=z3.Function("LEN",I,I); E=z3.Function("E",I,I,I); OWN=z3.Function("OWN",I,I); POS=z3.Function("POS",I,I)
    lab=z3.Function("lab",I,I)   # label of position j of the parent (0/1)
    sa=z3.Function("sa",I,I); sb=z3.Function("sb",I,I); ia=z3.Function("ia",I,I); ib=z3.Function("ib",I,I)
    x,c,j,q=z3.Ints("x c j q")
    hyp=[C>=1, p>=0, p<C, n>=1,
     z3.ForAll([x], z3.Implies(z3.And(x>=0,x<n), z3.And(OWN(x)>=0,OWN(x)<C,POS(x)>=0,POS(x)<LEN(OWN(x)),E(OWN(x),POS(x))==x)), patterns=[OWN(x)]),
     z3.ForAll([c,j], z3.Implies(z3.And(c>=0,c<C,j>=0,j<LEN(c)), z3.And(E(c,j)>=0,E(c,j)<n,OWN(E(c,j))==c,POS(E(c,j))==j)), patterns=[E(c,j)]),
     # children: label-0 and label-1 positions of the parent (L-MASK selection facts)
     z3.ForAll([j], z3.Implies(z3.And(j>=0,j<LEN(p)), z3.Or(lab(j)==0,lab(j)==1)), patterns=[lab(j)]),
     m1>=0, m2>=0,
     z3.ForAll([q], z3.Implies(z3.And(q>=0,q<m1), z3.And(sa(q)>=0,sa(q)<LEN(p),lab(sa(q))==0,ia(sa(q))==q)), patterns=[sa(q)]),
     z3.ForAll([j], z3.Implies(z3.And(j>=0,j<LEN(p),lab(j)==0), z3.And(ia(j)>=0,ia(j)<m1,sa(ia(j))==j)), patterns=[ia(j)]),
     z3.ForAll([q], z3.Implies(z3.And(q>=0,q<m2), z3.And(sb(q)>=0,sb(q)<LEN(p),lab(sb(q))==1,ib(sb(q))==q)), patterns=[sb(q)]),
     z3.ForAll([j], z3.Implies(z3.And(j>=0,j<LEN(p),lab(j)==1), z3.And(ib(j)>=0,ib(j)<m2,sb(ib(j))==j)), patterns=[ib(j)]),
    ]
    # new structure after pop(p); extend([a,b])
    C2=C+1
    def LEN2(cc): return z3.If(cc<p, LEN(cc), z3.If(cc<C-1, LEN(cc+1), z3.If(cc==C-1, m1, m2)))
    def E2(cc,jj): return z3.If(cc<p, E(cc,jj), z3.If(cc<C-1, E(cc+1,jj), z3.If(cc==C-1, E(p,sa(jj)), E(p,sb(jj)))))
    def OWN2(xx): return z3.If(OWN(xx)<p, OWN(xx), z3.If(OWN(xx)>p, OWN(xx)-1, z3.If(lab(POS(xx))==0, C-1, C)))
    def POS2(xx): return z3.If(OWN(xx)==p, z3.If(lab(POS(xx))==0, ia(POS(xx)), ib(POS(xx))), POS(xx))
    g1=z3.Implies(z3.And(x>=0,x<n), z3.And(OWN2(x)>=0,OWN2(x)<C2,POS2(x)>=0,POS2(x)<LEN2(OWN2(x)),E2(OWN2(x),POS2(x))==x))
    g2=z3.Implies(z3.And(c>=0,c<C2,j>=0,j<LEN2(c)), z3.And(E2(c,j)>=0,E2(c,j)<n,OWN2(E2(c,j))==c,POS2(E2(c,j))==j))
    ok = ctx.expect_sat("lemma:L-PART/premises-satisfiable", hyp, "partition + child enumerations")
    for nm, g in (("every-sample-has-its-(cluster,position)", g1), ("every-entry-is-owned-by-its-slot", g2)):
        ctx.lemma(f"lemma:L-PART/{nm}", hyp, g, detail="partition step for pop(p) + extend([label-0 part, label-1 part])")
    # base case: clusters = [arange(n)]
    LEN0 = lambda cc: n
    E0 = lambda cc, jj: jj
    b1 = z3.Implies(z3.And(x >= 0, x < n), z3.And(0 >= 0, 0 < 1, x >= 0, x < LEN0(0), E0(0, x) == x))
    b2 = z3.Implies(z3.And(c >= 0, c < 1, j >= 0, j < LEN0(c)), z3.And(E0(c, j) >= 0, E0(c, j) < n, c == 0, E0(c, j) == j))
    ctx.lemma("lemma:L-PART/base-case-one-cluster", [n >= 1], z3.And(b1, b2), detail="clusters = [arange(n)]: OWN = 0, POS = identity, E(0, j) = j")


def run(ctx):
    from . import lean as _lean
    _lean.require(ctx, "Sums.lean", ["prefix_unique", "sum_cong_rule", "sum_prefix_nonneg", "dot_bound", "dot_nonneg", "elem_le_sum", "gram_psd"])
    lemma_partition_step(ctx)
    m_step(ctx, "full")
    m_step(ctx, "diag")
    e_step(ctx, "full")
    e_step(ctx, "diag")
    ctx.parallel([lambda c: hier_fit(c, True, True), lambda c: hier_fit(c, False, False), lambda c: hier_fit(c, True, False),
                  lambda c: hier_fit(c, False, True)])
    initial_responsibilities(ctx)
    gm_fit_state(ctx)
    for ct in ("full", "diag"):
        gm_predict_range(ctx, ct)
    for nz in (True, False):
        for ready in (True, False):
            hier_predict_range(ctx, nz, ready)
        gaussian_probabilities(ctx, nz)
    ctx.trust("scipy multivariate_normal.pdf >= 0 / logpdf finite, or raises for a singular covariance (both outcomes explored)",
              "np.argmax/argmin(axis=1): an index in [0, ncols) per row", "np.linalg.norm(axis=2): (n, K) array",
              "L-SUM rules: each statement is machine-checked in Lean/Mathlib over Finset sums (lemmas/Sums.lean; prefix_unique identifies the prefix function with the finite sum); what stays trusted is the transcription of those statements into the z3 axioms/rules of pyvc/theories/sums.py; three-index prefix sums are the definition of np.dot",
              "L-MASK: the label-0 and label-1 positions of one prediction partition the positions",
              "L-PART (machine-checked by z3 as lemma:L-PART/*) is *applied* at the end of the split loop: its premises are obligations at "
              "clusters.pop / clusters.extend, the induction over loop iterations that chains the step lemma is by the loop invariant",
              "_e_step is under contract (entries in [0, 1]); the stronger 'row sums <= 1' is not proved (not needed by the M-step contract)",
              "_compute_gaussian_probabilities is under contract ((n, n_clusters_) array or raises) for the 'full' structure",
              "A1 for the M-step algebra; the initial-responsibility obligation is about exact values (exp(0) = 1) and holds in binary64 too")
    ctx.undecided_clauses += [
        "positive semi-definiteness of the full covariances is proved as: symmetric, non-negative diagonal, and entry = sum_i r_i diff_ia diff_ib / (S+1e-10) "
        "(a Gram form, z3) + 'Gram form with r_i >= 0, S > 0 => v^T C v >= 0' (Lean: Sums.lean gram_psd); the reg_covar * I ridge added afterwards keeps it PSD",
        "integer sample weights == replicated points: not a contract on one call; checked only by the native replayer (bounded: 2-3 "
        "dimensional two-blob data, weights in {1,2,3}, same random_state)",
        "cluster_weights_ >= 0 summing to one needs a sum-over-a-partition lemma; checked only by the native replayer (bounded)"]
    ctx.bounded.append({"clause": "replication equivalence and cluster_weights_ normalisation", "bound": "native replayer c15_gmm directed search "
                        "(900+ fits; run when an obligation fails or is undecided)", "cases": 900})
