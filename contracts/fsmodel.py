"""File-system / pickling externals as effect-recording contracts (T-EFF, assumption A6)."""
import z3

from pyvc.values import Ref, Arr, Opaque, BoundMethod, Unsupported, PyRaise, to_z3, fresh_scalar, fresh_name
from pyvc.state import Outcome


def fs(st):
    return st.ghost.get("fs", [])


def emit(st, *ev):
    st.ghost["fs"] = fs(st) + [tuple(ev)]


def ext_fs(dumps_may_fail=True):
    ex = {}
    counter = [0]

    def new_path(kind, **kw):
        counter[0] += 1
        return Opaque("path", pid=f"{kind}{counter[0]}", **kw)

    def h_Path(I, st, args, kw, node):
        a = args[0]
        if isinstance(a, Opaque) and a.tag == "path":
            return a
        return new_path("p", src=a)
    ex["pathlib.Path"] = h_Path

    def p_parent(I, st, obj):
        return Opaque("path", pid=obj.info["pid"] + "/..", parent_of=obj)
    ex[("opaque", "path", "parent")] = p_parent
    ex[("opaque", "path", "name")] = lambda I, st, obj: "<name>"

    def p_mkdir(I, st, args, kw, node):
        emit(st, "mkdir", args[0].info["pid"])
        return None
    ex[("method", "opaque:path", "mkdir")] = p_mkdir

    def p_with_name(I, st, args, kw, node):
        return Opaque("path", pid=args[0].info["pid"] + "+temp", sibling_of=args[0])
    ex[("method", "opaque:path", "with_name")] = p_with_name
    ex[("method", "opaque:path", "with_suffix")] = p_with_name

    def b_open(I, st, args, kw, node):
        p, mode = args[0], (args[1] if len(args) > 1 else kw.get("mode", "r"))
        if not (isinstance(p, Opaque) and p.tag == "path"):
            p = new_path("raw", src=p)
        emit(st, "open", p.info["pid"], mode)
        return Opaque("file", path=p, mode=mode)
    ex["builtins.open"] = b_open

    def f_flush(I, st, args, kw, node):
        emit(st, "flush", args[0].info["path"].info["pid"])
    ex[("method", "opaque:file", "flush")] = f_flush

    def f_fileno(I, st, args, kw, node):
        return Opaque("fd", file=args[0])
    ex[("method", "opaque:file", "fileno")] = f_fileno

    def os_fsync(I, st, args, kw, node):
        emit(st, "fsync", args[0].info["file"].info["path"].info["pid"])
    ex["os.fsync"] = os_fsync

    def os_replace(I, st, args, kw, node):
        emit(st, "replace", args[0].info["pid"], args[1].info["pid"])
    ex["os.replace"] = os_replace
    ex["os.rename"] = os_replace

    def dill_dump(I, st, args, kw, node):
        obj = args[0] if args else kw.get("obj")
        f = args[1] if len(args) > 1 else kw.get("file")
        snap = dict(st.cell(obj)["__dict__"]) if isinstance(obj, Ref) and obj.kind == "dict" else obj
        emit(st, "write", f.info["path"].info["pid"], snap)
    ex["dill.dump"] = dill_dump

    def dill_dumps(I, st, args, kw, node):
        """dill.dumps(obj): bytes, or raises when obj holds something unpicklable; records what was reachable."""
        obj = args[0]
        cfg = st.cell(obj).get("config") if isinstance(obj, Ref) else None
        pool = st.cell(cfg).get("pool") if cfg is not None else None
        st.ghost["dumps_pool"] = st.ghost.get("dumps_pool", []) + [pool]
        if dumps_may_fail:
            from pyvc.interp import _Outcomes
            bad = st.clone()
            bad.ghost["dumps_failed"] = True
            return _Outcomes([Outcome("return", st, Opaque("bytes")), Outcome("raise", bad, ("PicklingError", "dill.dumps failed", node.lineno))])
        return Opaque("bytes")
    ex["dill.dumps"] = dill_dumps

    def get_state(I, st, args, kw, node):
        return Opaque("rngstate", at=len(st.ghost.get("rng", [])))
    ex["numpy.random.get_state"] = get_state

    def set_state(I, st, args, kw, node):
        st.ghost["rng"] = st.ghost.get("rng", []) + [("restore", args[0])]
    ex["numpy.random.set_state"] = set_state

    def obj_setattr(I, st, args, kw, node):
        _, target, name, value = args
        st.cell(target)[name] = value
        st.ghost["frozen_bypass"] = st.ghost.get("frozen_bypass", []) + [(name, value)]
    ex[("method", "opaque:builtin", "__setattr__")] = obj_setattr
    return ex
