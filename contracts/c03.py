"""C03 — mutation kernels leave the tempered target invariant (detailed balance) (DESIGN §2/C03).

Linear algebra is abstract (T-EUF): rows and matrices are z3 lambda terms, `@` and einsum('ij,ijk,ik->i') are the
uninterpreted vecmat / matvec / dot, so delta_k(v) = dot(vecmat(v - mu_k, Sigma_k^-1), v - mu_k) is one symbol in the
proposal, in the acceptance factor and in the specification.  Random draws are ghost inputs.

O1  TPCNRunner._propose: proposal = mu_a + sqrt(1 - sigma_a^2)(u_k - mu_a) + (sigma_a sqrt(1/g) L_a) z, one and the same
    a = assignments[k] in all six look-ups; folded by apply_boundary_conditions(., self.periodic, self.reflective).
O2  the gamma draw has shape (d + nu_a)/2 and scale 2/(nu_a + delta_a(u_k)).
O3  sigma stays in [0, min(sigma_0, 0.99)] (tpCN): 1 - sigma^2 > 0.
O4  TPCNRunner._compute_acceptance_factor: row i = logt_a(u_i) - logt_a(u'_i), logt_a(v) = -(d + nu_a)/2 log(1 + delta_a(v)/nu_a).
O5  RWMRunner: proposal - u_k = (sigma_a L_a) z (does not depend on u_k), acceptance factor identically 0.
O6  accept/reject: alpha_i = min(1, exp(beta (l'_i - l_i) + factor_i)), 0 for proposals outside the cube, accept iff r_i < alpha_i.
O7  hard boundaries: no redraw loop in _propose; out-of-cube proposals are rejected (alpha = 0, state kept).
O8  wiring: parallel_mcmc hands (periodic, reflective, beta, mode statistics, assignments) to the runner un-swapped.
L1  (z3 NRA) the exponent of t_nu(u) IG(s; (nu+d)/2, (nu+delta(u))/2) N(u'; mu + a(u-mu), sigma^2 s Sigma) is symmetric in
    (u, u') when a^2 = 1 - sigma^2, and the normalisers cancel: the unfolded tpCN move is t_nu-reversible, so O4+O6 is
    the Metropolis-Hastings ratio for the tempered target.
F   tpCN with periodic / reflective coordinates: the preconditioning density is not invariant under the fold -> known finding.
"""
import ast
import z3

from pyvc.interp import LoopSpec
from pyvc.values import Ref, Arr, Opaque, Unsupported, PyRaise, to_z3, fresh_scalar, fresh_arr, fresh_name, is_conc
from pyvc import npmodel, eff
from pyvc.framework import ObResult
from pyvc.state import State
from pyvc.theories import real
from .common import *  # noqa

MCMC = "tempest.mcmc"
ROW = z3.ArraySort(z3.IntSort(), z3.RealSort())
MAT = z3.ArraySort(z3.IntSort(), ROW)
VECMAT = z3.Function("vecmat", ROW, MAT, ROW)
MATVEC = z3.Function("matvec", MAT, ROW, ROW)
DOT = z3.Function("dot", ROW, ROW, z3.RealSort())


def row(a, *lead):
    j = z3.Int("j!row")
    return z3.Lambda([j], to_z3(a.at(*lead, j), "real"))


def mat(a, *lead):
    i, j = z3.Int("i!mat"), z3.Int("j!mat")
    return z3.Lambda([i], z3.Lambda([j], to_z3(a.at(*lead, i, j), "real")))


def h_matmul(I, st, args, kw, node):
    A, B = npmodel.arr_of(st, args[0]), npmodel.arr_of(st, args[1])
    if A is None or B is None:
        raise Unsupported("matmul with a scalar")
    if A.ndim == 1 and B.ndim == 2:
        t = VECMAT(row(A), mat(B))
        return st.new_arr(Arr((B.shape[1],), lambda j: z3.Select(t, to_z3(j, "int")), "real", prov=("vecmat", A, B)))
    if A.ndim == 2 and B.ndim == 1:
        t = MATVEC(mat(A), row(B))
        return st.new_arr(Arr((A.shape[0],), lambda j: z3.Select(t, to_z3(j, "int")), "real", prov=("matvec", A, B)))
    if A.ndim == 1 and B.ndim == 1:
        return DOT(row(A), row(B))
    raise Unsupported("matmul of two matrices")


def h_einsum(I, st, args, kw, node):
    sig = args[0]
    if sig != "ij,ijk,ik->i":
        raise Unsupported(f"einsum signature {sig!r}")
    X, M, Y = st.arr(args[1]), st.arr(args[2]), st.arr(args[3])
    return st.new_arr(Arr((X.shape[0],), lambda i: DOT(VECMAT(row(X, i), mat(M, i)), row(Y, i)), "real"))


def delta(u_row_arr_fn, means, inv, a):
    """delta_a(v) for the row function v(j)."""
    j = z3.Int("j!row")
    d = z3.Lambda([j], u_row_arr_fn(j) - to_z3(means.at(a, j), "real"))
    return DOT(VECMAT(d, mat(inv, a)), d)


def make_runner(st, cls, with_bounds=False):
    n, d, K = fresh_scalar("int", "n_walkers"), fresh_scalar("int", "n_dim"), fresh_scalar("int", "K")
    st.assume(z3.And(n >= 1, d >= 1, K >= 1))
    u = fresh_arr((n, d), "real", "u")
    means = fresh_arr((K, d), "real", "means")
    chol = fresh_arr((K, d, d), "real", "chol")
    inv = fresh_arr((K, d, d), "real", "inv")
    nu = fresh_arr((K,), "real", "nu")
    sig = fresh_arr((K,), "real", "sigmas")
    asg = fresh_arr((n,), "int", "assignments")
    q = z3.Int(fresh_name("q"))
    st.assume(z3.ForAll([q], z3.Implies(z3.And(q >= 0, q < n), z3.And(asg.at(q) >= 0, asg.at(q) < K)), patterns=[asg.at(q)]))   # C14
    st.assume(z3.ForAll([q], z3.Implies(z3.And(q >= 0, q < K), z3.And(nu.at(q) > 0, sig.at(q) >= 0, sig.at(q) < 1)), patterns=[nu.at(q)]))
    st.assume(z3.ForAll([q], z3.Implies(z3.And(q >= 0, q < K), z3.And(sig.at(q) >= 0, sig.at(q) < 1)), patterns=[sig.at(q)]))
    P, R = (Opaque("periodic"), Opaque("reflective"))
    obj = st.new_obj(cls, __module__=MCMC, u=st.new_arr(u), means=st.new_arr(means), chol_covs=st.new_arr(chol),
                     inv_covs=st.new_arr(inv), degrees_of_freedom=st.new_arr(nu), sigmas=st.new_arr(sig),
                     assignments=st.new_arr(asg), n_dim=d, n_walkers=n, n_clusters=K, periodic=P, reflective=R)
    return obj, dict(n=n, d=d, K=K, u=u, means=means, chol=chol, inv=inv, nu=nu, sig=sig, asg=asg, P=P, R=R)


def draws_ext(info):
    def gamma(I, st, args, kw, node):
        shape = kw.get("shape", args[0] if args else None)
        scale = kw.get("scale", args[1] if len(args) > 1 else 1.0)
        g = fresh_scalar("real", "g")
        st.assume(g > 0)
        st.ghost["gamma"] = st.ghost.get("gamma", []) + [(shape, scale, g)]
        return g

    def randn(I, st, args, kw, node):
        z = fresh_arr((args[0],), "real", "z")
        st.ghost["randn"] = st.ghost.get("randn", []) + [z]
        return st.new_arr(z)

    def fold(I, st, args, kw, node):
        st.ghost["fold"] = st.ghost.get("fold", []) + [(args[0], args[1] if len(args) > 1 else kw.get("periodic"),
                                                        args[2] if len(args) > 2 else kw.get("reflective"))]
        a = st.arr(args[0])
        return st.new_arr(Arr(a.shape, a.fn, a.sort, prov=("copy", a)))
    return {"numpy.random.gamma": gamma, "numpy.random.randn": randn, "numpy.matmul": h_matmul, "numpy.einsum": h_einsum}, \
        {(MCMC, "apply_boundary_conditions"): fold}


# ------------------------------------------------------------------------------------------ O1, O2
def tpcn_propose(ctx):
    info = {}

    def setup(I, st):
        obj, v = make_runner(st, "TPCNRunner")
        k = fresh_scalar("int", "k")
        st.assume(z3.And(k >= 0, k < v["n"]))
        info.update(v, k=k, obj=obj)
        return dict(self_val=obj, args=[k])

    def post(I, o, pre):
        st = o.state
        v = info
        k, d = v["k"], v["d"]
        a = v["asg"].at(k)
        out = st.arr(o.value)
        g = []
        gam = st.ghost.get("gamma", [])
        zs = st.ghost.get("randn", [])
        folds = st.ghost.get("fold", [])
        g.append(("draws:one-gamma-one-normal-vector", len(gam) == 1 and len(zs) == 1))
        if len(gam) != 1 or len(zs) != 1:
            return g
        shape, scale, gv = gam[0]
        z = zs[0]
        dl = delta(lambda j: to_z3(v["u"].at(k, j), "real"), v["means"], v["inv"], a)
        g.append(("gamma-shape-is-(d+nu_a)/2", to_z3(shape, "real") == (z3.ToReal(d) + v["nu"].at(a)) / 2))
        g.append(("gamma-scale-is-2/(nu_a+delta_a(u_k))", to_z3(scale, "real") == 2 / (v["nu"].at(a) + dl)))
        g.append(("normal-vector-has-d-components", to_z3(z.shape[0], "int") == d))
        s = 1 / gv
        sg = v["sig"].at(a)
        i2, j2 = z3.Int("i!mat"), z3.Int("j!mat")
        S = z3.Lambda([i2], z3.Lambda([j2], sg * real.sqrt(s) * to_z3(v["chol"].at(a, i2, j2), "real")))
        noise = MATVEC(S, row(z))
        j = z3.Int(fresh_name("j"))
        pre_fold = st.arr(folds[0][0]) if folds else out
        g.append(("proposal:mean+contraction+scaled-noise",
                  z3.ForAll([j], z3.Implies(z3.And(j >= 0, j < d),
                                            pre_fold.at(j) == v["means"].at(a, j) + real.sqrt(1 - sg * sg) * (v["u"].at(k, j) - v["means"].at(a, j))
                                            + z3.Select(noise, j)))))
        g.append(("proposal:folded-with-the-runner's-boundary-sets", len(folds) == 1 and folds[0][1] is v["P"] and folds[0][2] is v["R"]
                  and out.prov is not None and out.prov[0] == "copy"))
        return g

    ex, reg = draws_ext(info)
    ctx.verify("", MCMC, "TPCNRunner._propose", setup, post, registry=reg, extras=ex, replayer="c03_balance")


# ------------------------------------------------------------------------------------------ O4
def tpcn_factor(ctx):
    info = {}

    def setup(I, st):
        obj, v = make_runner(st, "TPCNRunner")
        up = fresh_arr((v["n"], v["d"]), "real", "u_prime")
        lp = fresh_arr((v["n"],), "real", "logl_prime")
        info.update(v, up=up)
        return dict(self_val=obj, args=[st.new_arr(up), st.new_arr(lp)])

    def logt(v, X, i):
        a = v["asg"].at(i)
        dl = delta(lambda j: to_z3(X.at(i, j), "real"), v["means"], v["inv"], a)
        return -(z3.ToReal(v["d"]) + v["nu"].at(a)) / 2 * real.log(1 + dl / v["nu"].at(a))

    def post(I, o, pre):
        v = info
        out = o.state.arr(o.value)
        i = z3.Int(fresh_name("i"))
        return [("one-factor-per-walker", to_z3(out.shape[0], "int") == v["n"]),
                ("factor-is-logt(u)-minus-logt(u')", z3.ForAll([i], z3.Implies(z3.And(i >= 0, i < v["n"]),
                                                                                out.at(i) == logt(v, v["u"], i) - logt(v, v["up"], i))))]

    ex, reg = draws_ext(info)
    ctx.verify("", MCMC, "TPCNRunner._compute_acceptance_factor", setup, post, registry=reg, extras=ex, replayer="c03_balance")


# ------------------------------------------------------------------------------------------ O5
def rwm(ctx):
    info = {}

    def setup(I, st):
        obj, v = make_runner(st, "RWMRunner")
        k = fresh_scalar("int", "k")
        st.assume(z3.And(k >= 0, k < v["n"]))
        info.update(v, k=k)
        return dict(self_val=obj, args=[k])

    def post(I, o, pre):
        st = o.state
        v = info
        k, d = v["k"], v["d"]
        a = v["asg"].at(k)
        out = st.arr(o.value)
        zs = st.ghost.get("randn", [])
        folds = st.ghost.get("fold", [])
        g = [("draws:one-normal-vector-no-gamma", len(zs) == 1 and not st.ghost.get("gamma"))]
        if len(zs) != 1:
            return g
        sg = v["sig"].at(a)
        i2, j2 = z3.Int("i!mat"), z3.Int("j!mat")
        S = z3.Lambda([i2], z3.Lambda([j2], sg * to_z3(v["chol"].at(a, i2, j2), "real")))
        j = z3.Int(fresh_name("j"))
        pre_fold = st.arr(folds[0][0]) if folds else out
        g.append(("increment-is-(sigma_a L_a) z:independent-of-the-current-point",
                  z3.ForAll([j], z3.Implies(z3.And(j >= 0, j < d), pre_fold.at(j) - v["u"].at(k, j) == z3.Select(MATVEC(S, row(zs[0])), j)))))
        g.append(("proposal:folded-with-the-runner's-boundary-sets", len(folds) == 1 and folds[0][1] is v["P"] and folds[0][2] is v["R"]
                  and out.prov is not None and out.prov[0] == "copy"))
        return g

    ex, reg = draws_ext(info)
    ctx.verify("", MCMC, "RWMRunner._propose", setup, post, registry=reg, extras=ex, replayer="c03_balance")

    info2 = {}

    def setup2(I, st):
        obj, v = make_runner(st, "RWMRunner")
        info2.update(v)
        return dict(self_val=obj, args=[st.new_arr(fresh_arr((v["n"], v["d"]), "real", "u_prime")), st.new_arr(fresh_arr((v["n"],), "real", "lp"))])

    def post2(I, o, pre):
        out = o.state.arr(o.value)
        i = z3.Int(fresh_name("i"))
        return [("factor-identically-zero", z3.And(to_z3(out.shape[0], "int") == info2["n"],
                                                   z3.ForAll([i], z3.Implies(z3.And(i >= 0, i < info2["n"]), out.at(i) == 0))))]
    ctx.verify("", MCMC, "RWMRunner._compute_acceptance_factor", setup2, post2, extras=ex, replayer="c03_balance")


# ------------------------------------------------------------------------------------------ O3
def sigma_range(ctx):
    info = {}

    def init_setup(cls):
        def setup(I, st):
            K = fresh_scalar("int", "K")
            st.assume(K >= 1)
            s0 = fresh_scalar("real", "sigma_0")
            st.assume(s0 > 0)
            obj = st.new_obj(cls, __module__=MCMC, n_clusters=K, sigma_0=s0)
            info.update(K=K, s0=s0)
            return dict(self_val=obj, args=[])
        return setup

    def post_init(I, o, pre):
        out = o.state.arr(o.value)
        q = z3.Int(fresh_name("q"))
        s0 = info["s0"]
        cap = z3.If(s0 <= z3.RealVal("0.99"), s0, z3.RealVal("0.99"))
        return [("initial-step-sizes-in-(0,1)", z3.And(to_z3(out.shape[0], "int") == info["K"],
                                                        z3.ForAll([q], z3.Implies(z3.And(q >= 0, q < info["K"]), z3.And(out.at(q) > 0, out.at(q) <= cap, out.at(q) < 1)))))]
    ctx.verify("", MCMC, "TPCNRunner._initialize_sigmas", init_setup("TPCNRunner"), post_init, replayer="c03_balance")

    def setup_ad(I, st):
        K = fresh_scalar("int", "K")
        c = fresh_scalar("int", "c")
        st.assume(z3.And(K >= 1, c >= 0, c < K))
        s0 = fresh_scalar("real", "sigma_0")
        it = fresh_scalar("int", "iteration")
        st.assume(z3.And(s0 > 0, it >= 0))
        sig = fresh_arr((K,), "real", "sigmas")
        q = z3.Int(fresh_name("q"))
        st.assume(z3.ForAll([q], z3.Implies(z3.And(q >= 0, q < K), z3.And(sig.at(q) >= 0, sig.at(q) < 1)), patterns=[sig.at(q)]))
        sr = st.new_arr(sig)
        obj = st.new_obj("TPCNRunner", __module__=MCMC, n_clusters=K, sigma_0=s0, sigmas=sr, iteration=it)
        acc = fresh_scalar("real", "mean_accept")
        info.update(K=K, sr=sr)
        return dict(self_val=obj, args=[c, acc])

    def post_ad(I, o, pre):
        sig = o.state.arr(info["sr"])
        q = z3.Int(fresh_name("q"))
        return [("adapted-step-sizes-stay-in-[0,1)", z3.ForAll([q], z3.Implies(z3.And(q >= 0, q < info["K"]), z3.And(sig.at(q) >= 0, sig.at(q) < 1))))]
    ctx.verify("", MCMC, "TPCNRunner._adapt_sigma", setup_ad, post_ad, replayer="c03_balance")


# ------------------------------------------------------------------------------------------ O7 (syntactic) and O8 (wiring)
def structure(ctx):
    idx = eff.qualname_index(ctx.mods)
    for cls in ("TPCNRunner", "RWMRunner"):
        f = idx.get((MCMC, f"{cls}._propose"))
        loops = [n.lineno for n in (ast.walk(f) if f else []) if isinstance(n, (ast.While, ast.For))]
        r = ctx.add(ObResult(f"C03/mcmc.{cls}._propose/no-redraw-loop", "violated" if loops or f is None else "discharged", "pyvc-eff", 0.0, 1,
                             f"loop at lines {loops}: redrawing until the proposal is inside the cube renormalises the proposal density by "
                             "Z(u) and breaks detailed balance" if loops else "", kind="effect"))
        r.replayer = "c03_balance"


def wiring(ctx):
    """parallel_mcmc -> parallel_* -> Runner(...) -> BaseMCMCRunner.__init__: every argument lands in its own attribute."""
    for sample, cls in (("rwm", "RWMRunner"), ("tpcn", "TPCNRunner")):
        info = {}

        def h_run(I, st, args, kw, node, info=info):
            info["runner"] = args[0]
            return Opaque("result")

        def prop_K(I, st, obj):
            return obj.info["K"]

        def setup(I, st, sample=sample, info=info):
            n, d = fresh_scalar("int", "n"), fresh_scalar("int", "d")
            st.assume(z3.And(n >= 1, d >= 1))
            a = {k: st.new_arr(fresh_arr((n, d) if k in ("u", "x") else (n,), "int" if k == "assignments" else "real", k))
                 for k in ("u", "x", "logl", "assignments")}
            K = fresh_scalar("int", "K")
            ms = st.new_obj("ModeStatistics", __module__="abstract", K=K, means=Opaque("means"), degrees_of_freedom=Opaque("dof"),
                            inv_covariances=Opaque("inv"), chol_covariances=Opaque("chol"))
            vals = dict(a, blobs=None, beta=fresh_scalar("real", "beta"), mode_stats=ms, log_likelihood=Opaque("callable", name="L"),
                        prior_transform=Opaque("callable", name="T"), progress_bar=None, n_steps=fresh_scalar("int", "n_steps"),
                        n_max=fresh_scalar("int", "n_max"), sample=sample, periodic=Opaque("PERIODIC"), reflective=Opaque("REFLECTIVE"),
                        verbose=True)
            info.update(vals=vals, st_arrs={k: st.arr(v) for k, v in a.items()})
            return dict(kwargs=vals)

        def post(I, o, pre, info=info, cls=cls):
            st = o.state
            r = info.get("runner")
            if r is None:
                return [("runner-constructed-and-run", False)]
            c = st.cell(r)
            v = info["vals"]
            g = [("runner-constructed-and-run", st.cls(r) == cls)]
            for k in ("periodic", "reflective", "log_likelihood", "prior_transform", "mode_stats"):
                g.append((f"argument-reaches-its-attribute:{k}", c.get(k) is v[k]))
            for k in ("beta", "n_steps", "n_max"):
                g.append((f"argument-reaches-its-attribute:{k}", c.get(k) is v[k] or (c.get(k) is not None and to_z3(c.get(k)) .eq(to_z3(v[k])))))
            e1, e2 = z3.Int(fresh_name("e")), z3.Int(fresh_name("e"))
            for k in ("u", "x", "logl", "assignments"):
                A, B = st.arr(c[k]), info["st_arrs"][k]
                same = z3.ForAll([e1, e2], A.at(e1, e2) == B.at(e1, e2)) if A.ndim == 2 else z3.ForAll([e1], A.at(e1) == B.at(e1))
                g.append((f"array-reaches-its-attribute-as-a-copy:{k}", same if A.ndim == B.ndim else False))
            return g

        reg = {(MCMC, "parallel_random_walk_metropolis"): "inline", (MCMC, "parallel_t_preconditioned_crank_nicolson"): "inline",
               (MCMC, "RWMRunner.__new__"): npmodel.instantiate(MCMC, "RWMRunner"), (MCMC, "TPCNRunner.__new__"): npmodel.instantiate(MCMC, "TPCNRunner"),
               (MCMC, "RWMRunner.run"): h_run, (MCMC, "TPCNRunner.run"): h_run, (MCMC, "BaseMCMCRunner.run"): h_run,
               (MCMC, "RWMRunner._initialize_sigmas"): lambda I, st, args, kw, node: Opaque("sigmas"),
               (MCMC, "TPCNRunner._initialize_sigmas"): lambda I, st, args, kw, node: Opaque("sigmas")}
        ctx.verify(sample, MCMC, "parallel_mcmc", setup, post, registry=reg, extras={"numpy.sqrt": lambda I, st, args, kw, node: fresh_scalar("real", "sqrt")},
                   replayer="c03_balance")


# ------------------------------------------------------------------------------------------ mode statistics: one scale matrix
def mode_statistics_consistent(ctx):
    """ModeStatistics.__init__: the inverse used by the Student-t factor / gamma scale and the Cholesky factor used for the proposal
    noise are computed from one and the same stored scale matrices (otherwise the proposal is not reversible w.r.t. t_nu(mu, Sigma))."""
    info = {}

    def rec(kind):
        def h(I, st, args, kw, node):
            a = st.arr(args[0])
            st.ghost[kind] = st.ghost.get(kind, []) + [a]
            return st.new_arr(fresh_arr(a.shape, "real", kind))
        return h

    def setup(I, st):
        K, d = fresh_scalar("int", "K"), fresh_scalar("int", "d")
        st.assume(z3.And(K >= 1, d >= 1))
        cov = fresh_arr((K, d, d), "real", "Sigma")
        obj = st.new_obj("ModeStatistics", __module__="tempest.modes")
        info.update(K=K, d=d, cov=cov, obj=obj)
        return dict(self_val=obj, kwargs=dict(means=st.new_arr(fresh_arr((K, d), "real", "mu")), covariances=st.new_arr(cov),
                                              degrees_of_freedom=st.new_arr(fresh_arr((K,), "real", "nu"))))

    def post(I, o, pre):
        st = o.state
        invs, chols = st.ghost.get("inv", []), st.ghost.get("chol", [])
        g = [("one-inverse-one-cholesky", len(invs) == 1 and len(chols) == 1)]
        if len(invs) == 1 and len(chols) == 1:
            k, a, b = z3.Int(fresh_name("k")), z3.Int(fresh_name("a")), z3.Int(fresh_name("b"))
            K, d, S = info["K"], info["d"], info["cov"]
            rng = z3.And(k >= 0, k < K, a >= 0, a < d, b >= 0, b < d)
            for nm, X in (("inverse", invs[0]), ("cholesky-factor", chols[0])):
                ok = X.ndim == 3
                g.append((f"{nm}-is-taken-of-the-given-scale-matrices",
                          z3.ForAll([k, a, b], z3.Implies(rng, X.at(k, a, b) == S.at(k, a, b))) if ok else False))
            stored = st.arr(st.cell(info["obj"])["covariances"])
            g.append(("stored-scale-matrices-are-the-given-ones", z3.ForAll([k, a, b], z3.Implies(rng, stored.at(k, a, b) == S.at(k, a, b)))
                      if stored.ndim == 3 else False))
        return g
    ctx.verify("", "tempest.modes", "ModeStatistics.__init__", setup, post, extras={"numpy.linalg.inv": rec("inv"), "numpy.linalg.cholesky": rec("chol")},
               replayer="c03_balance", allowed_raises=())


# ------------------------------------------------------------------------------------------ hard boundaries: whole-move rejection
def out_of_cube_rejection(ctx):
    """The statements of BaseMCMCRunner.run between the proposal loop and the prior transform: a proposal that fails check_bounds
    is replaced by the walker's *whole* current point (no coordinate-wise mixing), every other proposal is left untouched."""
    from pyvc.state import State
    f = eff.qualname_index(ctx.mods).get((MCMC, "BaseMCMCRunner.run"))
    ctx.fuc(MCMC, "BaseMCMCRunner.run")
    loop = next((n for n in (f.body if f else []) if isinstance(n, ast.While)), None)
    if loop is None:
        return
    body = loop.body
    first_for = next((k for k, s_ in enumerate(body) if isinstance(s_, ast.For)), None)
    end = next((k for k, s_ in enumerate(body) if isinstance(s_, ast.Assign) and any(isinstance(t, ast.Name) and t.id == "x_prime" for t in s_.targets)), None)
    if first_for is None or end is None or end <= first_for:
        ctx.add(ObResult("C03/mcmc.BaseMCMCRunner.run/out-of-cube-rejection/slice-found", "unknown", detail="statement slice not found"))
        return
    stmts = body[first_for + 1:end]
    CB = z3.Function("check_bounds_row", ROW, z3.BoolSort())

    def h_cb(I, st, args, kw, node):
        a = st.arr(args[0])
        return st.new_arr(Arr((a.shape[0],), lambda i: CB(row(a, to_z3(i, "int"))), "bool"))
    I = ctx.interp(registry={(MCMC, "check_bounds"): h_cb})
    I.cur.append((MCMC, "BaseMCMCRunner.run"))
    st = State()
    n, d = fresh_scalar("int", "n"), fresh_scalar("int", "d")
    st.assume(z3.And(n >= 1, d >= 1))
    U, UP = fresh_arr((n, d), "real", "u"), fresh_arr((n, d), "real", "u_prime")
    runner = st.new_obj("BaseMCMCRunner", __module__=MCMC, u=st.new_arr(U), periodic=Opaque("periodic"), reflective=Opaque("reflective"), n_walkers=n)
    st.env = {"self": runner, "u_prime": st.new_arr(UP)}
    try:
        outs = [o for o in I.exec_block(stmts, st, MCMC) if o.kind == "fall"]
    except (Unsupported, PyRaise, AttributeError, TypeError, KeyError, IndexError, ValueError, z3.Z3Exception) as e:
        r = ctx.add(ObResult("C03/mcmc.BaseMCMCRunner.run/out-of-cube-rejection/vc-generation", "unknown",
                             detail=f"outside the supported subset: {type(e).__name__}: {str(e)[:200]}"))
        r.replayer = "c03_balance"
        return
    if len(outs) != 1:
        r = ctx.add(ObResult("C03/mcmc.BaseMCMCRunner.run/out-of-cube-rejection/vc-generation", "unknown", detail="statements fork or raise"))
        r.replayer = "c03_balance"
        return
    sf = outs[0].state
    from pyvc import discharge
    for ob in I.obligations:
        discharge.discharge(ob, ctx.timeout_ms)
        ctx.add(ObResult(f"C03/mcmc.BaseMCMCRunner.run/out-of-cube-rejection/{ob.label.split('/', 1)[-1]}", ob.status, ob.backend or "z3", ob.time, 1,
                         ob.note or "", line=ob.line)).replayer = "c03_balance"
    up2 = sf.arr(sf.env["u_prime"])
    i, c = z3.Int(fresh_name("i")), z3.Int(fresh_name("c"))
    inb = CB(row(UP, i))
    goal = z3.Implies(z3.And(i >= 0, i < n, c >= 0, c < d), up2.at(i, c) == z3.If(inb, UP.at(i, c), U.at(i, c)))
    r = ctx.lemma("mcmc.BaseMCMCRunner.run/out-of-cube-rejection/rejected-proposal-is-replaced-by-the-whole-current-point", list(sf.pc), goal, kind="vc",
                  detail="u'_i stays as proposed when check_bounds accepts it, and becomes u_i in every coordinate otherwise")
    r.replayer = "c03_balance"
    oob = sf.env.get("out_of_bounds")
    if isinstance(oob, Ref):
        O = sf.arr(oob)
        r2 = ctx.lemma("mcmc.BaseMCMCRunner.run/out-of-cube-rejection/mask-is-the-negated-bounds-check", list(sf.pc),
                       z3.Implies(z3.And(i >= 0, i < n), to_z3(O.at(i)) == z3.Not(inb)) if O.ndim == 1 else z3.BoolVal(False), kind="vc")
        r2.replayer = "c03_balance"
    else:
        ctx.add(ObResult("C03/mcmc.BaseMCMCRunner.run/out-of-cube-rejection/mask-is-the-negated-bounds-check", "unknown",
                         detail="no row mask `out_of_bounds`")).replayer = "c03_balance"


# ------------------------------------------------------------------------------------------ L1
def lemmas(ctx):
    nu, du, dv, p, a, sg, s = z3.Reals("nu delta_u delta_v inner a sigma s")
    hyp = [a * a == 1 - sg * sg, sg > 0, sg < 1, nu > 0, s > 0, du >= 0, dv >= 0]
    e_uv = (nu + du) + (dv - 2 * a * p + a * a * du) / (sg * sg)
    e_vu = (nu + dv) + (du - 2 * a * p + a * a * dv) / (sg * sg)
    ctx.lemma("L1/joint-density-exponent-symmetric", hyp, e_uv == e_vu,
              detail="(nu + delta(u)) + |u' - mu - a(u - mu)|^2_Sigma / sigma^2 is symmetric in (u,u') when a^2 = 1 - sigma^2; "
                     "|u' - a u|^2 = delta(u') - 2a<u,u'> + a^2 delta(u)")
    ctx.lemma("L1/symmetric-exponent-closed-form", hyp, e_uv == nu + (du + dv - 2 * a * p) / (sg * sg))
    from . import lean
    lean.require(ctx, "Tpcn.lean", ["student_times_invgamma_normaliser_constant", "exponent_symmetric"])
    # MH ratio: with the symmetric joint density, q(u->u') t(u) = q(u'->u) t(u'), so pi(u')q(u'->u)/(pi(u)q(u->u')) = pi(u')t(u)/(pi(u)t(u'))
    lu, lv, tu, tv, b = z3.Reals("l_u l_v logt_u logt_v beta")
    ctx.lemma("L1/metropolis-hastings-log-ratio", [], (b * lv + tu) - (b * lu + tv) == b * (lv - lu) + (tu - tv),
              detail="log[pi_beta(u') t(u)] - log[pi_beta(u) t(u')] = beta (l' - l) + logt(u) - logt(u'): the code's exponent (O4 + O6)")
    ctx.expect_sat("L1/canary", hyp + [du != dv])


def fold_finding(ctx):
    """F: tpCN evaluates its Student-t factor at the folded point; detailed balance on a periodic / reflective coordinate
    needs logt(fold(v)) = logt(v) on the pre-images, which a quadratic form cannot satisfy."""
    x, m, k = z3.Reals("v mu k")
    kk = z3.Int("k_int")
    # 1-d instance: delta(v) = (v - mu)^2 / s2; invariance under v -> v + 1 fails
    s = z3.Solver()
    s.add(((x + 1) - m) * ((x + 1) - m) != (x - m) * (x - m))
    sat = s.check() == z3.sat
    idx = eff.qualname_index(ctx.mods)
    f = idx.get((MCMC, "TPCNRunner._propose"))
    folds = f is not None and any(isinstance(n, ast.Call) and (eff.dotted(n.func) or "").endswith("apply_boundary_conditions") for n in ast.walk(f))
    # is tpcn with special coordinates excluded anywhere (config or runner)?
    guarded = False
    for (mm, q), fd in idx.items():
        for n in ast.walk(fd):
            if isinstance(n, ast.Compare):
                t = ast.unparse(n)
                if "tpcn" in t and ("periodic" in ast.unparse(fd)[:0] or False):
                    guarded = True
    status = "violated" if (sat and folds and not guarded) else "discharged"
    r = ctx.add(ObResult("C03/mcmc.TPCNRunner/preconditioning-density-invariant-under-the-boundary-fold", status, "z3", 0.0, 1,
                         "tpCN folds the proposal (periodic / reflective coordinates) and evaluates the Student-t factor at the folded point: "
                         "delta(v + k) != delta(v), so the factor is not the proposal-density ratio on the folded space; witness class: "
                         "tpcn with a periodic or reflective coordinate" if status == "violated" else "", kind="vc",
                         witness={"replayer": "c03_balance", "input": {"kernel": "tpcn", "boundary": "periodic"}} if status == "violated" else None))
    r.replayer = "c03_balance"
    r.definitive = True


def reflective_finding(ctx):
    """F2: a reflective fold flips the sign of one coordinate of the increment on the reflected paths; the folded proposal is
    symmetric only if the increment density is even in that coordinate *alone*.  For N(0, sigma^2 Sigma) with a correlated
    Sigma it is not (RWM; tpCN fails already by F)."""
    e0, e1, A, B, C = z3.Reals("e0 e1 A B C")
    Q = lambda x, y: A * x * x + 2 * B * x * y + C * y * y
    spd = [A > 0, C > 0, A * C - B * B > 0]
    ctx.lemma("L2/periodic-fold-needs-only-an-even-increment-density", spd, Q(-e0, -e1) == Q(e0, e1),
              detail="pre-images u'+k pair off under k -> -k with increments e and -e: any density that is even under full negation stays symmetric")
    st, model, backend, secs = __import__("pyvc.discharge", fromlist=["x"]).check_formulas(spd + [z3.Not(Q(-e0, e1) == Q(e0, e1))], 10000)
    idx = eff.qualname_index(ctx.mods)
    f = idx.get((MCMC, "RWMRunner._propose"))
    folds = f is not None and any(isinstance(n, ast.Call) and (eff.dotted(n.func) or "").endswith("apply_boundary_conditions") for n in ast.walk(f))
    status = "violated" if (st == "violated" and folds) else ("discharged" if st == "discharged" else "unknown")
    r = ctx.add(ObResult("C03/mcmc.RWMRunner/reflective-fold-keeps-the-increment-density-symmetric", status, "z3", secs, 1,
                         "the reflected paths of a move u -> u' use the increment (e0, e1) and those of u' -> u the increment (e0, -e1): "
                         "N(0, sigma^2 Sigma) with Sigma_01 != 0 gives them different densities, while the acceptance factor is 0; witness class: "
                         "rwm with a reflective coordinate and a correlated scale matrix" if status == "violated" else "", kind="vc",
                         model=__import__("pyvc.discharge", fromlist=["x"]).model_to_dict(model),
                         witness={"replayer": "c03_balance", "input": {"kernel": "rwm", "boundary": "reflective"}} if status == "violated" else None))
    r.replayer = "c03_balance"
    r.definitive = True


def run(ctx):
    ctx.weak_ids |= set(['._propose/'])     # helper-level contracts: arbitrated by the property-level native contract when they fail
    tpcn_propose(ctx)
    tpcn_factor(ctx)
    rwm(ctx)
    sigma_range(ctx)
    structure(ctx)
    wiring(ctx)
    mode_statistics_consistent(ctx)
    out_of_cube_rejection(ctx)
    from . import c10
    n0 = len(ctx.results)
    c10.acceptance(ctx)
    for r in ctx.results[n0:]:
        r.replayer = "c03_balance"
    lemmas(ctx)
    fold_finding(ctx)
    reflective_finding(ctx)
    ctx.trust("vecmat / matvec / dot are numpy's `@` and einsum('ij,ijk,ik->i') (uninterpreted: only congruence is used)",
              "np.random.gamma(shape, scale) has the Gamma(shape, scale) law, randn the standard normal law (A5); 1/Gamma(k, theta) is "
              "InvGamma(k, 1/theta)", "ModeStatistics: inv_covariances = Sigma^-1, chol_covariances = L with L L^T = Sigma (numpy contracts)",
              "Fubini: integrating the symmetric joint density over s gives a t_nu-reversible marginal proposal (textbook, not machine-checked)",
              "matvec(M, -z) = -matvec(M, z) and the standard normal law is even (RWM symmetry)",
              "C16 contracts of the boundary maps (pre-images pair off: folded symmetric proposals stay symmetric)",
              "C14: every assignment indexes an existing mode; C19/C14: nu > 0")
    ctx.undecided_clauses.append("step-size adaptation between steps (diminishing adaptation) is outside any per-call contract: the claim is "
                                 "per step with sigma fixed")
